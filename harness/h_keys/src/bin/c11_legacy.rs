//! C11, legacy transparent secret key encodings (zcash_keys::keys::transparent::Key, cargo feature
//! `transparent-key-encoding`): spec -> code replay of spec/Address/MC_LegacyKey.tla.
//!
//! TLC prints
//!   CASE  (key bytes, prefix byte, payload shape, checksum state, decoding network) -> accept/reject
//!         and the compressed flag the specification predicts,
//!   ENC   (valid key, compressed, network) -> payload bytes, and for every decoding network whether
//!         the string reads back,
//!   CONST the group order and the per-network prefix bytes of the specification.
//! This binary turns every payload into a string with its OWN Base58Check (SHA-256 and base 58 below,
//! neither the `bs58` nor the `sha2` crate the code under test uses), on real key bytes (the
//! representative of class "rand" is replaced by seeded random valid scalars), and executes
//! `Key::{decode_base58, encode_base58, new, secret, compressed, pubkey, der_encode, der_decode}`.
//!
//! usage: c11_legacy <records.ndjson> <config.json>      stdout (last line): one JSON summary object.
use h_keys::util::{guarded, quiet_panics, read_ndjson};
use rand::{Rng, RngCore, SeedableRng};
use rand_chacha::ChaCha20Rng;
use secrecy::{ExposeSecret, SecretString};
use serde_json::{Value, json};
use std::collections::BTreeMap;

use zcash_keys::keys::transparent::Key;
use zcash_keys::keys::transparent::test_vectors::{VALID, VectorKind};
use zcash_protocol::consensus::NetworkType;

// ---------------------------------------------------------------------------------------------
// own SHA-256 (FIPS 180-4) and base 58

const K256: [u32; 64] = [
    0x428a2f98, 0x71374491, 0xb5c0fbcf, 0xe9b5dba5, 0x3956c25b, 0x59f111f1, 0x923f82a4, 0xab1c5ed5, 0xd807aa98,
    0x12835b01, 0x243185be, 0x550c7dc3, 0x72be5d74, 0x80deb1fe, 0x9bdc06a7, 0xc19bf174, 0xe49b69c1, 0xefbe4786,
    0x0fc19dc6, 0x240ca1cc, 0x2de92c6f, 0x4a7484aa, 0x5cb0a9dc, 0x76f988da, 0x983e5152, 0xa831c66d, 0xb00327c8,
    0xbf597fc7, 0xc6e00bf3, 0xd5a79147, 0x06ca6351, 0x14292967, 0x27b70a85, 0x2e1b2138, 0x4d2c6dfc, 0x53380d13,
    0x650a7354, 0x766a0abb, 0x81c2c92e, 0x92722c85, 0xa2bfe8a1, 0xa81a664b, 0xc24b8b70, 0xc76c51a3, 0xd192e819,
    0xd6990624, 0xf40e3585, 0x106aa070, 0x19a4c116, 0x1e376c08, 0x2748774c, 0x34b0bcb5, 0x391c0cb3, 0x4ed8aa4a,
    0x5b9cca4f, 0x682e6ff3, 0x748f82ee, 0x78a5636f, 0x84c87814, 0x8cc70208, 0x90befffa, 0xa4506ceb, 0xbef9a3f7,
    0xc67178f2,
];

fn sha256(msg: &[u8]) -> [u8; 32] {
    let mut h: [u32; 8] =
        [0x6a09e667, 0xbb67ae85, 0x3c6ef372, 0xa54ff53a, 0x510e527f, 0x9b05688c, 0x1f83d9ab, 0x5be0cd19];
    let mut m = msg.to_vec();
    m.push(0x80);
    while m.len() % 64 != 56 {
        m.push(0);
    }
    m.extend_from_slice(&((msg.len() as u64) * 8).to_be_bytes());
    for block in m.chunks(64) {
        let mut w = [0u32; 64];
        for i in 0..16 {
            w[i] = u32::from_be_bytes([block[4 * i], block[4 * i + 1], block[4 * i + 2], block[4 * i + 3]]);
        }
        for i in 16..64 {
            let s0 = w[i - 15].rotate_right(7) ^ w[i - 15].rotate_right(18) ^ (w[i - 15] >> 3);
            let s1 = w[i - 2].rotate_right(17) ^ w[i - 2].rotate_right(19) ^ (w[i - 2] >> 10);
            w[i] = w[i - 16].wrapping_add(s0).wrapping_add(w[i - 7]).wrapping_add(s1);
        }
        let mut v = h;
        for i in 0..64 {
            let s1 = v[4].rotate_right(6) ^ v[4].rotate_right(11) ^ v[4].rotate_right(25);
            let ch = (v[4] & v[5]) ^ (!v[4] & v[6]);
            let t1 = v[7].wrapping_add(s1).wrapping_add(ch).wrapping_add(K256[i]).wrapping_add(w[i]);
            let s0 = v[0].rotate_right(2) ^ v[0].rotate_right(13) ^ v[0].rotate_right(22);
            let maj = (v[0] & v[1]) ^ (v[0] & v[2]) ^ (v[1] & v[2]);
            let t2 = s0.wrapping_add(maj);
            v = [t1.wrapping_add(t2), v[0], v[1], v[2], v[3].wrapping_add(t1), v[4], v[5], v[6]];
        }
        for i in 0..8 {
            h[i] = h[i].wrapping_add(v[i]);
        }
    }
    let mut out = [0u8; 32];
    for i in 0..8 {
        out[4 * i..4 * i + 4].copy_from_slice(&h[i].to_be_bytes());
    }
    out
}

const ALPHABET: &[u8; 58] = b"123456789ABCDEFGHJKLMNPQRSTUVWXYZabcdefghijkmnopqrstuvwxyz";

fn base58(data: &[u8]) -> String {
    let zeros = data.iter().take_while(|b| **b == 0).count();
    let mut digits: Vec<u8> = vec![]; // little endian base-58 digits
    for &b in data {
        let mut carry = b as u32;
        for d in digits.iter_mut() {
            carry += (*d as u32) << 8;
            *d = (carry % 58) as u8;
            carry /= 58;
        }
        while carry > 0 {
            digits.push((carry % 58) as u8);
            carry /= 58;
        }
    }
    let mut s = String::new();
    for _ in 0..zeros {
        s.push('1');
    }
    for d in digits.iter().rev() {
        s.push(ALPHABET[*d as usize] as char);
    }
    s
}

fn checksum(payload: &[u8]) -> [u8; 4] {
    let h = sha256(&sha256(payload));
    [h[0], h[1], h[2], h[3]]
}

fn base58check(payload: &[u8]) -> String {
    let mut v = payload.to_vec();
    v.extend_from_slice(&checksum(payload));
    base58(&v)
}

// ---------------------------------------------------------------------------------------------

/// Order of the secp256k1 group (SEC 2), big endian; compared with the specification's constant.
const ORDER: [u8; 32] = [
    0xFF, 0xFF, 0xFF, 0xFF, 0xFF, 0xFF, 0xFF, 0xFF, 0xFF, 0xFF, 0xFF, 0xFF, 0xFF, 0xFF, 0xFF, 0xFE, 0xBA, 0xAE, 0xDC,
    0xE6, 0xAF, 0x48, 0xA0, 0x3B, 0xBF, 0xD2, 0x5E, 0x8C, 0xD0, 0x36, 0x41, 0x41,
];

fn valid_scalar(k: &[u8]) -> bool {
    k.len() == 32 && k.iter().any(|b| *b != 0) && k < &ORDER[..]
}

fn random_scalar(rng: &mut ChaCha20Rng) -> [u8; 32] {
    loop {
        let mut k = [0u8; 32];
        rng.fill_bytes(&mut k);
        match rng.gen_range(0..8) {
            0 => {
                let z = rng.gen_range(1..31);
                k[..z].iter_mut().for_each(|b| *b = 0); // small scalars (leading zero bytes)
            }
            1 => k[..15].iter_mut().for_each(|b| *b = 0xFF), // close to the order from either side
            2 => k[31] = 1,                                  // last byte equal to the compression marker
            _ => {}
        }
        if valid_scalar(&k) {
            return k;
        }
    }
}

fn net_of(name: &str) -> NetworkType {
    match name {
        "main" => NetworkType::Main,
        "test" => NetworkType::Test,
        "regtest" => NetworkType::Regtest,
        _ => panic!("network name {name}"),
    }
}

fn bytes_of(v: &Value) -> Vec<u8> {
    v.as_array().expect("byte array").iter().map(|b| b.as_u64().expect("byte") as u8).collect()
}

struct Out {
    mismatches: Vec<Value>,
    counts: BTreeMap<String, u64>,
    der_len: BTreeMap<bool, usize>,
    pub_len: BTreeMap<bool, usize>,
}

impl Out {
    fn count(&mut self, k: &str) {
        *self.counts.entry(k.to_string()).or_insert(0) += 1;
    }
    fn mismatch(&mut self, what: &str, detail: Value) {
        if self.mismatches.len() < 40 {
            self.mismatches.push(json!({"section": "legacy", "what": what, "detail": detail}));
        }
        self.count("mismatches");
    }
}

fn decode(net: NetworkType, s: &str) -> Result<Option<Key>, String> {
    let secret: SecretString = SecretString::new(s.to_string());
    guarded(|| Key::decode_base58(&net, &secret).ok())
}

/// Everything the property says about an accepted / constructed key value.
fn check_key(out: &mut Out, key: &Key, scalar: &[u8], compressed: bool, net: NetworkType, string: &str, ctx: &Value) {
    let own_sk = secp256k1::SecretKey::from_slice(scalar).expect("harness: valid scalar refused by secp256k1");
    let secp = secp256k1::Secp256k1::new();
    let own_pk = secp256k1::PublicKey::from_secret_key(&secp, &own_sk);
    let (dl, pl) = (out.der_len[&compressed], out.pub_len[&compressed]);
    let r = guarded(|| {
        let mut bad: Vec<(String, Value)> = vec![];
        if key.secret().secret_bytes()[..] != scalar[..] {
            bad.push(("secret() differs from the encoded key bytes".into(), json!(hex::encode(key.secret().secret_bytes()))));
        }
        if key.compressed() != compressed {
            bad.push(("compressed() differs from the encoded form".into(), json!(key.compressed())));
        }
        let re = key.encode_base58(&net);
        if re.expose_secret() != string {
            bad.push(("encode_base58 of the key is not the string of its payload".into(), json!(re.expose_secret())));
        }
        if key.pubkey() != own_pk {
            bad.push(("pubkey() is not the public key of the secret".into(), json!(hex::encode(key.pubkey().serialize()))));
        }
        let der = key.der_encode();
        let d = der.expose_secret();
        let pk_ser: Vec<u8> =
            if compressed { own_pk.serialize().to_vec() } else { own_pk.serialize_uncompressed().to_vec() };
        if d.len() != dl || pk_ser.len() != pl || d[d.len().saturating_sub(pl)..] != pk_ser[..] {
            bad.push(("der_encode length / public key tail".into(), json!({"len": d.len(), "expected_len": dl})));
        }
        let off = if compressed { 8 } else { 9 };
        if d.len() < off + 32 || d[off..off + 32] != scalar[..] {
            bad.push(("der_encode does not carry the key bytes".into(), json!(hex::encode(d))));
        }
        match Key::der_decode(&der, compressed) {
            Ok(k2) => {
                if k2.secret().secret_bytes()[..] != scalar[..] || k2.compressed() != compressed {
                    bad.push(("der_decode(der_encode(k)) is another key".into(), json!(hex::encode(k2.secret().secret_bytes()))));
                } else if k2.encode_base58(&net).expose_secret() != string {
                    bad.push(("der_decode(der_encode(k)) encodes to another string".into(), json!(null)));
                }
            }
            Err(_) => bad.push(("der_decode refuses der_encode(k)".into(), json!(hex::encode(d)))),
        }
        bad
    });
    out.count("key_checks");
    match r {
        Ok(bad) => {
            for (what, got) in bad {
                out.mismatch(&what, json!({"case": ctx, "string": string, "got": got}));
            }
        }
        Err(p) => out.mismatch("panic in the Key API", json!({"case": ctx, "string": string, "panic": p})),
    }
}

fn sanity() {
    // harness self-check (a failure here is a tool error, never a violation)
    assert_eq!(
        hex::encode(sha256(b"abc")),
        "ba7816bf8f01cfea414140de5dae2223b00361a396177a9cb410ff61f20015ad",
        "own SHA-256"
    );
    assert_eq!(hex::encode(sha256(&[0x61u8; 119])).len(), 64);
    assert_eq!(
        hex::encode(sha256(b"abcdbcdecdefdefgefghfghighijhijkijkljklmklmnlmnomnopnopq")),
        "248d6a61d20638b8e5c026930c3e6039a33ce45964ff2167f6ecedd419db06c1",
        "own SHA-256 (two blocks)"
    );
    // zcashd's base58_keys_valid.json vectors (data shipped with the repo): own encoder reproduces them
    let mut n = 0;
    for v in VALID {
        if let VectorKind::Privkey { is_compressed } = v.kind {
            let prefix = match v.network {
                NetworkType::Main => 0x80u8,
                _ => 0xEF,
            };
            let mut p = vec![prefix];
            p.extend_from_slice(&hex::decode(v.raw_bytes_hex).expect("vector hex"));
            if is_compressed {
                p.push(1);
            }
            assert_eq!(base58check(&p), v.base58_encoding, "own Base58Check against a zcashd vector");
            let first = v.base58_encoding.chars().next().unwrap();
            let expect: &[char] = match (v.network, is_compressed) {
                (NetworkType::Main, false) => &['5'],
                (NetworkType::Main, true) => &['K', 'L'],
                (_, false) => &['9'],
                (_, true) => &['c'],
            };
            assert!(expect.contains(&first), "WIF first character");
            n += 1;
        }
    }
    assert!(n >= 8, "too few zcashd secret key vectors");
}

fn wif_first_char_ok(prefix: u8, compressed: bool, s: &str) -> bool {
    let first = s.chars().next().unwrap_or(' ');
    match (prefix, compressed) {
        (0x80, false) => first == '5',
        (0x80, true) => first == 'K' || first == 'L',
        (0xEF, false) => first == '9',
        (0xEF, true) => first == 'c',
        _ => true,
    }
}

fn main() {
    quiet_panics();
    let args: Vec<String> = std::env::args().collect();
    let recs = read_ndjson(&args[1]);
    let cfg: Value = serde_json::from_str(&std::fs::read_to_string(&args[2]).expect("config")).expect("config json");
    let seed = cfg["seed"].as_u64().unwrap_or(1);
    let reps = cfg["reps"].as_u64().unwrap_or(4) as usize;
    let mut rng = ChaCha20Rng::seed_from_u64(seed ^ 0xC11_1E6AC7);
    sanity();

    let mut out = Out { mismatches: vec![], counts: BTreeMap::new(), der_len: BTreeMap::new(), pub_len: BTreeMap::new() };
    for r in recs.iter().filter(|r| r["table"] == "CONST") {
        assert_eq!(bytes_of(&r["order"]), ORDER.to_vec(), "group order of the specification");
        out.count("const");
    }
    for r in recs.iter().filter(|r| r["table"] == "ENC") {
        let c = r["compressed"].as_bool().unwrap();
        out.der_len.insert(c, r["der_len"].as_u64().unwrap() as usize);
        out.pub_len.insert(c, r["pub_len"].as_u64().unwrap() as usize);
    }
    assert!(out.der_len.len() == 2 && out.counts.get("const") == Some(&1), "ENC / CONST records missing");

    // ---- CASE: decode every materialised string on the predicted network
    for r in recs.iter().filter(|r| r["table"] == "CASE") {
        let spec_payload = bytes_of(&r["payload"]);
        let is_rand = r["key"] == "rand";
        let net = net_of(r["net"].as_str().unwrap());
        let expect_ok = r["ok"].as_bool().unwrap();
        let expect_c = r["compressed"].as_bool().unwrap();
        for _ in 0..(if is_rand { reps } else { 1 }) {
            let mut payload = spec_payload.clone();
            if is_rand {
                let k = random_scalar(&mut rng);
                let n = payload.len().min(33);
                if n > 1 {
                    payload[1..n].copy_from_slice(&k[..n - 1]);
                }
            }
            let string = match r["ck"].as_str().unwrap() {
                "ok" => base58check(&payload),
                "bad" => {
                    let mut v = payload.clone();
                    let mut ck = checksum(&payload);
                    ck[rng.gen_range(0..4)] ^= 1 << rng.gen_range(0..8);
                    v.extend_from_slice(&ck);
                    base58(&v)
                }
                "badchar" => {
                    let mut s: Vec<char> = base58check(&payload).chars().collect();
                    let i = rng.gen_range(0..s.len());
                    s[i] = ['0', 'O', 'I', 'l', ' ', '+'][rng.gen_range(0..6)];
                    s.into_iter().collect()
                }
                x => panic!("ck {x}"),
            };
            let ctx = json!({"key": r["key"], "pfx": r["pfx"], "shape": r["shape"], "ck": r["ck"], "net": r["net"],
                             "payload_hex": hex::encode(&payload), "expected_ok": expect_ok, "expected_compressed": expect_c});
            out.count("decode_calls");
            match decode(net, &string) {
                Err(p) => out.mismatch("decode_base58 panics", json!({"case": ctx, "string": string, "panic": p})),
                Ok(None) => {
                    out.count("rejected");
                    if expect_ok {
                        out.mismatch(
                            "decode_base58 refuses a well-formed secret key string of this network",
                            json!({"case": ctx, "string": string}),
                        );
                    }
                }
                Ok(Some(key)) => {
                    out.count("accepted");
                    if !expect_ok {
                        out.mismatch(
                            "decode_base58 accepts a string the format does not allow",
                            json!({"case": ctx, "string": string, "compressed": key.compressed(),
                                   "secret": hex::encode(key.secret().secret_bytes())}),
                        );
                    } else {
                        out.count(if expect_c { "accepted_compressed" } else { "accepted_uncompressed" });
                        check_key(&mut out, &key, &payload[1..33], expect_c, net, &string, &ctx);
                    }
                }
            }
        }
    }

    // ---- ENC: construct, encode, decode on every network
    for r in recs.iter().filter(|r| r["table"] == "ENC") {
        let spec_payload = bytes_of(&r["payload"]);
        let is_rand = r["key"] == "rand";
        let net = net_of(r["net"].as_str().unwrap());
        let compressed = r["compressed"].as_bool().unwrap();
        for _ in 0..(if is_rand { 4 * reps } else { 1 }) {
            let mut payload = spec_payload.clone();
            if is_rand {
                payload[1..33].copy_from_slice(&random_scalar(&mut rng));
            }
            let scalar = payload[1..33].to_vec();
            let expected = base58check(&payload);
            let ctx = json!({"key": r["key"], "compressed": compressed, "net": r["net"], "payload_hex": hex::encode(&payload)});
            assert!(wif_first_char_ok(payload[0], compressed, &expected), "WIF first character of {expected}");
            out.count("enc_cases");
            let sk = secp256k1::SecretKey::from_slice(&scalar).expect("harness: valid scalar refused by secp256k1");
            let key = Key::new(sk, compressed);
            check_key(&mut out, &key, &scalar, compressed, net, &expected, &ctx);
            for (n2, ok) in r["dec"].as_object().unwrap() {
                let net2 = net_of(n2);
                let ok = ok.as_bool().unwrap();
                out.count("decode_calls");
                match decode(net2, &expected) {
                    Err(p) => out.mismatch("decode_base58 panics", json!({"case": ctx, "string": expected, "dec": n2, "panic": p})),
                    Ok(None) => {
                        if ok {
                            out.mismatch(
                                "the encoding of a key does not decode on a network with the same prefix",
                                json!({"case": ctx, "string": expected, "dec": n2}),
                            );
                        }
                    }
                    Ok(Some(k2)) => {
                        if !ok {
                            out.mismatch(
                                "the encoding of a key decodes on a network with another prefix",
                                json!({"case": ctx, "string": expected, "dec": n2}),
                            );
                        } else {
                            out.count("cross_decodes");
                            check_key(&mut out, &k2, &scalar, compressed, net2, &expected, &ctx);
                        }
                    }
                }
            }
        }
    }

    println!("{}", json!({"mismatches": out.mismatches, "counts": out.counts}));
}
