fn main() { println!("h_keys ok"); }
