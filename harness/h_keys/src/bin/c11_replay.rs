//! C11 spec -> code replay.  TLC (spec/Address/MC_Keys.tla) enumerates
//!   PATH  every derive/encode/decode path of <= 5 steps from a unified spending key, with the level,
//!         component set and accept/reject verdict the specification predicts,
//!   CASE  the decision table (components x request x index line) -> Address / FindAddress result,
//!   CODEC which (encoding network, decoding network) pairs of each string encoding read back,
//!   GAP   the gap-limit address list rule per BIP 44 scope.
//! This binary materialises them on REAL keys (seeded seeds x accounts x networks), executes the public
//! API of zcash_keys / zcash_transparent and compares with the prediction; receiver and key bytes are
//! compared with an independent derivation (sapling-crypto, orchard, bip32 crates called directly on
//! the seed), and notes encrypted with the real note-encryption crates to every derived receiver must
//! decrypt under the right incoming viewing key only.
//!
//! usage: c11_replay <paths.ndjson> <cases.ndjson> <tables.ndjson> <config.json>
//! stdout (last line): one JSON summary object.
#![allow(deprecated)]
use h_keys::util::{guarded, quiet_panics, read_ndjson};
use serde_json::{Value, json};
use std::collections::{BTreeMap, BTreeSet, HashMap};

use rand::{RngCore, SeedableRng};
use rand_chacha::ChaCha20Rng;

use zcash_address::unified::{self, Container, Encoding};
use zcash_keys::address::{Address, UnifiedAddress};
use zcash_keys::encoding::{self as enc, AddressCodec};
use zcash_keys::keys::transparent::gap_limits::generate_address_list;
use zcash_keys::keys::{
    Era, ReceiverRequirement, ReceiverRequirements, UnifiedAddressRequest, UnifiedFullViewingKey,
    UnifiedIncomingViewingKey, UnifiedSpendingKey,
};
use zcash_protocol::consensus::{MAIN_NETWORK, NetworkConstants, NetworkType, TEST_NETWORK};
use zcash_protocol::local_consensus::LocalNetwork;
use zcash_transparent::address::TransparentAddress;
use zcash_transparent::keys::{
    AccountPrivKey, AccountPubKey, ExternalIvk, IncomingViewingKey as _, InternalIvk, NonHardenedChildIndex,
    TransparentKeyScope,
};
use zip32::{AccountId, ChildIndex, DiversifierIndex, Scope};

const REGTEST: LocalNetwork = LocalNetwork {
    overwinter: None,
    sapling: None,
    blossom: None,
    heartwood: None,
    canopy: None,
    nu5: None,
    nu6: None,
    nu6_1: None,
    nu6_2: None,
    nu6_3: None,
};

#[derive(Clone, Copy, PartialEq, Eq, Debug, Hash, PartialOrd, Ord)]
enum Net {
    Main,
    Test,
    Regtest,
}
const NETS: [Net; 3] = [Net::Main, Net::Test, Net::Regtest];

impl Net {
    fn name(self) -> &'static str {
        match self {
            Net::Main => "main",
            Net::Test => "test",
            Net::Regtest => "regtest",
        }
    }
    fn from_name(s: &str) -> Net {
        match s {
            "main" => Net::Main,
            "test" => Net::Test,
            "regtest" => Net::Regtest,
            _ => panic!("bad net {s}"),
        }
    }
    /// SLIP 44 coin types (independent constants): 133 Zcash mainnet, 1 all test networks.
    fn coin_type(self) -> u32 {
        match self {
            Net::Main => 133,
            _ => 1,
        }
    }
    fn ty(self) -> NetworkType {
        match self {
            Net::Main => NetworkType::Main,
            Net::Test => NetworkType::Test,
            Net::Regtest => NetworkType::Regtest,
        }
    }
    fn other(self, rot: usize) -> Net {
        let i = NETS.iter().position(|n| *n == self).unwrap();
        NETS[(i + 1 + rot % 2) % 3]
    }
}

macro_rules! with_params {
    ($net:expr, $p:ident => $body:expr) => {
        match $net {
            Net::Main => {
                let $p = &MAIN_NETWORK;
                $body
            }
            Net::Test => {
                let $p = &TEST_NETWORK;
                $body
            }
            Net::Regtest => {
                let $p = &REGTEST;
                $body
            }
        }
    };
}

const TOP: u128 = (1u128 << 88) - 1;
const TBOUND: u128 = 1u128 << 31;

fn di(j: u128) -> DiversifierIndex {
    DiversifierIndex::try_from(j).expect("index below 2^88")
}
fn di_u128(d: &DiversifierIndex) -> u128 {
    let mut b = [0u8; 16];
    b[..11].copy_from_slice(d.as_bytes());
    u128::from_le_bytes(b)
}

// ------------------------------------------------------------------------------------------------
// independent derivation (the oracle): external crates called directly on the seed

struct Oracle {
    seed: Vec<u8>,
    account: u32,
    net: Net,
    o_sk: orchard::keys::SpendingKey,
    o_fvk: orchard::keys::FullViewingKey,
    s_extsk: sapling::zip32::ExtendedSpendingKey,
    s_dfvk: sapling::zip32::DiversifiableFullViewingKey,
    s_dk: sapling::zip32::DiversifierKey,
    t_acct: bip32::ExtendedPrivateKey<secp256k1::SecretKey>,
}

fn sapling_account_key(seed: &[u8], coin: u32, account: u32) -> sapling::zip32::ExtendedSpendingKey {
    sapling::zip32::ExtendedSpendingKey::from_path(
        &sapling::zip32::ExtendedSpendingKey::master(seed),
        &[ChildIndex::hardened(32), ChildIndex::hardened(coin), ChildIndex::hardened(account)],
    )
}

fn dk_of(dfvk: &sapling::zip32::DiversifiableFullViewingKey) -> sapling::zip32::DiversifierKey {
    let b = dfvk.to_bytes();
    let mut dk = [0u8; 32];
    dk.copy_from_slice(&b[96..128]);
    sapling::zip32::DiversifierKey::from_bytes(dk)
}

fn chain_pub(k: &bip32::ExtendedPublicKey<secp256k1::PublicKey>) -> Vec<u8> {
    let mut v = k.attrs().chain_code.to_vec();
    v.extend_from_slice(&k.public_key().serialize());
    v
}

impl Oracle {
    fn new(seed: &[u8], account: u32, net: Net) -> Oracle {
        let coin = net.coin_type();
        let aid = AccountId::try_from(account).expect("account < 2^31");
        let o_sk = orchard::keys::SpendingKey::from_zip32_seed(seed, coin, aid).expect("orchard sk");
        let o_fvk = orchard::keys::FullViewingKey::from(&o_sk);
        let s_extsk = sapling_account_key(seed, coin, account);
        let s_dfvk = s_extsk.to_diversifiable_full_viewing_key();
        let s_dk = dk_of(&s_dfvk);
        let h = |i: u32| bip32::ChildNumber::new(i, true).unwrap();
        let t_acct = bip32::ExtendedPrivateKey::<secp256k1::SecretKey>::new(seed)
            .and_then(|k| k.derive_child(h(44)))
            .and_then(|k| k.derive_child(h(coin)))
            .and_then(|k| k.derive_child(h(account)))
            .expect("bip32 account key");
        Oracle { seed: seed.to_vec(), account, net, o_sk, o_fvk, s_extsk, s_dfvk, s_dk, t_acct }
    }
    fn id(&self) -> Value {
        json!({"seed_hex": hex::encode(&self.seed), "account": self.account, "net": self.net.name()})
    }
    fn sapling_valid(&self, j: u128) -> bool {
        self.s_dk.diversifier(di(j)).is_some()
    }
    fn recv_orchard(&self, j: u128) -> [u8; 43] {
        let oj = orchard::keys::DiversifierIndex::from(*di(j).as_bytes());
        self.o_fvk.address_at(oj, orchard::keys::Scope::External).to_raw_address_bytes()
    }
    fn recv_sapling(&self, j: u128) -> Option<[u8; 43]> {
        self.s_dfvk.address(di(j)).map(|a| a.to_bytes())
    }
    fn t_acct_pub(&self) -> bip32::ExtendedPublicKey<secp256k1::PublicKey> {
        self.t_acct.public_key()
    }
    fn t_change_pub(&self, change: u32) -> bip32::ExtendedPublicKey<secp256k1::PublicKey> {
        self.t_acct_pub().derive_child(bip32::ChildNumber::new(change, false).unwrap()).expect("change level")
    }
    /// m/44'/coin'/account'/change/index derived on the PRIVATE side, then hashed.
    fn t_addr(&self, change: u32, index: u32) -> (TransparentAddress, secp256k1::PublicKey, secp256k1::SecretKey) {
        let nh = |i: u32| bip32::ChildNumber::new(i, false).unwrap();
        let k = self.t_acct.derive_child(nh(change)).and_then(|k| k.derive_child(nh(index))).expect("child");
        let sk = *k.private_key();
        let pk = *k.public_key().public_key();
        (TransparentAddress::from_pubkey(&pk), pk, sk)
    }
    fn recv_transparent(&self, j: u128) -> Option<[u8; 20]> {
        if j < TBOUND {
            match self.t_addr(0, j as u32).0 {
                TransparentAddress::PublicKeyHash(h) => Some(h),
                _ => None,
            }
        } else {
            None
        }
    }
    /// the 74 bytes of a BIP 32 extended private key without its 4 version bytes
    fn t_xprv74(&self) -> Vec<u8> {
        let a = self.t_acct.attrs();
        let mut v = vec![a.depth];
        v.extend_from_slice(&a.parent_fingerprint);
        v.extend_from_slice(&a.child_number.to_bytes());
        v.extend_from_slice(&a.chain_code);
        v.push(0);
        v.extend_from_slice(&self.t_acct.private_key().secret_bytes());
        v
    }
    /// layout of UnifiedSpendingKey::to_bytes(Era::Orchard): era id = NU5 branch id (LE), then
    /// (typecode, length, key) for Orchard (3), Sapling (2), P2PKH (0); lengths < 253 are one byte.
    fn usk_bytes(&self) -> Vec<u8> {
        let mut v = 0xc2d6_d0b4u32.to_le_bytes().to_vec();
        v.extend_from_slice(&[3, 32]);
        v.extend_from_slice(self.o_sk.to_bytes());
        v.extend_from_slice(&[2, 169]);
        v.extend_from_slice(&self.s_extsk.to_bytes());
        v.extend_from_slice(&[0, 74]);
        v.extend_from_slice(&self.t_xprv74());
        v
    }
}

// ------------------------------------------------------------------------------------------------
// index lines: signature "FT,FT,TT|e0" (sv tv per index, end flag) -> real start indices

fn line_sig(o: &Oracle, j: u128, max_len: usize) -> Option<String> {
    let mut parts = vec![];
    let mut k = j;
    loop {
        let sv = o.sapling_valid(k);
        let tv = k < TBOUND;
        parts.push(format!("{}{}", if sv { 'T' } else { 'F' }, if tv { 'T' } else { 'F' }));
        if sv {
            return Some(format!("{}|e0", parts.join(",")));
        }
        if k == TOP {
            return Some(format!("{}|e1", parts.join(",")));
        }
        if parts.len() >= max_len {
            return None;
        }
        k += 1;
    }
}

fn candidates() -> Vec<u128> {
    let mut c: Vec<u128> = (0..160u128).collect();
    c.extend((TBOUND - 5)..(TBOUND + 4));
    c.extend((1u128 << 32)..((1u128 << 32) + 160));
    c.extend((TOP - 4)..=TOP);
    c
}

fn materialise_lines(o: &Oracle, max_len: usize) -> BTreeMap<String, Vec<u128>> {
    let mut m: BTreeMap<String, Vec<u128>> = BTreeMap::new();
    for j in candidates() {
        if let Some(s) = line_sig(o, j, max_len) {
            m.entry(s).or_default().push(j);
        }
    }
    m
}

fn case_sig(case: &Value) -> String {
    let parts: Vec<String> = case["line"]
        .as_array()
        .unwrap()
        .iter()
        .map(|p| {
            format!(
                "{}{}",
                if p[0].as_bool().unwrap() { 'T' } else { 'F' },
                if p[1].as_bool().unwrap() { 'T' } else { 'F' }
            )
        })
        .collect();
    format!("{}|e{}", parts.join(","), if case["end"].as_bool().unwrap() { 1 } else { 0 })
}

fn comps_key(v: &Value) -> String {
    let mut s: Vec<&str> = v.as_array().unwrap().iter().map(|x| x.as_str().unwrap()).collect();
    s.sort();
    s.join("")
}
fn set_of(v: &Value) -> BTreeSet<String> {
    v.as_array().unwrap().iter().map(|x| x.as_str().unwrap().to_string()).collect()
}

// ------------------------------------------------------------------------------------------------
// mismatch collection

struct Out {
    mism: Vec<Value>,
    counts: BTreeMap<String, u64>,
    distinct: BTreeSet<String>,
}
impl Out {
    fn new() -> Out {
        Out { mism: vec![], counts: BTreeMap::new(), distinct: BTreeSet::new() }
    }
    fn count(&mut self, k: &str) {
        *self.counts.entry(k.to_string()).or_insert(0) += 1;
    }
    fn bad(&mut self, o: &Oracle, section: &str, what: String, detail: Value) {
        if self.mism.len() < 40 {
            self.mism.push(json!({"section": section, "key": o.id(), "what": what, "detail": detail}));
        }
    }
}

// ------------------------------------------------------------------------------------------------
// the derive / encode / decode graph on real keys

enum KS {
    Usk(Box<UnifiedSpendingKey>),
    UskBytes(Vec<u8>),
    Fvk(Box<UnifiedFullViewingKey>),
    FvkStr(String, Net),
    Ivk(Box<UnifiedIncomingViewingKey>),
    IvkStr(String, Net),
    Rejected,
}

fn has(c: &Value, x: &str) -> bool {
    c.as_array().unwrap().iter().any(|v| v.as_str() == Some(x))
}

fn real_net(o: &Oracle, n: &str, rot: usize) -> Net {
    if n == "home" { o.net } else { o.net.other(rot) }
}

/// Executes one step; Err(text) = the code did something the specification does not allow at this step.
fn step(o: &Oracle, st: KS, s: &Value, rot: usize, expect_ok: bool) -> Result<KS, String> {
    let a = s["a"].as_str().unwrap();
    let g = |r: Result<Result<KS, String>, String>| -> Result<KS, String> {
        match r {
            Ok(x) => x,
            Err(p) => Err(format!("panic in {a}: {p}")),
        }
    };
    let verdict = |r: Result<KS, String>| -> Result<KS, String> {
        match (r, expect_ok) {
            (Ok(k), true) => Ok(k),
            (Ok(_), false) => Err(format!("{a}: accepted, the specification rejects")),
            (Err(e), true) => Err(format!("{a}: rejected ({e}), the specification accepts")),
            (Err(_), false) => Ok(KS::Rejected),
        }
    };
    match (a, st) {
        ("ToBytes", KS::Usk(k)) => {
            let b = guarded(|| k.to_bytes(Era::Orchard)).map_err(|p| format!("panic in ToBytes: {p}"))?;
            if b != o.usk_bytes() {
                return Err(format!("ToBytes: encoding differs from the specified layout: {}", hex::encode(&b)));
            }
            Ok(KS::UskBytes(b))
        }
        ("FromBytes", KS::UskBytes(b)) => verdict(g(guarded(|| {
            UnifiedSpendingKey::from_bytes(Era::Orchard, &b).map(|k| KS::Usk(Box::new(k))).map_err(|e| format!("{e:?}"))
        }))),
        ("FromBytesOtherEra", KS::UskBytes(b)) => {
            // Canopy branch id, an unknown id, and a truncated key must all be refused
            for era in [0xe9ff_75a6u32, 0x0000_0000, 0xc2d6_d0b5] {
                let mut m = b.clone();
                m[..4].copy_from_slice(&era.to_le_bytes());
                let r = guarded(|| UnifiedSpendingKey::from_bytes(Era::Orchard, &m).is_ok())
                    .map_err(|p| format!("panic in FromBytesOtherEra: {p}"))?;
                if r {
                    return Err(format!("from_bytes accepted era id {era:08x}"));
                }
            }
            let r = guarded(|| UnifiedSpendingKey::from_bytes(Era::Orchard, &b[..b.len() - 1]).is_ok())
                .map_err(|p| format!("panic in from_bytes(truncated): {p}"))?;
            if r {
                return Err("from_bytes accepted a truncated encoding".into());
            }
            Ok(KS::Rejected)
        }
        ("DeriveFvk", KS::Usk(k)) => g(guarded(|| Ok(KS::Fvk(Box::new(k.to_unified_full_viewing_key()))))),
        ("DeriveIvk", KS::Fvk(k)) => g(guarded(|| Ok(KS::Ivk(Box::new(k.to_unified_incoming_viewing_key()))))),
        ("Project", KS::Fvk(k)) => {
            let c = &s["c"];
            verdict(g(guarded(|| {
                UnifiedFullViewingKey::new(
                    if has(c, "t") { k.transparent().cloned() } else { None },
                    if has(c, "s") { k.sapling().cloned() } else { None },
                    if has(c, "o") { k.orchard().cloned() } else { None },
                )
                .map(|k| KS::Fvk(Box::new(k)))
                .map_err(|e| format!("{e:?}"))
            })))
        }
        ("Project", KS::Ivk(k)) => {
            let c = &s["c"];
            g(guarded(|| {
                Ok(KS::Ivk(Box::new(UnifiedIncomingViewingKey::new(
                    if has(c, "t") { k.transparent().clone() } else { None },
                    if has(c, "s") { k.sapling().clone() } else { None },
                    if has(c, "o") { k.orchard().clone() } else { None },
                ))))
            }))
        }
        ("Encode", KS::Fvk(k)) => {
            let n = real_net(o, s["n"].as_str().unwrap(), rot);
            g(guarded(|| Ok(KS::FvkStr(with_params!(n, p => k.encode(p)), n))))
        }
        ("Encode", KS::Ivk(k)) => {
            let n = real_net(o, s["n"].as_str().unwrap(), rot);
            g(guarded(|| Ok(KS::IvkStr(with_params!(n, p => k.encode(p)), n))))
        }
        ("Decode", KS::FvkStr(t, _)) => {
            let n = real_net(o, s["n"].as_str().unwrap(), rot);
            verdict(g(guarded(|| {
                with_params!(n, p => UnifiedFullViewingKey::decode(p, &t)).map(|k| KS::Fvk(Box::new(k)))
            })))
        }
        ("Decode", KS::IvkStr(t, en)) => {
            let n = real_net(o, s["n"].as_str().unwrap(), rot);
            match unified::Uivk::decode(&t) {
                Ok((net, _)) if net == en.ty() => {}
                _ => return Err("Encode: the UIVK string does not carry the network it was encoded for".into()),
            }
            verdict(g(guarded(|| {
                with_params!(n, p => UnifiedIncomingViewingKey::decode(p, &t)).map(|k| KS::Ivk(Box::new(k)))
            })))
        }
        ("Parse", KS::FvkStr(t, n)) => verdict(g(guarded(|| {
            let (net, c) = unified::Ufvk::decode(&t).map_err(|e| format!("container: {e}"))?;
            if net != n.ty() {
                return Err(format!("container reports network {net:?}, encoded for {:?}", n.ty()));
            }
            UnifiedFullViewingKey::parse(&c).map(|k| KS::Fvk(Box::new(k))).map_err(|e| format!("{e:?}"))
        }))),
        (a, _) => Err(format!("harness: step {a} not applicable")),
    }
}

fn run_path(o: &Oracle, usk0: &UnifiedSpendingKey, rec: &Value, rot: usize) -> Result<KS, String> {
    let steps = rec["path"].as_array().unwrap();
    let ok = rec["ok"].as_bool().unwrap();
    let mut st = KS::Usk(Box::new(usk0.clone()));
    for (i, s) in steps.iter().enumerate() {
        let last = i + 1 == steps.len();
        st = step(o, st, s, rot, !last || ok).map_err(|e| format!("step {} {}", i + 1, e))?;
    }
    Ok(st)
}

enum Ep<'a> {
    Fvk(&'a UnifiedFullViewingKey),
    Ivk(&'a UnifiedIncomingViewingKey),
}
impl Ep<'_> {
    fn address(&self, j: DiversifierIndex, r: UnifiedAddressRequest) -> Result<UnifiedAddress, String> {
        match self {
            Ep::Fvk(k) => k.address(j, r).map_err(|e| format!("{e:?}")),
            Ep::Ivk(k) => k.address(j, r).map_err(|e| format!("{e:?}")),
        }
    }
    fn find(&self, j: DiversifierIndex, r: UnifiedAddressRequest) -> Result<(UnifiedAddress, DiversifierIndex), String> {
        match self {
            Ep::Fvk(k) => k.find_address(j, r).map_err(|e| format!("{e:?}")),
            Ep::Ivk(k) => k.find_address(j, r).map_err(|e| format!("{e:?}")),
        }
    }
    fn uivk(&self) -> UnifiedIncomingViewingKey {
        match self {
            Ep::Fvk(k) => k.to_unified_incoming_viewing_key(),
            Ep::Ivk(k) => (*k).clone(),
        }
    }
}

/// Key material of an endpoint against the independent derivation: a component is present iff the
/// specification says so, and its bytes are those of the key derived directly from the seed.
fn check_endpoint_material(o: &Oracle, ep: &Ep, comps: &Value) -> Vec<String> {
    let mut bad = vec![];
    let mut cmp = |name: &str, c: &str, got: Option<Vec<u8>>, want: Vec<u8>| {
        let expected = has(comps, c);
        match (got, expected) {
            (None, false) => {}
            (Some(g), true) => {
                if g != want {
                    bad.push(format!("{name} component differs from the independent derivation"));
                }
            }
            (None, true) => bad.push(format!("{name} component missing")),
            (Some(_), false) => bad.push(format!("{name} component present but not in the specified set")),
        }
    };
    match ep {
        Ep::Fvk(k) => {
            cmp("orchard fvk", "o", k.orchard().map(|f| f.to_bytes().to_vec()), o.o_fvk.to_bytes().to_vec());
            cmp("sapling dfvk", "s", k.sapling().map(|f| f.to_bytes().to_vec()), o.s_dfvk.to_bytes().to_vec());
            cmp("transparent account pubkey", "t", k.transparent().map(|f| f.serialize()), chain_pub(&o.t_acct_pub()));
        }
        Ep::Ivk(k) => {
            cmp(
                "orchard external ivk",
                "o",
                k.orchard().as_ref().map(|f| f.to_bytes().to_vec()),
                o.o_fvk.to_ivk(orchard::keys::Scope::External).to_bytes().to_vec(),
            );
            cmp(
                "sapling external ivk",
                "s",
                k.sapling().as_ref().map(|f| f.to_bytes().to_vec()),
                o.s_dfvk.to_external_ivk().to_bytes().to_vec(),
            );
            cmp(
                "transparent external ivk",
                "t",
                k.transparent().as_ref().map(|f| f.serialize()),
                chain_pub(&o.t_change_pub(0)),
            );
            if k.has_orchard() != has(comps, "o") || k.has_sapling() != has(comps, "s") || k.has_transparent() != has(comps, "t") {
                bad.push("has_* flags differ from the specified component set".into());
            }
        }
    }
    bad
}

/// encode(decode(s)) == s on the home network, for keys that have a string encoding
fn check_endpoint_roundtrip(o: &Oracle, ep: &Ep, comps: &Value) -> Vec<String> {
    let mut bad = vec![];
    if !(has(comps, "o") || has(comps, "s")) {
        return bad;
    }
    let r = guarded(|| {
        with_params!(o.net, p => match ep {
            Ep::Fvk(k) => {
                let s = k.encode(p);
                let d = UnifiedFullViewingKey::decode(p, &s)?;
                let (net, c) = unified::Ufvk::decode(&s).map_err(|e| format!("{e}"))?;
                let items = c.items().len();
                Ok::<_, String>((s.clone(), d.encode(p), net, items))
            }
            Ep::Ivk(k) => {
                let s = k.encode(p);
                let d = UnifiedIncomingViewingKey::decode(p, &s)?;
                let (net, c) = unified::Uivk::decode(&s).map_err(|e| format!("{e}"))?;
                let items = c.items().len();
                Ok::<_, String>((s.clone(), d.encode(p), net, items))
            }
        })
    });
    // a valid encoding with an additional item of an unknown typecode decodes to a key that
    // re-encodes to the same string and holds the same known components
    let r2 = guarded(|| {
        let extra: Vec<u8> = o.seed.iter().cycle().skip(3).take(37).cloned().collect();
        with_params!(o.net, p => match ep {
            Ep::Fvk(k) => {
                let (_, c) = unified::Ufvk::decode(&k.encode(p)).map_err(|e| format!("{e}"))?;
                let mut items = c.items_as_parsed().to_vec();
                items.push(unified::Fvk::Unknown { typecode: 0x0123, data: extra });
                let s = unified::Ufvk::try_from_items(items).map_err(|e| format!("{e}"))?.encode(&o.net.ty());
                let d = UnifiedFullViewingKey::decode(p, &s)?;
                let m = check_endpoint_material(o, &Ep::Fvk(&d), comps);
                Ok::<_, String>((d.encode(p) == s, m))
            }
            Ep::Ivk(k) => {
                let (_, c) = unified::Uivk::decode(&k.encode(p)).map_err(|e| format!("{e}"))?;
                let mut items = c.items_as_parsed().to_vec();
                items.push(unified::Ivk::Unknown { typecode: 0x0123, data: extra });
                let s = unified::Uivk::try_from_items(items).map_err(|e| format!("{e}"))?.encode(&o.net.ty());
                let d = UnifiedIncomingViewingKey::decode(p, &s)?;
                let m = check_endpoint_material(o, &Ep::Ivk(&d), comps);
                Ok::<_, String>((d.encode(p) == s, m))
            }
        })
    });
    match r2 {
        Err(p) => bad.push(format!("panic decoding a key with an unknown item: {p}")),
        Ok(Err(e)) => bad.push(format!("a key string with an unknown item does not decode: {e}")),
        Ok(Ok((same, m))) => {
            if !same {
                bad.push("a key string with an unknown item does not re-encode to the same string".into());
            }
            bad.extend(m.into_iter().map(|x| format!("with an unknown item: {x}")));
        }
    }
    match r {
        Err(p) => bad.push(format!("panic in encode/decode: {p}")),
        Ok(Err(e)) => bad.push(format!("own encoding does not decode: {e}")),
        Ok(Ok((s, s2, net, items))) => {
            if s != s2 {
                bad.push("encode(decode(s)) != s".into());
            }
            if net != o.net.ty() {
                bad.push(format!("encoding carries network {net:?}"));
            }
            if items != comps.as_array().unwrap().len() {
                bad.push(format!("encoding has {items} items, the key has {} components", comps.as_array().unwrap().len()));
            }
        }
    }
    bad
}

// ------------------------------------------------------------------------------------------------
// Address / FindAddress / DecryptDiversifiers cases

fn lvl(s: &str) -> ReceiverRequirement {
    match s {
        "Require" => ReceiverRequirement::Require,
        "Allow" => ReceiverRequirement::Allow,
        "Omit" => ReceiverRequirement::Omit,
        _ => panic!("bad requirement {s}"),
    }
}

/// Ok(None): the request is not constructible (and the specification says so).
fn build_request(req: &Value, spec_badreq: bool) -> Result<Option<UnifiedAddressRequest>, String> {
    if req["kind"] == "all" {
        return Ok(Some(UnifiedAddressRequest::AllAvailableKeys));
    }
    let (o, s, t) = (lvl(req["o"].as_str().unwrap()), lvl(req["s"].as_str().unwrap()), lvl(req["t"].as_str().unwrap()));
    let r = guarded(|| (UnifiedAddressRequest::custom(o, s, t), ReceiverRequirements::new(o, s, t)))
        .map_err(|p| format!("panic constructing the request: {p}"))?;
    match (r.0, r.1, spec_badreq) {
        (Ok(u), Ok(_), false) => Ok(Some(u)),
        (Err(_), Err(_), true) => Ok(None),
        (a, b, _) => Err(format!(
            "request construction: custom() ok={} new() ok={}, the specification says constructible={}",
            a.is_ok(),
            b.is_ok(),
            !spec_badreq
        )),
    }
}

fn ua_types(ua: &UnifiedAddress) -> BTreeSet<String> {
    let mut s = BTreeSet::new();
    if ua.has_orchard() {
        s.insert("o".to_string());
    }
    if ua.has_sapling() {
        s.insert("s".to_string());
    }
    if ua.has_transparent() {
        s.insert("t".to_string());
    }
    s
}

/// every receiver of `ua` is the external-scope receiver of the independent derivation at index j
fn ua_vs_oracle(o: &Oracle, ua: &UnifiedAddress, j: u128) -> Vec<String> {
    let mut bad = vec![];
    if let Some(a) = ua.orchard() {
        if a.to_raw_address_bytes() != o.recv_orchard(j) {
            bad.push("orchard receiver is not the external receiver of this account at this index".into());
        }
    }
    if let Some(a) = ua.sapling() {
        if Some(a.to_bytes()) != o.recv_sapling(j) {
            bad.push("sapling receiver is not the external receiver of this account at this index".into());
        }
    }
    if let Some(a) = ua.transparent() {
        match (a, o.recv_transparent(j)) {
            (TransparentAddress::PublicKeyHash(h), Some(w)) if *h == w => {}
            _ => bad.push("transparent receiver is not m/44'/coin'/account'/0/index".into()),
        }
    }
    if !ua.unknown().is_empty() {
        bad.push("derived address has unknown receivers".into());
    }
    bad
}

fn check_case(o: &Oracle, ep: &Ep, case: &Value, j0: u128, deep: bool, out: &mut Out, tag: &str) {
    let mut bad: Vec<String> = vec![];
    let spec_addr = &case["addr"];
    let spec_k = spec_addr["k"].as_str().unwrap();
    out.count("case_evaluations");
    let req = match build_request(&case["req"], spec_k == "badreq") {
        Err(e) => {
            out.bad(o, "case", e, json!({"case": case, "j": j0.to_string(), "at": tag}));
            return;
        }
        Ok(None) => return,
        Ok(Some(r)) => r,
    };
    // Address(j, req)
    let got = guarded(|| ep.address(di(j0), req));
    let mut ua_ok: Option<UnifiedAddress> = None;
    match (&got, spec_k) {
        (Err(p), _) => bad.push(format!("address panicked: {p}")),
        (Ok(Ok(ua)), "ok") => {
            let want = set_of(&spec_addr["recv"]);
            let have = ua_types(ua);
            if have != want {
                bad.push(format!("address has receivers {have:?}, the specification gives {want:?}"));
            }
            bad.extend(ua_vs_oracle(o, ua, j0));
            ua_ok = Some(ua.clone());
        }
        (Ok(Ok(ua)), _) => bad.push(format!("address succeeded with receivers {:?}, the specification gives an error", ua_types(ua))),
        (Ok(Err(e)), "ok") => bad.push(format!("address failed ({e}), the specification gives receivers {:?}", set_of(&spec_addr["recv"]))),
        (Ok(Err(_)), _) => {}
    }
    // FindAddress(j, req)
    let allowed = case["find"].as_array().unwrap();
    match guarded(|| ep.find(di(j0), req)) {
        Err(p) => bad.push(format!("find_address panicked: {p}")),
        Ok(Err(e)) => {
            if !allowed.iter().any(|f| f["k"] == "err") {
                bad.push(format!("find_address failed ({e}), the specification gives {}", case["find"]));
            }
        }
        Ok(Ok((ua, jf))) => {
            let jf = di_u128(&jf);
            let have = ua_types(&ua);
            let m = allowed.iter().any(|f| {
                f["k"] == "ok" && j0 + (f["at"].as_u64().unwrap() as u128) - 1 == jf && set_of(&f["recv"]) == have
            });
            if !m {
                bad.push(format!(
                    "find_address returned index start+{} with receivers {have:?}, the specification gives {}",
                    jf.wrapping_sub(j0),
                    case["find"]
                ));
            }
            bad.extend(ua_vs_oracle(o, &ua, jf).into_iter().map(|s| format!("find_address: {s}")));
            out.distinct.insert(format!("find:{}:{}", jf.wrapping_sub(j0), have.iter().cloned().collect::<String>()));
        }
    }
    // DecryptDiversifiers
    if let Some(ua) = &ua_ok {
        out.distinct.insert(format!("addr:{}:{}", comps_key(&case["comps"]), ua_types(ua).iter().cloned().collect::<String>()));
        let uivk = ep.uivk();
        match guarded(|| uivk.decrypt_diversifiers(ua)) {
            Err(p) => bad.push(format!("decrypt_diversifiers panicked: {p}")),
            Ok(s) => {
                let got: Vec<u128> = s.iter().map(di_u128).collect();
                if got != vec![j0] {
                    bad.push(format!("decrypt_diversifiers returned {got:?}, expected exactly the index {j0}"));
                }
            }
        }
        if deep {
            // sub-keys: the index is recovered iff the sub-key shares a shielded receiver with the address
            let have = ua_types(ua);
            for sub in [["o"].as_slice(), ["s"].as_slice(), ["t"].as_slice(), [].as_slice()] {
                let k = UnifiedIncomingViewingKey::new(
                    if sub.contains(&"t") { uivk.transparent().clone() } else { None },
                    if sub.contains(&"s") { uivk.sapling().clone() } else { None },
                    if sub.contains(&"o") { uivk.orchard().clone() } else { None },
                );
                let expect = sub.iter().any(|c| *c != "t" && have.contains(*c) && has(&case["comps"], c));
                match guarded(|| k.decrypt_diversifiers(ua)) {
                    Err(p) => bad.push(format!("decrypt_diversifiers(sub-key) panicked: {p}")),
                    Ok(s) => {
                        let got: Vec<u128> = s.iter().map(di_u128).collect();
                        let want: Vec<u128> = if expect { vec![j0] } else { vec![] };
                        if got != want {
                            bad.push(format!("decrypt_diversifiers under sub-key {sub:?} returned {got:?}, expected {want:?}"));
                        }
                    }
                }
            }
            // string form: encode -> decode is the identity; the container holds exactly the receivers
            let r = guarded(|| {
                with_params!(o.net, p => {
                    let s = ua.encode(p);
                    let d = <UnifiedAddress as AddressCodec<_>>::decode(p, &s)?;
                    let a = Address::decode(p, &s);
                    let (net, c) = unified::Address::decode(&s).map_err(|e| format!("{e}"))?;
                    Ok::<_, String>((d == *ua, matches!(a, Some(Address::Unified(ref x)) if x == ua), net, c.items().len(), d.encode(p) == s))
                })
            });
            match r {
                Err(p) => bad.push(format!("panic in unified address codec: {p}")),
                Ok(Err(e)) => bad.push(format!("encoded unified address does not decode: {e}")),
                Ok(Ok((same, same2, net, n, re))) => {
                    if !same || !same2 || !re {
                        bad.push("unified address string does not round-trip".into());
                    }
                    if net != o.net.ty() || n != have.len() {
                        bad.push("unified address string carries a wrong network or receiver count".into());
                    }
                }
            }
        }
    }
    if !bad.is_empty() {
        out.bad(o, "case", bad[0].clone(), json!({"case": case, "j": j0.to_string(), "at": tag, "all": bad}));
    }
}

// ------------------------------------------------------------------------------------------------
// per-key driver

struct Inputs {
    paths: Vec<Value>,
    cases_by_comps: HashMap<String, Vec<Value>>,
    codec: Vec<Value>,
    gap: Vec<Value>,
    meet: Vec<Value>,
    all_sigs: BTreeSet<String>,
}

struct Cfg {
    max_line: usize,
    sample_mod: usize,
    idx_per_line: usize,
    gap_mod: usize,
    sections: Option<BTreeSet<String>>,
}
impl Cfg {
    fn on(&self, s: &str) -> bool {
        self.sections.as_ref().map(|x| x.contains(s)).unwrap_or(true)
    }
}

fn pick_indices(v: &[u128], n: usize, rot: usize) -> Vec<u128> {
    if v.is_empty() {
        return vec![];
    }
    if n >= 2 && v.len() >= 2 {
        let mut r = vec![v[0], v[v.len() - 1]];
        if n >= 3 && v.len() >= 3 {
            r.push(v[v.len() / 2]);
        }
        // the fixed boundary indices are always taken when they realise this line
        for special in [0u128, 1, TBOUND - 1, TBOUND, 1u128 << 32, TOP] {
            if v.contains(&special) && !r.contains(&special) {
                r.push(special);
            }
        }
        r
    } else {
        vec![v[rot % v.len()]]
    }
}

fn section_paths(o: &Oracle, usk0: &UnifiedSpendingKey, inp: &Inputs, cfg: &Cfg, key_idx: usize, out: &mut Out,
                 lines: &BTreeMap<String, Vec<u128>>) {
    let mut seen_canon: BTreeSet<String> = BTreeSet::new();
    for (pi, rec) in inp.paths.iter().enumerate() {
        out.count("paths");
        let rot = key_idx + pi;
        let st = match run_path(o, usk0, rec, rot) {
            Err(e) => {
                out.bad(o, "paths", e, json!({"path": rec, "rot": rot}));
                continue;
            }
            Ok(st) => st,
        };
        if !rec["ok"].as_bool().unwrap() {
            out.count("paths_rejecting");
            continue;
        }
        let ep = match (&st, rec["lvl"].as_str().unwrap()) {
            (KS::Fvk(k), "UFVK") => Ep::Fvk(k),
            (KS::Ivk(k), "UIVK") => Ep::Ivk(k),
            _ => {
                out.bad(o, "paths", "harness: path ended at another level than specified".into(), json!({"path": rec}));
                continue;
            }
        };
        let comps = &rec["comps"];
        let mut bad = check_endpoint_material(o, &ep, comps);
        bad.extend(check_endpoint_roundtrip(o, &ep, comps));
        if !bad.is_empty() {
            out.bad(o, "paths", bad[0].clone(), json!({"path": rec, "rot": rot, "all": bad}));
        }
        let ck = comps_key(comps);
        let canon = seen_canon.insert(format!("{}:{}", rec["lvl"].as_str().unwrap(), ck));
        let tag = format!("path#{pi}");
        if let Some(cases) = inp.cases_by_comps.get(&ck) {
            for (ci, case) in cases.iter().enumerate() {
                if !canon && (pi * 31 + ci) % cfg.sample_mod != 0 {
                    continue;
                }
                let sig = case_sig(case);
                let idx = lines.get(&sig).map(|v| pick_indices(v, if canon { cfg.idx_per_line } else { 1 }, pi + ci)).unwrap_or_default();
                for j in idx {
                    check_case(o, &ep, case, j, canon, out, &tag);
                }
            }
        }
    }
}

// ------------------------------------------------------------------------------------------------
// decryption clause: real note encryption to the derived receivers

use orchard::note_encryption::{CompactAction, IronwoodDomain, IronwoodNoteEncryption, OrchardDomain};
use sapling::note_encryption::{
    CompactOutputDescription, PreparedIncomingViewingKey as SaplingPivk, SaplingDomain, Zip212Enforcement,
    sapling_note_encryption, try_sapling_compact_note_decryption,
};
use zcash_note_encryption::{Domain, try_compact_note_decryption};

fn sapling_output(rng: &mut ChaCha20Rng, to: &sapling::PaymentAddress, value: u64) -> CompactOutputDescription {
    let mut rseed = [0u8; 32];
    rng.fill_bytes(&mut rseed);
    let note = sapling::Note::from_parts(*to, sapling::value::NoteValue::from_raw(value), sapling::Rseed::AfterZip212(rseed));
    let ne = sapling_note_encryption(None, note.clone(), [0u8; 512], rng);
    let ct = ne.encrypt_note_plaintext();
    CompactOutputDescription {
        ephemeral_key: SaplingDomain::epk_bytes(ne.epk()),
        cmu: note.cmu(),
        enc_ciphertext: ct[..52].try_into().unwrap(),
    }
}

fn sapling_decrypts(ivk: &SaplingPivk, out: &CompactOutputDescription, to: &sapling::PaymentAddress, value: u64) -> bool {
    match try_sapling_compact_note_decryption(ivk, out, Zip212Enforcement::On) {
        Some((n, a)) => a == *to && n.value().inner() == value,
        None => false,
    }
}

fn random_nullifier(rng: &mut ChaCha20Rng) -> orchard::note::Nullifier {
    loop {
        let mut b = [0u8; 32];
        rng.fill_bytes(&mut b);
        b[31] &= 0x3f;
        if let Some(n) = Option::from(orchard::note::Nullifier::from_bytes(&b)) {
            return n;
        }
    }
}

/// version 2 = Orchard note plaintext, 3 = Ironwood
fn orchard_output(rng: &mut ChaCha20Rng, to: &orchard::Address, value: u64, version: u8) -> CompactAction {
    let nf = random_nullifier(rng);
    if version == 2 {
        return orchard::note_encryption::testing::fake_compact_action(rng, nf, *to, orchard::value::NoteValue::from_raw(value), None).0;
    }
    let rho: orchard::note::Rho = Option::from(orchard::note::Rho::from_bytes(&nf.to_bytes())).expect("rho");
    let note = loop {
        let mut b = [0u8; 32];
        rng.fill_bytes(&mut b);
        let rs: Option<orchard::note::RandomSeed> = Option::from(orchard::note::RandomSeed::from_bytes(b, &rho));
        if let Some(rs) = rs {
            let n: Option<orchard::Note> = Option::from(orchard::Note::from_parts(
                *to,
                orchard::value::NoteValue::from_raw(value),
                rho,
                rs,
                orchard::NoteVersion::V3,
            ));
            if let Some(n) = n {
                break n;
            }
        }
    };
    let e = IronwoodNoteEncryption::new(None, note, [0u8; 512]);
    let cmx = orchard::note::ExtractedNoteCommitment::from(note.commitment());
    let ct = e.encrypt_note_plaintext();
    CompactAction::from_parts(nf, cmx, IronwoodDomain::epk_bytes(e.epk()), ct[..52].try_into().unwrap())
}

fn orchard_decrypts(ivk: &orchard::keys::IncomingViewingKey, act: &CompactAction, to: &orchard::Address, value: u64, version: u8) -> bool {
    let p = orchard::keys::PreparedIncomingViewingKey::new(ivk);
    let r = if version == 2 {
        try_compact_note_decryption(&OrchardDomain::for_compact_action(act), &p, act)
    } else {
        try_compact_note_decryption(&IronwoodDomain::for_compact_action(act), &p, act)
    };
    match r {
        Some((n, a)) => a == *to && n.value().inner() == value,
        None => false,
    }
}

struct ViewKeys {
    name: String,
    ufvk: UnifiedFullViewingKey,
    uivk: UnifiedIncomingViewingKey,
}

fn view_keys(o: &Oracle, usk: &UnifiedSpendingKey, via_strings: bool) -> Result<ViewKeys, String> {
    guarded(|| {
        let f = usk.to_unified_full_viewing_key();
        let i = f.to_unified_incoming_viewing_key();
        if !via_strings {
            return Ok(ViewKeys { name: "derived".into(), ufvk: f, uivk: i });
        }
        with_params!(o.net, p => {
            let f2 = UnifiedFullViewingKey::decode(p, &f.encode(p))?;
            let i2 = UnifiedIncomingViewingKey::decode(p, &i.encode(p))?;
            Ok(ViewKeys { name: "decoded".into(), ufvk: f2, uivk: i2 })
        })
    })
    .map_err(|p| format!("panic deriving viewing keys: {p}"))?
}

fn section_decrypt(o: &Oracle, usk0: &UnifiedSpendingKey, others: &[(String, UnifiedSpendingKey)], out: &mut Out,
                   lines: &BTreeMap<String, Vec<u128>>) {
    let mut rng = ChaCha20Rng::from_seed({
        let mut s = [0u8; 32];
        s.copy_from_slice(&o.seed[..32]);
        s[0] ^= o.account as u8;
        s
    });
    let mut idx: Vec<u128> = vec![];
    if let Some(v) = lines.get("TT|e0") {
        idx.push(v[0]);
    }
    if let Some(v) = lines.get("TF|e0") {
        idx.push(v[v.len() - 1]);
    }
    let shielded = UnifiedAddressRequest::SHIELDED;
    let foreign: Vec<(String, UnifiedIncomingViewingKey, UnifiedFullViewingKey)> = others
        .iter()
        .filter_map(|(n, k)| {
            guarded(|| {
                let f = k.to_unified_full_viewing_key();
                (n.clone(), f.to_unified_incoming_viewing_key(), f)
            })
            .ok()
        })
        .collect();
    for via in [false, true] {
        let vk = match view_keys(o, usk0, via) {
            Ok(v) => v,
            Err(e) => {
                out.bad(o, "decrypt", e, json!({}));
                continue;
            }
        };
        let mut bad: Vec<String> = vec![];
        let r = guarded(|| {
            let mut bad: Vec<String> = vec![];
            let s_dfvk = vk.ufvk.sapling().expect("sapling fvk").clone();
            let o_fvk = vk.ufvk.orchard().expect("orchard fvk").clone();
            let s_ext_u = vk.uivk.sapling().as_ref().expect("sapling ivk").prepare();
            let s_ext_f = SaplingPivk::new(&s_dfvk.to_ivk(Scope::External));
            let s_int_f = SaplingPivk::new(&s_dfvk.to_ivk(Scope::Internal));
            let o_ext_u = vk.uivk.orchard().as_ref().expect("orchard ivk").clone();
            let o_ext_f = o_fvk.to_ivk(orchard::keys::Scope::External);
            let o_int_f = o_fvk.to_ivk(orchard::keys::Scope::Internal);
            let mut n = 0u64;
            for &j in &idx {
                let ua = match vk.uivk.address(di(j), shielded) {
                    Ok(a) => a,
                    Err(e) => {
                        bad.push(format!("address({j}, SHIELDED) failed: {e:?}"));
                        continue;
                    }
                };
                let value = 1000 + (j % 977) as u64;
                if let Some(to) = ua.sapling() {
                    let op = sapling_output(&mut rng, to, value);
                    n += 1;
                    if !sapling_decrypts(&s_ext_u, &op, to, value) {
                        bad.push(format!("sapling note to index {j} does not decrypt under the UIVK's Sapling key"));
                    }
                    if !sapling_decrypts(&s_ext_f, &op, to, value) {
                        bad.push(format!("sapling note to index {j} does not decrypt under the UFVK's external IVK"));
                    }
                    if sapling_decrypts(&s_int_f, &op, to, value) {
                        bad.push(format!("sapling note to external index {j} decrypts under the internal IVK"));
                    }
                    for (name, fi, _) in &foreign {
                        if let Some(k) = fi.sapling().as_ref() {
                            if sapling_decrypts(&k.prepare(), &op, to, value) {
                                bad.push(format!("sapling note decrypts under the unrelated key {name}"));
                            }
                        }
                    }
                } else {
                    bad.push(format!("address({j}, SHIELDED) has no sapling receiver at a sapling-valid index"));
                }
                if let Some(to) = ua.orchard() {
                    for version in [2u8, 3u8] {
                        let act = orchard_output(&mut rng, to, value, version);
                        n += 1;
                        if !orchard_decrypts(&o_ext_u, &act, to, value, version) {
                            bad.push(format!("orchard v{version} note to index {j} does not decrypt under the UIVK's Orchard key"));
                        }
                        if !orchard_decrypts(&o_ext_f, &act, to, value, version) {
                            bad.push(format!("orchard v{version} note to index {j} does not decrypt under the UFVK's external IVK"));
                        }
                        if orchard_decrypts(&o_int_f, &act, to, value, version) {
                            bad.push(format!("orchard v{version} note to external index {j} decrypts under the internal IVK"));
                        }
                        for (name, fi, _) in &foreign {
                            if let Some(k) = fi.orchard().as_ref() {
                                if orchard_decrypts(k, &act, to, value, version) {
                                    bad.push(format!("orchard note decrypts under the unrelated key {name}"));
                                }
                            }
                        }
                    }
                } else {
                    bad.push(format!("address({j}, SHIELDED) has no orchard receiver"));
                }
            }
            // internal (change) receivers belong to the internal IVK and not to the UIVK
            let (_, chg) = s_dfvk.change_address();
            let op = sapling_output(&mut rng, &chg, 77);
            n += 1;
            if !sapling_decrypts(&s_int_f, &op, &chg, 77) {
                bad.push("sapling note to the change address does not decrypt under the internal IVK".into());
            }
            if sapling_decrypts(&s_ext_u, &op, &chg, 77) {
                bad.push("sapling note to the change address decrypts under the UIVK".into());
            }
            let oi = o_fvk.address_at(0u32, orchard::keys::Scope::Internal);
            let act = orchard_output(&mut rng, &oi, 78, 2);
            n += 1;
            if !orchard_decrypts(&o_int_f, &act, &oi, 78, 2) {
                bad.push("orchard note to the internal address does not decrypt under the internal IVK".into());
            }
            if orchard_decrypts(&o_ext_u, &act, &oi, 78, 2) {
                bad.push("orchard note to the internal address decrypts under the UIVK".into());
            }
            (bad, n)
        });
        match r {
            Err(p) => bad.push(format!("panic in decryption clause: {p}")),
            Ok((b, n)) => {
                bad.extend(b);
                *out.counts.entry("notes_encrypted".into()).or_insert(0) += n;
            }
        }
        if !bad.is_empty() {
            out.bad(o, "decrypt", bad[0].clone(), json!({"keys": vk.name, "all": bad}));
        }
    }
}

// ------------------------------------------------------------------------------------------------
// BIP 44 scopes: private-side, public-side and independent derivation agree

fn section_bip44(o: &Oracle, usk0: &UnifiedSpendingKey, out: &mut Out) {
    let r = guarded(|| {
        let mut bad: Vec<String> = vec![];
        let ufvk = usk0.to_unified_full_viewing_key();
        let uivk = ufvk.to_unified_incoming_viewing_key();
        let apriv: &AccountPrivKey = usk0.transparent();
        let apub: AccountPubKey = ufvk.transparent().expect("transparent fvk").clone();
        if apriv.to_bytes() != o.t_xprv74() {
            bad.push("AccountPrivKey::to_bytes differs from the BIP 32 serialization of m/44'/coin'/account'".into());
        }
        match AccountPrivKey::from_bytes(&apriv.to_bytes()) {
            Some(k) if k.to_bytes() == apriv.to_bytes() && k.to_account_pubkey() == apub => {}
            _ => bad.push("AccountPrivKey bytes do not round-trip".into()),
        }
        if apriv.to_account_pubkey().serialize() != chain_pub(&o.t_acct_pub()) {
            bad.push("to_account_pubkey differs from the independent account public key".into());
        }
        match AccountPubKey::deserialize(&apub.serialize().try_into().expect("65 bytes")) {
            Ok(k) if k == apub && k.serialize() == apub.serialize() => {}
            _ => bad.push("AccountPubKey bytes do not round-trip".into()),
        }
        let ext: ExternalIvk = apub.derive_external_ivk().expect("external ivk");
        let int: InternalIvk = apub.derive_internal_ivk().expect("internal ivk");
        let eph = apub.derive_ephemeral_ivk().expect("ephemeral ivk");
        if ext.serialize() != chain_pub(&o.t_change_pub(0)) {
            bad.push("external ivk is not m/44'/coin'/account'/0".into());
        }
        if int.serialize() != chain_pub(&o.t_change_pub(1)) {
            bad.push("internal ivk is not m/44'/coin'/account'/1".into());
        }
        if uivk.transparent().as_ref().map(|k| k.serialize()) != Some(chain_pub(&o.t_change_pub(0))) {
            bad.push("the UIVK's transparent item is not the external ivk".into());
        }
        let ext2 = ExternalIvk::deserialize(&ext.serialize().try_into().expect("65")).expect("ext ivk decode");
        let int2 = InternalIvk::deserialize(&int.serialize().try_into().expect("65")).expect("int ivk decode");
        let acct = AccountId::try_from(o.account).unwrap();
        let mut n = 0u64;
        for index in [0u32, 1, 7, (1u32 << 31) - 1] {
            let i = NonHardenedChildIndex::from_index(index).expect("non-hardened");
            for (change, scope) in [(0u32, TransparentKeyScope::EXTERNAL), (1, TransparentKeyScope::INTERNAL), (2, TransparentKeyScope::EPHEMERAL)] {
                n += 1;
                let (want_addr, want_pk, want_sk) = o.t_addr(change, index);
                let sk = apriv.derive_secret_key(scope, i).expect("secret key");
                if sk != want_sk {
                    bad.push(format!("derive_secret_key(scope {change}, {index}) differs from m/44'/coin'/account'/{change}/{index}"));
                }
                let pk = apub.derive_address_pubkey(scope, i).expect("pubkey");
                if pk != want_pk {
                    bad.push(format!("derive_address_pubkey(scope {change}, {index}) differs from the independent derivation"));
                }
                let h = |x: u32| bip32::ChildNumber::new(x, true).unwrap();
                let nh = |x: u32| bip32::ChildNumber::new(x, false).unwrap();
                let path = [h(44), h(o.net.coin_type()), h(o.account), nh(change), nh(index)];
                let at_path = with_params!(o.net, p => apub.derive_pubkey_at_bip32_path(p, acct, &path));
                if at_path.ok() != Some(want_pk) {
                    bad.push(format!("derive_pubkey_at_bip32_path(.../{change}/{index}) differs from the independent derivation"));
                }
                let wrong = [h(44), h(o.net.coin_type()), h(o.account ^ 1), nh(change), nh(index)];
                if with_params!(o.net, p => apub.derive_pubkey_at_bip32_path(p, acct, &wrong)).is_ok() {
                    bad.push("derive_pubkey_at_bip32_path accepted a path of another account".into());
                }
                let got = match change {
                    0 => vec![ext.derive_address(i).ok(), ext2.derive_address(i).ok(),
                              uivk.transparent().as_ref().and_then(|k| k.derive_address(i).ok())],
                    1 => vec![int.derive_address(i).ok(), int2.derive_address(i).ok()],
                    _ => vec![eph.derive_ephemeral_address(i).ok()],
                };
                if got.iter().any(|a| *a != Some(want_addr)) {
                    bad.push(format!("address of scope {change} index {index} differs from the independent derivation"));
                }
            }
            if apriv.derive_external_secret_key(i).ok() != Some(o.t_addr(0, index).2)
                || apriv.derive_internal_secret_key(i).ok() != Some(o.t_addr(1, index).2)
            {
                bad.push(format!("derive_external/internal_secret_key({index}) is not scope 0/1"));
            }
        }
        (bad, n)
    });
    match r {
        Err(p) => out.bad(o, "bip44", format!("panic: {p}"), json!({})),
        Ok((bad, n)) => {
            *out.counts.entry("bip44_derivations".into()).or_insert(0) += n;
            if !bad.is_empty() {
                out.bad(o, "bip44", bad[0].clone(), json!({"all": bad}));
            }
        }
    }
}

// ------------------------------------------------------------------------------------------------
// string codecs across networks (CODEC table) and the legacy Sapling encodings

struct Raw {
    kind: &'static str,
    net: NetworkType,
    data: Vec<u8>,
}
impl zcash_address::TryFromAddress for Raw {
    type Error = ();
    fn try_from_sapling(net: NetworkType, data: [u8; 43]) -> Result<Self, zcash_address::ConversionError<()>> {
        Ok(Raw { kind: "sapling", net, data: data.to_vec() })
    }
    fn try_from_transparent_p2pkh(net: NetworkType, data: [u8; 20]) -> Result<Self, zcash_address::ConversionError<()>> {
        Ok(Raw { kind: "p2pkh", net, data: data.to_vec() })
    }
    fn try_from_transparent_p2sh(net: NetworkType, data: [u8; 20]) -> Result<Self, zcash_address::ConversionError<()>> {
        Ok(Raw { kind: "p2sh", net, data: data.to_vec() })
    }
}
fn raw_of(s: &str) -> Option<Raw> {
    zcash_address::ZcashAddress::try_from_encoded(s).ok()?.convert::<Raw>().ok()
}

fn section_codec(o: &Oracle, usk0: &UnifiedSpendingKey, inp: &Inputs, out: &mut Out, lines: &BTreeMap<String, Vec<u128>>) {
    let j = lines.get("TT|e0").map(|v| v[0]).unwrap_or(0);
    let r = guarded(|| {
        let mut bad: Vec<String> = vec![];
        let ufvk = usk0.to_unified_full_viewing_key();
        let uivk = ufvk.to_unified_incoming_viewing_key();
        let ua = uivk.address(di(j), UnifiedAddressRequest::ALLOW_ALL).expect("ua");
        let extsk = usk0.sapling().clone();
        if extsk.to_bytes() != o.s_extsk.to_bytes() {
            bad.push("usk.sapling() differs from m_Sapling/32'/coin'/account'".into());
        }
        let extfvk = extsk.to_extended_full_viewing_key();
        let pa = *ua.sapling().expect("sapling receiver");
        let ta = *ua.transparent().expect("transparent receiver");
        let mut sh = [0u8; 20];
        sh.copy_from_slice(&o.seed[..20]);
        let tsh = TransparentAddress::ScriptHash(sh);
        // the {sapling} UFVK built from the legacy extended FVK derives the same Sapling receivers
        match UnifiedFullViewingKey::from_sapling_extended_full_viewing_key(extfvk.clone()) {
            Ok(k) => {
                let a = k.address(di(j), UnifiedAddressRequest::AllAvailableKeys);
                match a {
                    Ok(a) if a.sapling().map(|x| x.to_bytes()) == o.recv_sapling(j) && !a.has_orchard() && !a.has_transparent() => {}
                    _ => bad.push("UFVK from the Sapling extended FVK does not derive the account's Sapling receiver".into()),
                }
            }
            Err(e) => bad.push(format!("from_sapling_extended_full_viewing_key failed: {e:?}")),
        }
        match UnifiedFullViewingKey::from_orchard_fvk(ufvk.orchard().expect("orchard").clone()) {
            Ok(k) => match k.address(di(j), UnifiedAddressRequest::AllAvailableKeys) {
                Ok(a) if a.orchard().map(|x| x.to_raw_address_bytes()) == Some(o.recv_orchard(j)) && !a.has_sapling() && !a.has_transparent() => {}
                _ => bad.push("UFVK from the Orchard FVK does not derive the account's Orchard receiver".into()),
            },
            Err(e) => bad.push(format!("from_orchard_fvk failed: {e:?}")),
        }
        // a unified address with a script-hash receiver keeps it through the string form
        match UnifiedAddress::from_receivers(ua.orchard().cloned(), ua.sapling().cloned(), Some(tsh)) {
            None => bad.push("from_receivers refused shielded + P2SH receivers".into()),
            Some(u2) => {
                let s = with_params!(o.net, p => u2.encode(p));
                let d = with_params!(o.net, p => <UnifiedAddress as AddressCodec<_>>::decode(p, &s));
                let c = unified::Address::decode(&s).ok().map(|(_, c)| c.items());
                let has_p2sh = c.map(|v| v.iter().any(|r| matches!(r, unified::Receiver::P2sh(h) if *h == sh))).unwrap_or(false);
                if d.as_ref().ok() != Some(&u2) || d.map(|x| x.transparent().cloned()) != Ok(Some(tsh)) || !has_p2sh {
                    bad.push("a unified address with a P2SH receiver does not round-trip".into());
                }
            }
        }
        if UnifiedAddress::from_receivers(None, None, Some(ta)).is_some() {
            bad.push("from_receivers built a unified address without a shielded receiver".into());
        }
        let mut n = 0u64;
        for rec in &inp.codec {
            n += 1;
            let kind = rec["kind"].as_str().unwrap();
            let (e, d) = (Net::from_name(rec["enc"].as_str().unwrap()), Net::from_name(rec["dec"].as_str().unwrap()));
            let want = rec["ok"].as_bool().unwrap();
            // every decoder of the kind reports (accepted, value equal)
            let results: Vec<(&str, bool, bool)> = match kind {
                "ufvk" => {
                    let s = with_params!(e, p => ufvk.encode(p));
                    let r = with_params!(d, p => UnifiedFullViewingKey::decode(p, &s));
                    vec![("UnifiedFullViewingKey::decode", r.is_ok(), r.map(|k| with_params!(e, p => k.encode(p)) == s).unwrap_or(false))]
                }
                "uivk" => {
                    let s = with_params!(e, p => uivk.encode(p));
                    let r = with_params!(d, p => UnifiedIncomingViewingKey::decode(p, &s));
                    vec![("UnifiedIncomingViewingKey::decode", r.is_ok(), r.map(|k| with_params!(e, p => k.encode(p)) == s).unwrap_or(false))]
                }
                "ua" => {
                    let s = with_params!(e, p => ua.encode(p));
                    let s2 = with_params!(e, p => <UnifiedAddress as AddressCodec<_>>::encode(&ua, p));
                    if s != s2 {
                        bad.push("UnifiedAddress::encode and AddressCodec::encode differ".into());
                    }
                    let r1 = with_params!(d, p => <UnifiedAddress as AddressCodec<_>>::decode(p, &s));
                    let r2 = with_params!(d, p => Address::decode(p, &s));
                    vec![("AddressCodec<UnifiedAddress>::decode", r1.is_ok(), r1.map(|a| a == ua).unwrap_or(false)),
                         ("Address::decode", r2.is_some(), matches!(r2, Some(Address::Unified(ref a)) if *a == ua))]
                }
                "extsk" => {
                    let s = with_params!(e, p => enc::encode_extended_spending_key(p.hrp_sapling_extended_spending_key(), &extsk));
                    let r = with_params!(d, p => enc::decode_extended_spending_key(p.hrp_sapling_extended_spending_key(), &s));
                    vec![("decode_extended_spending_key", r.is_ok(), r.map(|k| k.to_bytes() == o.s_extsk.to_bytes()).unwrap_or(false))]
                }
                "extfvk" => {
                    let s = with_params!(e, p => enc::encode_extended_full_viewing_key(p.hrp_sapling_extended_full_viewing_key(), &extfvk));
                    let r = with_params!(d, p => enc::decode_extended_full_viewing_key(p.hrp_sapling_extended_full_viewing_key(), &s));
                    let mut w = vec![];
                    extfvk.write(&mut w).expect("write");
                    let eq = |k: &sapling::zip32::ExtendedFullViewingKey| {
                        let mut v = vec![];
                        k.write(&mut v).expect("write");
                        v == w && k.to_diversifiable_full_viewing_key().to_bytes() == o.s_dfvk.to_bytes()
                    };
                    match enc::decode_extfvk_with_network(&s) {
                        Ok((net, k)) if net == e.ty() && eq(&k) => {}
                        _ => bad.push(format!("decode_extfvk_with_network does not return ({:?}, key)", e.ty())),
                    }
                    vec![("decode_extended_full_viewing_key", r.is_ok(), r.map(|k| eq(&k)).unwrap_or(false))]
                }
                "sapling_addr" => {
                    let s = with_params!(e, p => enc::encode_payment_address_p(p, &pa));
                    let s2 = with_params!(e, p => <sapling::PaymentAddress as AddressCodec<_>>::encode(&pa, p));
                    if s != s2 {
                        bad.push("encode_payment_address_p and AddressCodec::encode differ".into());
                    }
                    match raw_of(&s) {
                        Some(r) if r.kind == "sapling" && r.net == e.ty() && r.data == pa.to_bytes().to_vec() => {}
                        _ => bad.push("the Sapling address string does not carry (network, receiver) for an independent decoder".into()),
                    }
                    let r1 = with_params!(d, p => <sapling::PaymentAddress as AddressCodec<_>>::decode(p, &s));
                    let r2 = with_params!(d, p => enc::decode_payment_address(p.hrp_sapling_payment_address(), &s));
                    let r3 = with_params!(d, p => Address::decode(p, &s));
                    vec![("AddressCodec<PaymentAddress>::decode", r1.is_ok(), r1.map(|a| a == pa).unwrap_or(false)),
                         ("decode_payment_address", r2.is_ok(), r2.map(|a| a == pa).unwrap_or(false)),
                         ("Address::decode", r3.is_some(), matches!(r3, Some(Address::Sapling(a)) if a == pa))]
                }
                "taddr" => {
                    let mut v = vec![];
                    for (t, k) in [(ta, "p2pkh"), (tsh, "p2sh")] {
                        let s = with_params!(e, p => enc::encode_transparent_address_p(p, &t));
                        let s2 = with_params!(e, p => <TransparentAddress as AddressCodec<_>>::encode(&t, p));
                        if s != s2 {
                            bad.push("encode_transparent_address_p and AddressCodec::encode differ".into());
                        }
                        let data = match t { TransparentAddress::PublicKeyHash(h) | TransparentAddress::ScriptHash(h) => h.to_vec() };
                        match raw_of(&s) {
                            Some(r) if r.kind == k && r.data == data => {}
                            _ => bad.push(format!("the {k} address string does not carry the hash for an independent decoder")),
                        }
                        let r1 = with_params!(d, p => <TransparentAddress as AddressCodec<_>>::decode(p, &s));
                        let r2 = with_params!(d, p => Address::decode(p, &s));
                        v.push(("AddressCodec<TransparentAddress>::decode", r1.is_ok(), r1.map(|a| a == t).unwrap_or(false)));
                        v.push(("Address::decode", r2.is_some(), matches!(r2, Some(Address::Transparent(a)) if a == t)));
                    }
                    v
                }
                _ => vec![],
            };
            for (name, acc, eq) in results {
                if acc != want || (want && !eq) {
                    bad.push(format!(
                        "{kind} encoded for {} decoded for {}: {name} accepted={acc} same_value={eq}, the specification says accepted={want}",
                        e.name(), d.name()
                    ));
                }
            }
        }
        (bad, n)
    });
    match r {
        Err(p) => out.bad(o, "codec", format!("panic: {p}"), json!({})),
        Ok((bad, n)) => {
            *out.counts.entry("codec_cases".into()).or_insert(0) += n;
            if !bad.is_empty() {
                out.bad(o, "codec", bad[0].clone(), json!({"all": bad}));
            }
        }
    }
}

// ------------------------------------------------------------------------------------------------
// gap-limit address lists per BIP 44 scope (GAP table)

fn section_gap(o: &Oracle, usk0: &UnifiedSpendingKey, inp: &Inputs, cfg: &Cfg, key_idx: usize, out: &mut Out,
               lines: &BTreeMap<String, Vec<u128>>) {
    let j_valid = lines.get("TT|e0").map(|v| v[0]);
    let j_invalid = lines.iter().find(|(k, _)| k.starts_with("FT,")).map(|(_, v)| v[0]).filter(|j| *j + 1 < TBOUND);
    let full = match guarded(|| {
        let f = usk0.to_unified_full_viewing_key();
        let i = f.to_unified_incoming_viewing_key();
        (f, i)
    }) {
        Ok(x) => x,
        Err(p) => {
            out.bad(o, "gap", format!("panic deriving viewing keys: {p}"), json!({}));
            return;
        }
    };
    for (ri, rec) in inp.gap.iter().enumerate() {
        if (ri + key_idx) % cfg.gap_mod != 0 {
            continue;
        }
        let sv = rec["sv"].as_bool().unwrap();
        let j = match if sv { j_valid } else { j_invalid } {
            Some(j) => j as u32,
            None => continue,
        };
        let req = match build_request(&rec["req"], false) {
            Ok(Some(r)) => r,
            _ => continue,
        };
        out.count("gap_cases");
        let (f, i) = (&rec["f"], &rec["i"]);
        let change = rec["change"].as_u64().unwrap() as u32;
        let scope = match rec["scope"].as_str().unwrap() {
            "external" => TransparentKeyScope::EXTERNAL,
            "internal" => TransparentKeyScope::INTERNAL,
            "ephemeral" => TransparentKeyScope::EPHEMERAL,
            _ => TransparentKeyScope::custom(change).expect("custom scope"),
        };
        let require_key = rec["requireKey"].as_bool().unwrap();
        let r = guarded(|| {
            let uivk = UnifiedIncomingViewingKey::new(
                if has(i, "t") { full.1.transparent().clone() } else { None },
                if has(i, "s") { full.1.sapling().clone() } else { None },
                if has(i, "o") { full.1.orchard().clone() } else { None },
            );
            let ufvk = if f.as_array().unwrap().is_empty() && ri % 2 == 0 {
                None
            } else {
                Some(
                    UnifiedFullViewingKey::new(
                        if has(f, "t") { full.0.transparent().cloned() } else { None },
                        if has(f, "s") { full.0.sapling().cloned() } else { None },
                        if has(f, "o") { full.0.orchard().cloned() } else { None },
                    )
                    .expect("ufvk from parts"),
                )
            };
            let range = NonHardenedChildIndex::from_index(j).unwrap()..NonHardenedChildIndex::from_index(j + 1).unwrap();
            generate_address_list(&uivk, ufvk.as_ref(), scope, req, range, require_key).map_err(|e| format!("{e:?}"))
        });
        let allowed = set_of(&rec["allowed"]);
        let mut bad: Vec<String> = vec![];
        let class = match &r {
            Err(p) => {
                bad.push(format!("generate_address_list panicked: {p}"));
                "panic".to_string()
            }
            Ok(Err(_)) => "err".to_string(),
            Ok(Ok(v)) if v.is_empty() => "empty".to_string(),
            Ok(Ok(v)) => {
                if v.len() != 1 || v[0].2.index() != j {
                    bad.push("the list does not consist of the one requested index".into());
                }
                if change <= 2 && v[0].1 != o.t_addr(change, j).0 {
                    bad.push(format!("the transparent address is not m/44'/coin'/account'/{change}/{j}"));
                }
                match &v[0].0 {
                    Address::Transparent(a) => {
                        if *a != v[0].1 {
                            bad.push("bare address differs from the transparent address of the entry".into());
                        }
                        "taddr".to_string()
                    }
                    Address::Unified(ua) => {
                        let want = set_of(&rec["recv"]);
                        if ua_types(ua) != want {
                            bad.push(format!("unified address has receivers {:?}, the specification gives {want:?}", ua_types(ua)));
                        }
                        bad.extend(ua_vs_oracle(o, ua, j as u128));
                        "ua".to_string()
                    }
                    _ => "other".to_string(),
                }
            }
        };
        if !allowed.contains(&class) && class != "panic" {
            bad.insert(0, format!("generate_address_list gave class {class}, the specification allows {allowed:?}"));
        }
        out.distinct.insert(format!("gap:{}:{class}", rec["scope"].as_str().unwrap()));
        if !bad.is_empty() {
            out.bad(o, "gap", bad[0].clone(), json!({"gap": rec, "j": j, "all": bad}));
        }
    }
    // a range of several indices: one entry per index, ascending
    let r = guarded(|| {
        let range = NonHardenedChildIndex::from_index(3).unwrap()..NonHardenedChildIndex::from_index(8).unwrap();
        generate_address_list(&full.1, Some(&full.0), TransparentKeyScope::INTERNAL, UnifiedAddressRequest::ALLOW_ALL, range, true)
            .map(|v| v.iter().map(|e| (e.1, e.2.index())).collect::<Vec<_>>())
            .map_err(|e| format!("{e:?}"))
    });
    let want: Vec<(TransparentAddress, u32)> = (3u32..8).map(|i| (o.t_addr(1, i).0, i)).collect();
    if r != Ok(Ok(want)) {
        out.bad(o, "gap", "internal-scope list over indices 3..8 is not the five addresses m/.../1/3..7 in order".into(), json!({}));
    }
}

// ------------------------------------------------------------------------------------------------
// combining requests (MEET table); independent of any key

fn lvl_name(r: ReceiverRequirement) -> &'static str {
    match r {
        ReceiverRequirement::Require => "Require",
        ReceiverRequirement::Allow => "Allow",
        ReceiverRequirement::Omit => "Omit",
    }
}

fn section_meet(o: &Oracle, inp: &Inputs, out: &mut Out) {
    for rec in &inp.meet {
        out.count("meet_cases");
        let mk = |r: &Value| ReceiverRequirements::new(lvl(r["o"].as_str().unwrap()), lvl(r["s"].as_str().unwrap()), lvl(r["t"].as_str().unwrap()));
        let (a, b) = match (mk(&rec["a"]), mk(&rec["b"])) {
            (Ok(a), Ok(b)) => (a, b),
            _ => {
                out.bad(o, "meet", "a constructible request was refused".into(), json!({"meet": rec}));
                continue;
            }
        };
        let want = &rec["res"];
        let got = guarded(|| a.intersect(&b));
        let levels = guarded(|| {
            [a.orchard().intersect(b.orchard()).ok(), a.sapling().intersect(b.sapling()).ok(), a.p2pkh().intersect(b.p2pkh()).ok()]
        });
        let bad = match got {
            Err(p) => Some(format!("intersect panicked: {p}")),
            Ok(Ok(r)) => {
                if want["k"] != "ok" {
                    Some(format!("intersect succeeded, the specification gives {}", want["k"]))
                } else if [lvl_name(r.orchard()), lvl_name(r.sapling()), lvl_name(r.p2pkh())]
                    != [want["o"].as_str().unwrap(), want["s"].as_str().unwrap(), want["t"].as_str().unwrap()]
                {
                    Some(format!(
                        "intersect gave ({}, {}, {}), the specification gives {}",
                        lvl_name(r.orchard()), lvl_name(r.sapling()), lvl_name(r.p2pkh()), want
                    ))
                } else {
                    None
                }
            }
            Ok(Err(e)) => {
                if want["k"] == "ok" { Some(format!("intersect failed ({e:?}), the specification gives {want}")) } else { None }
            }
        };
        let bad = bad.or_else(|| match levels {
            Err(p) => Some(format!("ReceiverRequirement::intersect panicked: {p}")),
            Ok(l) => {
                let conflict = l.iter().any(|x| x.is_none());
                if conflict != (want["k"] == "conflict") {
                    Some("ReceiverRequirement::intersect conflicts differ from the specification".into())
                } else {
                    None
                }
            }
        });
        if let Some(b) = bad {
            out.bad(o, "meet", b, json!({"meet": rec}));
        }
    }
}

// ------------------------------------------------------------------------------------------------

#[derive(Clone)]
struct KeySpec {
    seed: Vec<u8>,
    account: u32,
    net: Net,
}

fn run_key(ks: &KeySpec, key_idx: usize, inp: &Inputs, cfg: &Cfg) -> (Out, BTreeSet<String>) {
    let mut out = Out::new();
    let o = Oracle::new(&ks.seed, ks.account, ks.net);
    let lines = materialise_lines(&o, cfg.max_line);
    let covered: BTreeSet<String> = lines.keys().cloned().collect();
    let from_seed = |seed: &[u8], account: u32| {
        guarded(|| with_params!(ks.net, p => UnifiedSpendingKey::from_seed(p, seed, AccountId::try_from(account).unwrap())))
    };
    let usk0 = match from_seed(&ks.seed, ks.account) {
        Ok(Ok(k)) => k,
        other => {
            out.bad(&o, "paths", format!("from_seed failed: {:?}", other.map(|r| r.map(|_| ()))), json!({}));
            return (out, covered);
        }
    };
    out.count("keys");
    if cfg.on("paths") {
        section_paths(&o, &usk0, inp, cfg, key_idx, &mut out, &lines);
    }
    if cfg.on("decrypt") {
        let mut others = vec![];
        if let Ok(Ok(k)) = from_seed(&ks.seed, ks.account ^ 1) {
            others.push(("same seed, other account".to_string(), k));
        }
        let mut s2 = ks.seed.clone();
        s2[0] ^= 0x55;
        if let Ok(Ok(k)) = from_seed(&s2, ks.account) {
            others.push(("other seed".to_string(), k));
        }
        section_decrypt(&o, &usk0, &others, &mut out, &lines);
    }
    if cfg.on("bip44") {
        section_bip44(&o, &usk0, &mut out);
    }
    if cfg.on("meet") && key_idx == 0 {
        section_meet(&o, inp, &mut out);
    }
    if cfg.on("codec") {
        section_codec(&o, &usk0, inp, &mut out, &lines);
    }
    if cfg.on("gap") {
        section_gap(&o, &usk0, inp, cfg, key_idx, &mut out, &lines);
    }
    (out, covered)
}

fn pattern_keys(seed: &[u8], wanted: &BTreeSet<String>, have: &mut BTreeSet<String>, max_line: usize) -> Vec<KeySpec> {
    let mut res = vec![];
    let cands: Vec<u128> = ((TBOUND - 5)..(TBOUND + 2)).chain((TOP - 4)..=TOP).collect();
    for account in 2u32..1500 {
        if wanted.is_subset(have) {
            break;
        }
        let net = NETS[(account % 3) as usize];
        let dk = dk_of(&sapling_account_key(seed, net.coin_type(), account).to_diversifiable_full_viewing_key());
        // a throw-away oracle would be slow; only the Sapling diversifier key decides the signature
        let sig = |j: u128| -> Option<String> {
            let mut parts = vec![];
            let mut k = j;
            loop {
                let sv = dk.diversifier(di(k)).is_some();
                parts.push(format!("{}{}", if sv { 'T' } else { 'F' }, if k < TBOUND { 'T' } else { 'F' }));
                if sv {
                    return Some(format!("{}|e0", parts.join(",")));
                }
                if k == TOP {
                    return Some(format!("{}|e1", parts.join(",")));
                }
                if parts.len() >= max_line {
                    return None;
                }
                k += 1;
            }
        };
        let mut useful = false;
        for &j in &cands {
            if let Some(s) = sig(j) {
                if wanted.contains(&s) && !have.contains(&s) {
                    have.insert(s);
                    useful = true;
                }
            }
        }
        if useful {
            res.push(KeySpec { seed: seed.to_vec(), account, net });
        }
    }
    res
}

fn main() {
    quiet_panics();
    let args: Vec<String> = std::env::args().collect();
    let paths = read_ndjson(&args[1]);
    let cases = read_ndjson(&args[2]);
    let tables = read_ndjson(&args[3]);
    let cfgv: Value = serde_json::from_str(&std::fs::read_to_string(&args[4]).expect("config")).expect("config json");
    let mut cases_by_comps: HashMap<String, Vec<Value>> = HashMap::new();
    let mut all_sigs = BTreeSet::new();
    for c in &cases {
        all_sigs.insert(case_sig(c));
        cases_by_comps.entry(comps_key(&c["comps"])).or_default().push(c.clone());
    }
    let inp = Inputs {
        paths,
        cases_by_comps,
        codec: tables.iter().filter(|t| t["table"] == "CODEC").cloned().collect(),
        gap: tables.iter().filter(|t| t["table"] == "GAP").cloned().collect(),
        meet: tables.iter().filter(|t| t["table"] == "MEET").cloned().collect(),
        all_sigs,
    };
    let cfg = Cfg {
        max_line: cfgv["max_line"].as_u64().unwrap_or(3) as usize,
        sample_mod: cfgv["sample_mod"].as_u64().unwrap_or(12) as usize,
        idx_per_line: cfgv["idx_per_line"].as_u64().unwrap_or(2) as usize,
        gap_mod: cfgv["gap_mod"].as_u64().unwrap_or(8) as usize,
        sections: cfgv["sections"].as_array().map(|a| a.iter().map(|s| s.as_str().unwrap().to_string()).collect()),
    };
    let threads = cfgv["threads"].as_u64().unwrap_or(8) as usize;
    let mut keys: Vec<KeySpec> = vec![];
    let only = !cfgv["only_keys"].is_null();
    if only {
        for k in cfgv["only_keys"].as_array().unwrap() {
            keys.push(KeySpec {
                seed: hex::decode(k["seed_hex"].as_str().unwrap()).expect("seed hex"),
                account: k["account"].as_u64().unwrap() as u32,
                net: Net::from_name(k["net"].as_str().unwrap()),
            });
        }
    } else {
        let mut rng = ChaCha20Rng::seed_from_u64(cfgv["seed"].as_u64().unwrap_or(1));
        let n_seeds = cfgv["n_seeds"].as_u64().unwrap_or(2) as usize;
        let mut seeds = vec![];
        for i in 0..n_seeds {
            let mut s = vec![0u8; if i % 2 == 0 { 32 } else { 64 }];
            rng.fill_bytes(&mut s);
            seeds.push(s);
        }
        for s in &seeds {
            for account in [0u32, 1, 0x7fff_ffff] {
                for net in NETS {
                    keys.push(KeySpec { seed: s.clone(), account, net });
                }
            }
        }
        // accounts whose Sapling diversifier pattern realises the rare lines (2^31 boundary, top of the space)
        let mut have = BTreeSet::new();
        for k in &keys {
            have.extend(materialise_lines(&Oracle::new(&k.seed, k.account, k.net), cfg.max_line).into_keys());
        }
        keys.extend(pattern_keys(&seeds[0], &inp.all_sigs, &mut have, cfg.max_line));
    }
    let chunks: Vec<Vec<(usize, KeySpec)>> = {
        let mut c: Vec<Vec<(usize, KeySpec)>> = (0..threads.max(1)).map(|_| vec![]).collect();
        for (i, k) in keys.iter().enumerate() {
            c[i % threads.max(1)].push((i, k.clone()));
        }
        c
    };
    let results: Vec<(Out, BTreeSet<String>)> = std::thread::scope(|s| {
        let hs: Vec<_> = chunks
            .iter()
            .map(|ch| {
                let inp = &inp;
                let cfg = &cfg;
                s.spawn(move || ch.iter().map(|(i, k)| run_key(k, *i, inp, cfg)).collect::<Vec<_>>())
            })
            .collect();
        hs.into_iter().flat_map(|h| h.join().expect("worker thread (harness bug)")).collect()
    });
    let mut mism = vec![];
    let mut counts: BTreeMap<String, u64> = BTreeMap::new();
    let mut distinct = BTreeSet::new();
    let mut covered = BTreeSet::new();
    let mut line_keys: BTreeMap<String, u64> = BTreeMap::new();
    for (o, c) in results {
        for s in &c {
            *line_keys.entry(s.clone()).or_insert(0) += 1;
        }
        mism.extend(o.mism);
        for (k, v) in o.counts {
            *counts.entry(k).or_insert(0) += v;
        }
        distinct.extend(o.distinct);
        covered.extend(c);
    }
    let missing: Vec<&String> = inp.all_sigs.iter().filter(|s| !covered.contains(*s)).collect();
    mism.truncate(30);
    println!(
        "{}",
        json!({"keys": keys.len(), "counts": counts, "mismatches": mism, "distinct_results": distinct.len(), "line_keys": line_keys,
               "missing_lines": if only { vec![] } else { missing },
               "key_list": keys.iter().map(|k| json!({"seed_hex": hex::encode(&k.seed), "account": k.account, "net": k.net.name()})).collect::<Vec<_>>()})
    );
}
