//! Reusable generator of real, well-formed transactions of a requested shape (C03, C04).
//!
//! A [`Shape`] fixes the transaction version, the consensus branch and the number of elements of
//! every bundle. [`TxGen`] materialises a shape as a real `TransactionData<Authorized>` /
//! `Transaction` whose components are drawn from the crates' own seeded proptest strategies
//! (`zcash_transparent::bundle::testing`, `sapling::bundle::testing`,
//! `orchard::bundle::testing`, `zcash_protocol::value::testing`) and then made *well-formed for
//! the version*:
//!
//! * V5 / V6 Sapling bundles carry one anchor for all spends (the generator of the Sapling crate
//!   gives every spend its own anchor, which only the V4 wire format can represent);
//! * an Orchard-protocol bundle has the `BundleVersion` of its (branch, pool) -- historical
//!   Orchard for NU5..NU6.1, `orchard_v2` for NU6.2, `orchard_v3` / `ironwood_v3` from NU6.3 --,
//!   flags representable under that version and a proof of the canonical length (unless the
//!   shape asks for another length and the bundle version does not enforce it);
//! * bundles absent from the version's format are absent.
//!
//! [`TxParts`] is the same transaction as plain owned parts: every field can be replaced and the
//! transaction rebuilt through the public `from_parts` constructors ([`TxParts::build`]).
//! Nothing in this module serialises or parses transactions.

use orchard::{
    Action, Anchor as OrchardAnchor, NoteVersion, ValuePool,
    bundle::{Authorized as OrchardAuthorized, BundleVersion, Flags},
    primitives::redpallas::{self, Binding as OrchardBinding, SpendAuth as OrchardSpendAuth},
    value::NoteValue,
};
use proptest::{
    strategy::{Strategy, ValueTree},
    test_runner::{Config, RngAlgorithm, TestRng, TestRunner},
};
use sapling::bundle::{GrothProofBytes, OutputDescription, SpendDescription};
use zcash_primitives::transaction::{
    Authorized, Transaction, TransactionData, TxVersion,
    components::{GROTH_PROOF_SIZE, sprout},
};
use zcash_protocol::{
    consensus::{BlockHeight, BranchId},
    value::{MAX_MONEY, ZatBalance, Zatoshis},
};
use zcash_transparent::{
    address::Script,
    bundle::{self as transparent, OutPoint, TxIn, TxOut},
};

pub type SaplingSpend = SpendDescription<sapling::bundle::Authorized>;
pub type SaplingOutput = OutputDescription<GrothProofBytes>;
pub type OrchardAction = Action<redpallas::Signature<OrchardSpendAuth>>;

pub const ALL_BRANCHES: [BranchId; 11] = [
    BranchId::Sprout,
    BranchId::Overwinter,
    BranchId::Sapling,
    BranchId::Blossom,
    BranchId::Heartwood,
    BranchId::Canopy,
    BranchId::Nu5,
    BranchId::Nu6,
    BranchId::Nu6_1,
    BranchId::Nu6_2,
    BranchId::Nu6_3,
];

pub fn branch_name(b: BranchId) -> &'static str {
    match b {
        BranchId::Sprout => "Sprout",
        BranchId::Overwinter => "Overwinter",
        BranchId::Sapling => "Sapling",
        BranchId::Blossom => "Blossom",
        BranchId::Heartwood => "Heartwood",
        BranchId::Canopy => "Canopy",
        BranchId::Nu5 => "Nu5",
        BranchId::Nu6 => "Nu6",
        BranchId::Nu6_1 => "Nu6_1",
        BranchId::Nu6_2 => "Nu6_2",
        BranchId::Nu6_3 => "Nu6_3",
        #[allow(unreachable_patterns)]
        _ => "other",
    }
}

pub fn branch_from_name(s: &str) -> Option<BranchId> {
    ALL_BRANCHES.iter().copied().find(|b| branch_name(*b) == s)
}

/// "sprout1", "sprout2", "sprout<n>", "v3", "v4", "v5", "v6".
pub fn version_name(v: TxVersion) -> String {
    match v {
        TxVersion::Sprout(n) => format!("sprout{n}"),
        TxVersion::V3 => "v3".into(),
        TxVersion::V4 => "v4".into(),
        TxVersion::V5 => "v5".into(),
        TxVersion::V6 => "v6".into(),
    }
}

pub fn version_from_name(s: &str) -> Option<TxVersion> {
    match s {
        "v3" => Some(TxVersion::V3),
        "v4" => Some(TxVersion::V4),
        "v5" => Some(TxVersion::V5),
        "v6" => Some(TxVersion::V6),
        _ => s.strip_prefix("sprout").and_then(|n| n.parse::<u32>().ok()).filter(|n| *n >= 1 && *n <= 0x7fff_ffff).map(TxVersion::Sprout),
    }
}

/// The `BundleVersion` an Orchard-protocol bundle of `pool` has under `branch` (None: the pool does
/// not exist under that branch). Written from the rustdoc of `BundleVersion`, independently of
/// `zcash_primitives::transaction::components::orchard::bundle_version_for_branch`.
pub fn orchard_bundle_version(branch: BranchId, pool: ValuePool) -> Option<BundleVersion> {
    match (pool, branch) {
        (ValuePool::Orchard, BranchId::Nu5 | BranchId::Nu6 | BranchId::Nu6_1) => Some(BundleVersion::orchard_insecure_v1()),
        (ValuePool::Orchard, BranchId::Nu6_2) => Some(BundleVersion::orchard_v2()),
        (ValuePool::Orchard, BranchId::Nu6_3) => Some(BundleVersion::orchard_v3()),
        (ValuePool::Ironwood, BranchId::Nu6_3) => Some(BundleVersion::ironwood_v3()),
        _ => None,
    }
}

pub fn bundle_version_name(v: BundleVersion) -> &'static str {
    if v == BundleVersion::orchard_insecure_v1() {
        "orchard_insecure_v1"
    } else if v == BundleVersion::orchard_v2() {
        "orchard_v2"
    } else if v == BundleVersion::orchard_v3() {
        "orchard_v3"
    } else if v == BundleVersion::ironwood_v3() {
        "ironwood_v3"
    } else {
        "other"
    }
}

/// Which components a version's wire format has (protocol specification 7.1 / ZIP 225 / the pinned
/// tree's v6), written here independently of `TxVersion::has_*` (code under test for C03).
pub fn format_has_overwinter(v: TxVersion) -> bool {
    !matches!(v, TxVersion::Sprout(_))
}
pub fn format_has_sprout(v: TxVersion) -> bool {
    match v {
        TxVersion::Sprout(n) => n >= 2,
        TxVersion::V3 | TxVersion::V4 => true,
        TxVersion::V5 | TxVersion::V6 => false,
    }
}
pub fn format_has_sapling(v: TxVersion) -> bool {
    matches!(v, TxVersion::V4 | TxVersion::V5 | TxVersion::V6)
}
pub fn format_has_orchard(v: TxVersion) -> bool {
    matches!(v, TxVersion::V5 | TxVersion::V6)
}
pub fn format_has_ironwood(v: TxVersion) -> bool {
    matches!(v, TxVersion::V6)
}

/// Canonical Orchard proof length for `n` actions (ZIP 225: 2720 + 2272 n).
pub fn canonical_orchard_proof_len(n: usize) -> usize {
    2720 + 2272 * n
}

/// What a transaction looks like on the wire, up to the contents of the fields.
#[derive(Clone, Debug, PartialEq)]
pub struct Shape {
    pub version: TxVersion,
    pub branch: BranchId,
    pub n_vin: usize,
    pub n_vout: usize,
    pub n_joinsplits: usize,
    pub n_spends: usize,
    pub n_outputs: usize,
    pub n_orchard: usize,
    pub n_ironwood: usize,
    /// Lengths forced on the scriptSigs, one per input (None: as generated, 1..=255 bytes).
    pub script_sig_lens: Option<Vec<usize>>,
    /// Lengths forced on the scriptPubKeys, one per output.
    pub script_pubkey_lens: Option<Vec<usize>>,
    /// Orchard proof length (None: canonical). A non-canonical length is only constructible for
    /// the historical Orchard bundle version (NU5..NU6.1).
    pub orchard_proof_len: Option<usize>,
}

impl Shape {
    pub fn new(version: TxVersion, branch: BranchId) -> Self {
        Shape {
            version,
            branch,
            n_vin: 0,
            n_vout: 0,
            n_joinsplits: 0,
            n_spends: 0,
            n_outputs: 0,
            n_orchard: 0,
            n_ironwood: 0,
            script_sig_lens: None,
            script_pubkey_lens: None,
            orchard_proof_len: None,
        }
    }
}

#[derive(Clone, Debug)]
pub struct SaplingParts {
    pub spends: Vec<SaplingSpend>,
    pub outputs: Vec<SaplingOutput>,
    pub value_balance: ZatBalance,
    /// holds the binding signature (`authorization.binding_sig`)
    pub authorization: sapling::bundle::Authorized,
}

#[derive(Clone, Debug)]
pub struct OrchardParts {
    pub actions: Vec<OrchardAction>,
    pub flags: Flags,
    pub value_balance: ZatBalance,
    pub anchor: OrchardAnchor,
    pub proof: Vec<u8>,
    pub binding_sig: redpallas::Signature<OrchardBinding>,
    pub bundle_version: BundleVersion,
}

/// A transaction as plain parts. `build` goes through the public constructors only.
#[derive(Clone, Debug)]
pub struct TxParts {
    pub version: TxVersion,
    pub branch: BranchId,
    pub lock_time: u32,
    pub expiry_height: u32,
    pub vin: Vec<TxIn<transparent::Authorized>>,
    pub vout: Vec<TxOut>,
    pub sprout: Option<sprout::Bundle>,
    pub sapling: Option<SaplingParts>,
    pub orchard: Option<OrchardParts>,
    pub ironwood: Option<OrchardParts>,
}

fn orchard_bundle(p: &OrchardParts) -> Result<orchard::Bundle<OrchardAuthorized, ZatBalance>, String> {
    let actions = nonempty::NonEmpty::from_vec(p.actions.clone()).ok_or("an Orchard bundle needs at least one action")?;
    orchard::Bundle::try_from_parts(
        actions,
        p.flags,
        p.value_balance,
        p.anchor,
        OrchardAuthorized::from_parts(orchard::Proof::new(p.proof.clone()), p.binding_sig.clone()),
        p.bundle_version,
    )
    .map_err(|e| format!("orchard::Bundle::try_from_parts: {e}"))
}

fn orchard_parts(b: &orchard::Bundle<OrchardAuthorized, ZatBalance>) -> OrchardParts {
    OrchardParts {
        actions: b.actions().iter().cloned().collect(),
        flags: *b.flags(),
        value_balance: *b.value_balance(),
        anchor: *b.anchor(),
        proof: b.authorization().proof().as_ref().to_vec(),
        binding_sig: b.authorization().binding_signature().clone(),
        bundle_version: b.bundle_version(),
    }
}

impl TxParts {
    pub fn from_txdata(d: &TransactionData<Authorized>) -> Self {
        TxParts {
            version: d.version(),
            branch: d.consensus_branch_id(),
            lock_time: d.lock_time(),
            expiry_height: u32::from(d.expiry_height()),
            vin: d.transparent_bundle().map(|b| b.vin.clone()).unwrap_or_default(),
            vout: d.transparent_bundle().map(|b| b.vout.clone()).unwrap_or_default(),
            sprout: d.sprout_bundle().cloned(),
            sapling: d.sapling_bundle().map(|b| SaplingParts {
                spends: b.shielded_spends().to_vec(),
                outputs: b.shielded_outputs().to_vec(),
                value_balance: *b.value_balance(),
                authorization: *b.authorization(),
            }),
            orchard: d.orchard_bundle().map(orchard_parts),
            ironwood: d.ironwood_bundle().map(orchard_parts),
        }
    }

    /// Rebuilds the transaction through `transparent::Bundle { .. }`, `sapling::Bundle::from_parts`,
    /// `orchard::Bundle::try_from_parts` and `TransactionData::from_parts` / `from_parts_v6`.
    /// Empty bundles become `None` (as `sapling::Bundle::from_parts` does itself).
    pub fn build(&self) -> Result<TransactionData<Authorized>, String> {
        let transparent_bundle = if self.vin.is_empty() && self.vout.is_empty() {
            None
        } else {
            Some(transparent::Bundle { vin: self.vin.clone(), vout: self.vout.clone(), authorization: transparent::Authorized })
        };
        let sapling_bundle = match &self.sapling {
            None => None,
            Some(p) => sapling::Bundle::from_parts(
                p.spends.clone(),
                p.outputs.clone(),
                p.value_balance,
                p.authorization,
            ),
        };
        let orchard_b = self.orchard.as_ref().map(orchard_bundle).transpose()?;
        let ironwood_b = self.ironwood.as_ref().map(orchard_bundle).transpose()?;
        let sprout_b = self.sprout.clone().filter(|b| !b.joinsplits.is_empty());
        Ok(match self.version {
            TxVersion::V6 => {
                if sprout_b.is_some() {
                    return Err("a v6 transaction cannot be constructed with a Sprout bundle".into());
                }
                TransactionData::from_parts_v6(
                    self.branch,
                    self.lock_time,
                    BlockHeight::from_u32(self.expiry_height),
                    transparent_bundle,
                    sapling_bundle,
                    orchard_b,
                    ironwood_b,
                )
            }
            v => {
                if ironwood_b.is_some() {
                    return Err("only a v6 transaction can be constructed with an Ironwood bundle".into());
                }
                TransactionData::from_parts(
                    v,
                    self.branch,
                    self.lock_time,
                    BlockHeight::from_u32(self.expiry_height),
                    transparent_bundle,
                    sprout_b,
                    sapling_bundle,
                    orchard_b,
                )
            }
        })
    }

    pub fn freeze(&self) -> Result<Transaction, String> {
        self.build()?.freeze().map_err(|e| format!("freeze: {e}"))
    }

    /// Gives every Sapling spend the anchor of the first one (what V5+ can represent).
    pub fn unify_sapling_anchor(&mut self) {
        if let Some(s) = self.sapling.as_mut() {
            if let Some(first) = s.spends.first().cloned() {
                s.spends = s.spends.iter().map(|sp| spend_with_anchor_of(sp, &first)).collect();
            }
        }
    }
}

/// `sp` with the anchor of `donor` (the scalar type is never named: no direct dependency on bls12_381).
pub fn spend_with_anchor_of(sp: &SaplingSpend, donor: &SaplingSpend) -> SaplingSpend {
    SpendDescription::from_parts(sp.cv().clone(), *donor.anchor(), *sp.nullifier(), *sp.rk(), *sp.zkproof(), *sp.spend_auth_sig())
}

/// `sp` with the anchor encoded by `bytes` (None: not a canonical field element).
pub fn spend_with_anchor_bytes(sp: &SaplingSpend, bytes: [u8; 32]) -> Option<SaplingSpend> {
    let a = zcash_primitives::transaction::components::sapling::read_base(&bytes[..], "anchor").ok()?;
    Some(SpendDescription::from_parts(sp.cv().clone(), a, *sp.nullifier(), *sp.rk(), *sp.zkproof(), *sp.spend_auth_sig()))
}

/// A Sapling authorization with the given binding signature bytes.
pub fn sapling_authorized_from_bytes(sig: [u8; 64]) -> sapling::bundle::Authorized {
    sapling::bundle::Authorized { binding_sig: sig.into() }
}

pub fn sapling_binding_sig_bytes(a: &sapling::bundle::Authorized) -> [u8; 64] {
    <[u8; 64]>::from(a.binding_sig)
}

pub fn sapling_anchor_bytes(sp: &SaplingSpend) -> [u8; 32] {
    sapling::Anchor::from(*sp.anchor()).to_bytes()
}

// ------------------------------------------------------------------------------------------------
// the generator

/// Number of distinct pooled elements of each kind; larger requests cycle through the pool.
pub const POOL: usize = 40;

/// Deterministic generator: the pools are drawn once from the crates' proptest strategies with an
/// RNG seeded by `seed`; `parts_with(shape, salt)` is then a pure function of (seed, shape, salt),
/// so a single case can be reproduced without replaying the cases before it.
pub struct TxGen {
    runner: TestRunner,
    txins: Vec<TxIn<transparent::Authorized>>,
    txouts: Vec<TxOut>,
    spends: Vec<SaplingSpend>,
    outputs: Vec<SaplingOutput>,
    sapling_auths: Vec<sapling::bundle::Authorized>,
    actions: Vec<OrchardAction>,    // note version 2 (Orchard pool)
    iw_actions: Vec<OrchardAction>, // note version 3 (Ironwood pool)
    orchard_misc: Vec<(OrchardAnchor, redpallas::Signature<OrchardBinding>)>,
    balances: Vec<ZatBalance>,
    words: Vec<u32>,
    counter: u64,
}

/// splitmix64
fn mix(mut z: u64) -> u64 {
    z = z.wrapping_add(0x9E37_79B9_7F4A_7C15);
    z = (z ^ (z >> 30)).wrapping_mul(0xBF58_476D_1CE4_E5B9);
    z = (z ^ (z >> 27)).wrapping_mul(0x94D0_49BB_1331_11EB);
    z ^ (z >> 31)
}

struct Salt(u64);
impl Salt {
    fn next(&mut self) -> u64 {
        self.0 = mix(self.0);
        self.0
    }
    fn below(&mut self, n: usize) -> usize {
        (self.next() % n as u64) as usize
    }
    fn bytes(&mut self, n: usize) -> Vec<u8> {
        let mut v = Vec::with_capacity(n + 8);
        while v.len() < n {
            v.extend_from_slice(&self.next().to_le_bytes());
        }
        v.truncate(n);
        v
    }
}

impl TxGen {
    pub fn new(seed: u64) -> Self {
        use orchard::bundle::testing::{arb_action, arb_bundle};
        use zcash_transparent::bundle::testing::{arb_txin, arb_txout};
        let mut s = [0u8; 32];
        s[..8].copy_from_slice(&seed.to_le_bytes());
        s[8..16].copy_from_slice(b"verifC03");
        let mut g = TxGen {
            runner: TestRunner::new_with_rng(Config::default(), TestRng::from_seed(RngAlgorithm::ChaCha, &s)),
            txins: vec![],
            txouts: vec![],
            spends: vec![],
            outputs: vec![],
            sapling_auths: vec![],
            actions: vec![],
            iw_actions: vec![],
            orchard_misc: vec![],
            balances: vec![],
            words: vec![],
            counter: mix(seed),
        };
        for _ in 0..POOL {
            let v = g.sample(arb_txin());
            g.txins.push(v);
            let v = g.sample(arb_txout());
            g.txouts.push(v);
            let v = g.sample(zcash_protocol::value::testing::arb_zat_balance());
            g.balances.push(v);
            let v = g.sample(proptest::prelude::any::<u32>());
            g.words.push(v);
        }
        while g.spends.len() < POOL || g.outputs.len() < POOL || g.sapling_auths.len() < 8 {
            if let Some(b) = g.sample(sapling::bundle::testing::arb_bundle(ZatBalance::zero())) {
                g.spends.extend(b.shielded_spends().iter().cloned());
                g.outputs.extend(b.shielded_outputs().iter().cloned());
                g.sapling_auths.push(*b.authorization());
            }
        }
        g.spends.truncate(POOL);
        g.outputs.truncate(POOL);
        for k in 0..POOL as u64 {
            let (sv, ov) = (NoteValue::from_raw(1 + (k * 7919) % 100_000), NoteValue::from_raw((k * 104_729) % 100_000));
            let a = g.sample(arb_action(NoteVersion::V2, sv, ov));
            g.actions.push(a);
            let a = g.sample(arb_action(NoteVersion::V3, ov, sv));
            g.iw_actions.push(a);
        }
        for _ in 0..8 {
            let b = g.sample(arb_bundle(1));
            g.orchard_misc.push((*b.anchor(), b.authorization().binding_signature().clone()));
        }
        g
    }

    /// One value of a proptest strategy, drawn with this generator's seeded RNG (order dependent).
    pub fn sample<S: Strategy>(&mut self, s: S) -> S::Value {
        s.new_tree(&mut self.runner).expect("strategy produces a value").current()
    }

    fn amount(&self, r: &mut Salt) -> ZatBalance {
        // boundary values a quarter of the time, otherwise a value of the crate's strategy
        let m = MAX_MONEY as i64;
        match r.below(8) {
            0 => ZatBalance::from_i64(m).unwrap(),
            1 => ZatBalance::from_i64(-m).unwrap(),
            _ => self.balances[r.below(self.balances.len())],
        }
    }

    fn word(&self, r: &mut Salt) -> u32 {
        match r.below(4) {
            0 => 0,
            1 => u32::MAX,
            _ => self.words[r.below(self.words.len())],
        }
    }

    fn script(r: &mut Salt, len: usize) -> Script {
        let k = r.next() as usize;
        Script(zcash_script::script::Code((0..len).map(|i| zcash_transparent::bundle::testing::VALID_OPCODES[(i * 31 + k + i / 8) % 8]).collect()))
    }

    fn orchard_parts(&self, r: &mut Salt, n: usize, pool: ValuePool, branch: BranchId, proof_len: Option<usize>) -> Result<OrchardParts, String> {
        let bv = orchard_bundle_version(branch, pool).ok_or_else(|| format!("shape: no {:?} pool under branch {}", pool, branch_name(branch)))?;
        let ironwood = pool == ValuePool::Ironwood;
        let src = if ironwood { &self.iw_actions } else { &self.actions };
        let k = r.below(src.len());
        let actions: Vec<OrchardAction> = (0..n).map(|i| src[(i + k) % src.len()].clone()).collect();
        let (anchor, binding_sig) = self.orchard_misc[r.below(self.orchard_misc.len())].clone();
        let mut byte = r.below(4) as u8;
        if ironwood && r.below(3) != 0 {
            byte |= 0b100;
        }
        let flags = Flags::from_byte(byte, bv).ok_or("shape: flag byte not representable")?;
        let plen = proof_len.unwrap_or_else(|| canonical_orchard_proof_len(n));
        Ok(OrchardParts { actions, flags, value_balance: self.amount(r), anchor, proof: r.bytes(plen), binding_sig, bundle_version: bv })
    }

    fn joinsplit(r: &mut Salt, use_groth: bool) -> Result<sprout::JsDescription, String> {
        // JsDescription has no public constructor; its public reader is given a blob whose two
        // leading amounts are in range (everything else in a JoinSplit is opaque to the codec).
        let len = 8 + 8 + 32 + 64 + 64 + 32 + 32 + 64 + if use_groth { GROTH_PROOF_SIZE } else { 296 } + 2 * 601;
        let mut blob = r.bytes(len);
        let (a, b) = match r.below(4) {
            0 => (MAX_MONEY, 0),
            1 => (0, MAX_MONEY),
            2 => (0, 0),
            _ => (r.next() % MAX_MONEY, 0),
        };
        blob[..8].copy_from_slice(&a.to_le_bytes());
        blob[8..16].copy_from_slice(&b.to_le_bytes());
        sprout::JsDescription::read(&blob[..], use_groth).map_err(|e| format!("JsDescription::read refuses a JoinSplit with in-range amounts ({a}, {b}): {e}"))
    }

    /// The parts of a well-formed transaction of the given shape (next salt of an internal counter).
    pub fn parts(&mut self, shape: &Shape) -> Result<TxParts, String> {
        self.counter = mix(self.counter);
        self.parts_with(shape, self.counter)
    }

    /// The parts of a well-formed transaction of the given shape: a pure function of
    /// (generator seed, shape, salt).
    pub fn parts_with(&self, shape: &Shape, salt: u64) -> Result<TxParts, String> {
        let v = shape.version;
        if !format_has_sapling(v) && (shape.n_spends > 0 || shape.n_outputs > 0) {
            return Err("shape: the version has no Sapling bundle".into());
        }
        if !format_has_orchard(v) && shape.n_orchard > 0 {
            return Err("shape: the version has no Orchard bundle".into());
        }
        if !format_has_ironwood(v) && shape.n_ironwood > 0 {
            return Err("shape: the version has no Ironwood bundle".into());
        }
        if !format_has_sprout(v) && shape.n_joinsplits > 0 {
            return Err("shape: the version has no Sprout bundle".into());
        }
        for (l, n) in [(&shape.script_sig_lens, shape.n_vin), (&shape.script_pubkey_lens, shape.n_vout)] {
            if l.as_ref().is_some_and(|l| l.len() != n) {
                return Err("shape: script length list does not match the count".into());
            }
        }
        let r = &mut Salt(mix(salt ^ 0xC03));
        let k = r.below(POOL);
        let mut vin: Vec<_> = (0..shape.n_vin).map(|i| self.txins[(i + k) % POOL].clone()).collect();
        let mut vout: Vec<_> = (0..shape.n_vout).map(|i| self.txouts[(i + k) % POOL].clone()).collect();
        if let Some(lens) = &shape.script_sig_lens {
            for (i, l) in lens.iter().enumerate() {
                vin[i] = TxIn::from_parts(vin[i].prevout().clone(), Self::script(r, *l), vin[i].sequence());
            }
        }
        if let Some(lens) = &shape.script_pubkey_lens {
            for (i, l) in lens.iter().enumerate() {
                vout[i] = TxOut::new(vout[i].value(), Self::script(r, *l));
            }
        }
        if !vout.is_empty() && r.below(4) == 0 {
            let i = r.below(vout.len());
            let amt = if r.below(2) == 0 { MAX_MONEY } else { 0 };
            vout[i] = TxOut::new(Zatoshis::from_u64(amt).unwrap(), vout[i].script_pubkey().clone());
        }
        if !vin.is_empty() && r.below(4) == 0 {
            let i = r.below(vin.len());
            vin[i] = TxIn::from_parts(OutPoint::new(*vin[i].prevout().hash(), u32::MAX), vin[i].script_sig().clone(), self.word(r));
        }
        let sapling = if shape.n_spends + shape.n_outputs > 0 {
            let (ks, ko) = (r.below(POOL), r.below(POOL));
            Some(SaplingParts {
                spends: (0..shape.n_spends).map(|i| self.spends[(i + ks) % POOL].clone()).collect(),
                outputs: (0..shape.n_outputs).map(|i| self.outputs[(i + ko) % POOL].clone()).collect(),
                value_balance: self.amount(r),
                authorization: self.sapling_auths[r.below(self.sapling_auths.len())],
            })
        } else {
            None
        };
        let orchard = if shape.n_orchard > 0 {
            Some(self.orchard_parts(r, shape.n_orchard, ValuePool::Orchard, shape.branch, shape.orchard_proof_len)?)
        } else {
            None
        };
        let ironwood = if shape.n_ironwood > 0 {
            Some(self.orchard_parts(r, shape.n_ironwood, ValuePool::Ironwood, shape.branch, None)?)
        } else {
            None
        };
        let sprout = if shape.n_joinsplits > 0 {
            let use_groth = format_has_sapling(v);
            let joinsplits = (0..shape.n_joinsplits).map(|_| Self::joinsplit(r, use_groth)).collect::<Result<Vec<_>, _>>()?;
            let joinsplit_pubkey: [u8; 32] = r.bytes(32).try_into().unwrap();
            let joinsplit_sig: [u8; 64] = r.bytes(64).try_into().unwrap();
            Some(sprout::Bundle { joinsplits, joinsplit_pubkey, joinsplit_sig })
        } else {
            None
        };
        let lock_time = self.word(r);
        // pre-Overwinter formats have no expiry field
        let expiry_height = if format_has_overwinter(v) { self.word(r) } else { 0 };
        let mut p = TxParts { version: v, branch: shape.branch, lock_time, expiry_height, vin, vout, sprout, sapling, orchard, ironwood };
        if matches!(v, TxVersion::V5 | TxVersion::V6) {
            p.unify_sapling_anchor();
        }
        Ok(p)
    }

    pub fn txdata(&mut self, shape: &Shape) -> Result<TransactionData<Authorized>, String> {
        self.parts(shape)?.build()
    }

    pub fn tx(&mut self, shape: &Shape) -> Result<Transaction, String> {
        self.parts(shape)?.freeze()
    }

    /// A transaction drawn from `zcash_primitives::transaction::testing::arb_txdata(branch)` and
    /// normalised to be well-formed (uniform Sapling anchor for V5+; Orchard bundle version of the
    /// branch). Shapes are whatever the crate's strategy produces; depends on the draw order.
    pub fn arbitrary(&mut self, branch: BranchId) -> Result<TxParts, String> {
        let d = self.sample(zcash_primitives::transaction::testing::arb_txdata(branch));
        let mut p = TxParts::from_txdata(&d);
        if matches!(p.version, TxVersion::V5 | TxVersion::V6) {
            p.unify_sapling_anchor();
        }
        for (slot, pool) in [(&mut p.orchard, ValuePool::Orchard), (&mut p.ironwood, ValuePool::Ironwood)] {
            if let Some(o) = slot.as_mut() {
                let bv = orchard_bundle_version(branch, pool).ok_or("pool not available under the branch")?;
                let byte = u8::from(o.flags.spends_enabled()) | (u8::from(o.flags.outputs_enabled()) << 1)
                    | if pool == ValuePool::Ironwood && o.flags.cross_address_enabled() { 0b100 } else { 0 };
                o.flags = Flags::from_byte(byte, bv).ok_or("shape: flag byte not representable")?;
                o.bundle_version = bv;
            }
        }
        Ok(p)
    }
}

/// The shape of a transaction value.
pub fn shape_of(d: &TransactionData<Authorized>) -> Shape {
    Shape {
        version: d.version(),
        branch: d.consensus_branch_id(),
        n_vin: d.transparent_bundle().map_or(0, |b| b.vin.len()),
        n_vout: d.transparent_bundle().map_or(0, |b| b.vout.len()),
        n_joinsplits: d.sprout_bundle().map_or(0, |b| b.joinsplits.len()),
        n_spends: d.sapling_bundle().map_or(0, |b| b.shielded_spends().len()),
        n_outputs: d.sapling_bundle().map_or(0, |b| b.shielded_outputs().len()),
        n_orchard: d.orchard_bundle().map_or(0, |b| b.actions().len()),
        n_ironwood: d.ironwood_bundle().map_or(0, |b| b.actions().len()),
        script_sig_lens: Some(d.transparent_bundle().map_or(vec![], |b| b.vin.iter().map(|i| i.script_sig().0.0.len()).collect())),
        script_pubkey_lens: Some(d.transparent_bundle().map_or(vec![], |b| b.vout.iter().map(|o| o.script_pubkey().0.0.len()).collect())),
        orchard_proof_len: d.orchard_bundle().map(|b| b.authorization().proof().as_ref().len()),
    }
}
