//! Reusable generator of real, well-formed transactions of a requested shape (C03, C04).
//!
//! A [`Shape`] fixes the transaction version, the consensus branch and the number of elements of
//! every bundle. [`TxGen`] materialises a shape as a real `TransactionData<Authorized>` /
//! `Transaction` whose components are drawn from the crates' own seeded proptest strategies
//! (`zcash_transparent::bundle::testing`, `sapling::bundle::testing`,
//! `orchard::bundle::testing`, `zcash_protocol::value::testing`) and then made *well-formed for
//! the version*:
//!
//! * V5 / V6 Sapling bundles carry one anchor for all spends (the generator of the Sapling crate
//!   gives every spend its own anchor, which only the V4 wire format can represent);
//! * an Orchard-protocol bundle has the `BundleVersion` of its (branch, pool) -- historical
//!   Orchard for NU5..NU6.1, `orchard_v2` for NU6.2, `orchard_v3` / `ironwood_v3` from NU6.3 --,
//!   flags representable under that version and a proof of the canonical length (unless the
//!   shape asks for another length and the bundle version does not enforce it);
//! * bundles absent from the version's format are absent.
//!
//! [`TxParts`] is the same transaction as plain owned parts: every field can be replaced and the
//! transaction rebuilt through the public `from_parts` constructors ([`TxParts::build`]).
//! Nothing in this module serialises or parses transactions.

use orchard::{
    Action, Anchor as OrchardAnchor, NoteVersion, ValuePool,
    bundle::{Authorized as OrchardAuthorized, BundleVersion, Flags},
    primitives::redpallas::{self, Binding as OrchardBinding, SpendAuth as OrchardSpendAuth},
    value::NoteValue,
};
use proptest::{
    strategy::{Strategy, ValueTree},
    test_runner::{Config, RngAlgorithm, TestRng, TestRunner},
};
use sapling::bundle::{GrothProofBytes, OutputDescription, SpendDescription};
use zcash_primitives::transaction::{
    Authorized, Transaction, TransactionData, TxVersion,
    components::{GROTH_PROOF_SIZE, sprout},
};
use zcash_protocol::{
    consensus::{BlockHeight, BranchId},
    value::{MAX_MONEY, ZatBalance, Zatoshis},
};
use zcash_transparent::{
    address::Script,
    bundle::{self as transparent, OutPoint, TxIn, TxOut},
};

pub type SaplingSpend = SpendDescription<sapling::bundle::Authorized>;
pub type SaplingOutput = OutputDescription<GrothProofBytes>;
pub type OrchardAction = Action<redpallas::Signature<OrchardSpendAuth>>;

pub const ALL_BRANCHES: [BranchId; 11] = [
    BranchId::Sprout,
    BranchId::Overwinter,
    BranchId::Sapling,
    BranchId::Blossom,
    BranchId::Heartwood,
    BranchId::Canopy,
    BranchId::Nu5,
    BranchId::Nu6,
    BranchId::Nu6_1,
    BranchId::Nu6_2,
    BranchId::Nu6_3,
];

pub fn branch_name(b: BranchId) -> &'static str {
    match b {
        BranchId::Sprout => "Sprout",
        BranchId::Overwinter => "Overwinter",
        BranchId::Sapling => "Sapling",
        BranchId::Blossom => "Blossom",
        BranchId::Heartwood => "Heartwood",
        BranchId::Canopy => "Canopy",
        BranchId::Nu5 => "Nu5",
        BranchId::Nu6 => "Nu6",
        BranchId::Nu6_1 => "Nu6_1",
        BranchId::Nu6_2 => "Nu6_2",
        BranchId::Nu6_3 => "Nu6_3",
        #[allow(unreachable_patterns)]
        _ => "other",
    }
}

pub fn branch_from_name(s: &str) -> Option<BranchId> {
    ALL_BRANCHES.iter().copied().find(|b| branch_name(*b) == s)
}

/// "sprout1", "sprout2", "sprout<n>", "v3", "v4", "v5", "v6".
pub fn version_name(v: TxVersion) -> String {
    match v {
        TxVersion::Sprout(n) => format!("sprout{n}"),
        TxVersion::V3 => "v3".into(),
        TxVersion::V4 => "v4".into(),
        TxVersion::V5 => "v5".into(),
        TxVersion::V6 => "v6".into(),
    }
}

pub fn version_from_name(s: &str) -> Option<TxVersion> {
    match s {
        "v3" => Some(TxVersion::V3),
        "v4" => Some(TxVersion::V4),
        "v5" => Some(TxVersion::V5),
        "v6" => Some(TxVersion::V6),
        _ => s.strip_prefix("sprout").and_then(|n| n.parse::<u32>().ok()).filter(|n| *n >= 1 && *n <= 0x7fff_ffff).map(TxVersion::Sprout),
    }
}

/// The `BundleVersion` an Orchard-protocol bundle of `pool` has under `branch` (None: the pool does
/// not exist under that branch). Written from the rustdoc of `BundleVersion`, independently of
/// `zcash_primitives::transaction::components::orchard::bundle_version_for_branch`.
pub fn orchard_bundle_version(branch: BranchId, pool: ValuePool) -> Option<BundleVersion> {
    match (pool, branch) {
        (ValuePool::Orchard, BranchId::Nu5 | BranchId::Nu6 | BranchId::Nu6_1) => Some(BundleVersion::orchard_insecure_v1()),
        (ValuePool::Orchard, BranchId::Nu6_2) => Some(BundleVersion::orchard_v2()),
        (ValuePool::Orchard, BranchId::Nu6_3) => Some(BundleVersion::orchard_v3()),
        (ValuePool::Ironwood, BranchId::Nu6_3) => Some(BundleVersion::ironwood_v3()),
        _ => None,
    }
}

pub fn bundle_version_name(v: BundleVersion) -> &'static str {
    if v == BundleVersion::orchard_insecure_v1() {
        "orchard_insecure_v1"
    } else if v == BundleVersion::orchard_v2() {
        "orchard_v2"
    } else if v == BundleVersion::orchard_v3() {
        "orchard_v3"
    } else if v == BundleVersion::ironwood_v3() {
        "ironwood_v3"
    } else {
        "other"
    }
}

/// Canonical Orchard proof length for `n` actions (ZIP 225: 2720 + 2272 n).
pub fn canonical_orchard_proof_len(n: usize) -> usize {
    2720 + 2272 * n
}

/// What a transaction looks like on the wire, up to the contents of the fields.
#[derive(Clone, Debug, PartialEq)]
pub struct Shape {
    pub version: TxVersion,
    pub branch: BranchId,
    pub n_vin: usize,
    pub n_vout: usize,
    pub n_joinsplits: usize,
    pub n_spends: usize,
    pub n_outputs: usize,
    pub n_orchard: usize,
    pub n_ironwood: usize,
    /// Length forced on the scriptSig of the first input (None: as generated, 1..=255 bytes).
    pub script_sig_len: Option<usize>,
    /// Length forced on the scriptPubKey of the first output.
    pub script_pubkey_len: Option<usize>,
    /// Orchard proof length (None: canonical). A non-canonical length is only constructible for
    /// the historical Orchard bundle version (NU5..NU6.1).
    pub orchard_proof_len: Option<usize>,
}

impl Shape {
    pub fn new(version: TxVersion, branch: BranchId) -> Self {
        Shape {
            version,
            branch,
            n_vin: 0,
            n_vout: 0,
            n_joinsplits: 0,
            n_spends: 0,
            n_outputs: 0,
            n_orchard: 0,
            n_ironwood: 0,
            script_sig_len: None,
            script_pubkey_len: None,
            orchard_proof_len: None,
        }
    }
}

#[derive(Clone, Debug)]
pub struct SaplingParts {
    pub spends: Vec<SaplingSpend>,
    pub outputs: Vec<SaplingOutput>,
    pub value_balance: ZatBalance,
    /// holds the binding signature (`authorization.binding_sig`)
    pub authorization: sapling::bundle::Authorized,
}

#[derive(Clone, Debug)]
pub struct OrchardParts {
    pub actions: Vec<OrchardAction>,
    pub flags: Flags,
    pub value_balance: ZatBalance,
    pub anchor: OrchardAnchor,
    pub proof: Vec<u8>,
    pub binding_sig: redpallas::Signature<OrchardBinding>,
    pub bundle_version: BundleVersion,
}

/// A transaction as plain parts. `build` goes through the public constructors only.
#[derive(Clone, Debug)]
pub struct TxParts {
    pub version: TxVersion,
    pub branch: BranchId,
    pub lock_time: u32,
    pub expiry_height: u32,
    pub vin: Vec<TxIn<transparent::Authorized>>,
    pub vout: Vec<TxOut>,
    pub sprout: Option<sprout::Bundle>,
    pub sapling: Option<SaplingParts>,
    pub orchard: Option<OrchardParts>,
    pub ironwood: Option<OrchardParts>,
}

fn orchard_bundle(p: &OrchardParts) -> Result<orchard::Bundle<OrchardAuthorized, ZatBalance>, String> {
    let actions = nonempty::NonEmpty::from_vec(p.actions.clone()).ok_or("an Orchard bundle needs at least one action")?;
    orchard::Bundle::try_from_parts(
        actions,
        p.flags,
        p.value_balance,
        p.anchor,
        OrchardAuthorized::from_parts(orchard::Proof::new(p.proof.clone()), p.binding_sig.clone()),
        p.bundle_version,
    )
    .map_err(|e| format!("orchard::Bundle::try_from_parts: {e}"))
}

fn orchard_parts(b: &orchard::Bundle<OrchardAuthorized, ZatBalance>) -> OrchardParts {
    OrchardParts {
        actions: b.actions().iter().cloned().collect(),
        flags: *b.flags(),
        value_balance: *b.value_balance(),
        anchor: *b.anchor(),
        proof: b.authorization().proof().as_ref().to_vec(),
        binding_sig: b.authorization().binding_signature().clone(),
        bundle_version: b.bundle_version(),
    }
}

impl TxParts {
    pub fn from_txdata(d: &TransactionData<Authorized>) -> Self {
        TxParts {
            version: d.version(),
            branch: d.consensus_branch_id(),
            lock_time: d.lock_time(),
            expiry_height: u32::from(d.expiry_height()),
            vin: d.transparent_bundle().map(|b| b.vin.clone()).unwrap_or_default(),
            vout: d.transparent_bundle().map(|b| b.vout.clone()).unwrap_or_default(),
            sprout: d.sprout_bundle().cloned(),
            sapling: d.sapling_bundle().map(|b| SaplingParts {
                spends: b.shielded_spends().to_vec(),
                outputs: b.shielded_outputs().to_vec(),
                value_balance: *b.value_balance(),
                authorization: *b.authorization(),
            }),
            orchard: d.orchard_bundle().map(orchard_parts),
            ironwood: d.ironwood_bundle().map(orchard_parts),
        }
    }

    /// Rebuilds the transaction through `transparent::Bundle { .. }`, `sapling::Bundle::from_parts`,
    /// `orchard::Bundle::try_from_parts` and `TransactionData::from_parts` / `from_parts_v6`.
    /// Empty bundles become `None` (as `sapling::Bundle::from_parts` does itself).
    pub fn build(&self) -> Result<TransactionData<Authorized>, String> {
        let transparent_bundle = if self.vin.is_empty() && self.vout.is_empty() {
            None
        } else {
            Some(transparent::Bundle { vin: self.vin.clone(), vout: self.vout.clone(), authorization: transparent::Authorized })
        };
        let sapling_bundle = match &self.sapling {
            None => None,
            Some(p) => sapling::Bundle::from_parts(
                p.spends.clone(),
                p.outputs.clone(),
                p.value_balance,
                p.authorization,
            ),
        };
        let orchard_b = self.orchard.as_ref().map(orchard_bundle).transpose()?;
        let ironwood_b = self.ironwood.as_ref().map(orchard_bundle).transpose()?;
        let sprout_b = self.sprout.clone().filter(|b| !b.joinsplits.is_empty());
        Ok(match self.version {
            TxVersion::V6 => {
                if sprout_b.is_some() {
                    return Err("a v6 transaction cannot be constructed with a Sprout bundle".into());
                }
                TransactionData::from_parts_v6(
                    self.branch,
                    self.lock_time,
                    BlockHeight::from_u32(self.expiry_height),
                    transparent_bundle,
                    sapling_bundle,
                    orchard_b,
                    ironwood_b,
                )
            }
            v => {
                if ironwood_b.is_some() {
                    return Err("only a v6 transaction can be constructed with an Ironwood bundle".into());
                }
                TransactionData::from_parts(
                    v,
                    self.branch,
                    self.lock_time,
                    BlockHeight::from_u32(self.expiry_height),
                    transparent_bundle,
                    sprout_b,
                    sapling_bundle,
                    orchard_b,
                )
            }
        })
    }

    pub fn freeze(&self) -> Result<Transaction, String> {
        self.build()?.freeze().map_err(|e| format!("freeze: {e}"))
    }

    /// Gives every Sapling spend the anchor of the first one (what V5+ can represent).
    pub fn unify_sapling_anchor(&mut self) {
        if let Some(s) = self.sapling.as_mut() {
            if let Some(first) = s.spends.first().cloned() {
                s.spends = s.spends.iter().map(|sp| spend_with_anchor_of(sp, &first)).collect();
            }
        }
    }
}

/// `sp` with the anchor of `donor` (the scalar type is never named: no direct dependency on bls12_381).
pub fn spend_with_anchor_of(sp: &SaplingSpend, donor: &SaplingSpend) -> SaplingSpend {
    SpendDescription::from_parts(sp.cv().clone(), *donor.anchor(), *sp.nullifier(), *sp.rk(), *sp.zkproof(), *sp.spend_auth_sig())
}

/// `sp` with the anchor encoded by `bytes` (None: not a canonical field element).
pub fn spend_with_anchor_bytes(sp: &SaplingSpend, bytes: [u8; 32]) -> Option<SaplingSpend> {
    let a = zcash_primitives::transaction::components::sapling::read_base(&bytes[..], "anchor").ok()?;
    Some(SpendDescription::from_parts(sp.cv().clone(), a, *sp.nullifier(), *sp.rk(), *sp.zkproof(), *sp.spend_auth_sig()))
}

/// A Sapling authorization with the given binding signature bytes.
pub fn sapling_authorized_from_bytes(sig: [u8; 64]) -> sapling::bundle::Authorized {
    sapling::bundle::Authorized { binding_sig: sig.into() }
}

pub fn sapling_binding_sig_bytes(a: &sapling::bundle::Authorized) -> [u8; 64] {
    <[u8; 64]>::from(a.binding_sig)
}

pub fn sapling_anchor_bytes(sp: &SaplingSpend) -> [u8; 32] {
    sapling::Anchor::from(*sp.anchor()).to_bytes()
}

// ------------------------------------------------------------------------------------------------
// the generator

/// Upper bound on distinct pooled elements; larger requests cycle through the pool.
const POOL_CAP: usize = 48;

pub struct TxGen {
    runner: TestRunner,
    txins: Vec<TxIn<transparent::Authorized>>,
    txouts: Vec<TxOut>,
    spends: Vec<SaplingSpend>,
    outputs: Vec<SaplingOutput>,
    sapling_sigs: Vec<sapling::bundle::Authorized>,
    actions: Vec<OrchardAction>,          // note version 2 (Orchard pool)
    iw_actions: Vec<OrchardAction>,       // note version 3 (Ironwood pool)
    orchard_misc: Vec<(OrchardAnchor, redpallas::Signature<OrchardBinding>)>,
    counter: u64,
}

impl TxGen {
    pub fn new(seed: u64) -> Self {
        let mut s = [0u8; 32];
        s[..8].copy_from_slice(&seed.to_le_bytes());
        s[8..16].copy_from_slice(b"verifC03");
        TxGen {
            runner: TestRunner::new_with_rng(Config::default(), TestRng::from_seed(RngAlgorithm::ChaCha, &s)),
            txins: vec![],
            txouts: vec![],
            spends: vec![],
            outputs: vec![],
            sapling_sigs: vec![],
            actions: vec![],
            iw_actions: vec![],
            orchard_misc: vec![],
            counter: 0,
        }
    }

    /// One value of a proptest strategy, drawn with this generator's seeded RNG.
    pub fn sample<S: Strategy>(&mut self, s: S) -> S::Value {
        s.new_tree(&mut self.runner).expect("strategy produces a value").current()
    }

    fn next(&mut self) -> u64 {
        self.counter += 1;
        self.counter
    }

    fn fill_transparent(&mut self, n_in: usize, n_out: usize) {
        use zcash_transparent::bundle::testing::{arb_txin, arb_txout};
        while self.txins.len() < n_in.min(POOL_CAP) {
            let v = self.sample(arb_txin());
            self.txins.push(v);
        }
        while self.txouts.len() < n_out.min(POOL_CAP) {
            let v = self.sample(arb_txout());
            self.txouts.push(v);
        }
    }

    fn fill_sapling(&mut self, n_sp: usize, n_out: usize) {
        while self.spends.len() < n_sp.min(POOL_CAP) || self.outputs.len() < n_out.min(POOL_CAP) || self.sapling_sigs.len() < 8 {
            if let Some(b) = self.sample(sapling::bundle::testing::arb_bundle(ZatBalance::zero())) {
                self.spends.extend(b.shielded_spends().iter().cloned());
                self.outputs.extend(b.shielded_outputs().iter().cloned());
                self.sapling_sigs.push(*b.authorization());
            }
        }
    }

    fn fill_orchard(&mut self, n: usize, ironwood: bool) {
        use orchard::bundle::testing::{arb_action, arb_bundle};
        let nv = if ironwood { NoteVersion::V3 } else { NoteVersion::V2 };
        loop {
            let have = if ironwood { self.iw_actions.len() } else { self.actions.len() };
            if have >= n.min(POOL_CAP) {
                break;
            }
            let k = self.next();
            let (sv, ov) = (NoteValue::from_raw(1 + (k * 7919) % 100_000), NoteValue::from_raw((k * 104_729) % 100_000));
            let a = self.sample(arb_action(nv, sv, ov));
            if ironwood { self.iw_actions.push(a) } else { self.actions.push(a) }
        }
        while self.orchard_misc.len() < 8 {
            let b = self.sample(arb_bundle(1));
            self.orchard_misc.push((*b.anchor(), b.authorization().binding_signature().clone()));
        }
    }

    fn amount(&mut self) -> ZatBalance {
        // boundary values a quarter of the time, otherwise the crate's strategy
        let k = self.next();
        let m = MAX_MONEY as i64;
        match k % 8 {
            0 => ZatBalance::from_i64(m).unwrap(),
            1 => ZatBalance::from_i64(-m).unwrap(),
            _ => self.sample(zcash_protocol::value::testing::arb_zat_balance()),
        }
    }

    fn script(&mut self, len: usize) -> Script {
        let k = self.next() as usize;
        Script(zcash_script::script::Code((0..len).map(|i| zcash_transparent::bundle::testing::VALID_OPCODES[(i * 31 + k) % 8]).collect()))
    }

    fn orchard_parts(&mut self, n: usize, pool: ValuePool, branch: BranchId, proof_len: Option<usize>) -> Result<OrchardParts, String> {
        let bv = orchard_bundle_version(branch, pool)
            .ok_or_else(|| format!("no {:?} pool under branch {}", pool, branch_name(branch)))?;
        let ironwood = pool == ValuePool::Ironwood;
        self.fill_orchard(n, ironwood);
        let k = self.next() as usize;
        let src = if ironwood { &self.iw_actions } else { &self.actions };
        let actions: Vec<OrchardAction> = (0..n).map(|i| src[(i + k) % src.len()].clone()).collect();
        let (anchor, binding_sig) = self.orchard_misc[k % self.orchard_misc.len()].clone();
        let mut byte = (k as u8 / 2) & 0b11;
        if ironwood && k % 3 != 0 {
            byte |= 0b100;
        }
        let flags = Flags::from_byte(byte, bv).ok_or("flag byte not representable")?;
        let plen = proof_len.unwrap_or_else(|| canonical_orchard_proof_len(n));
        let proof: Vec<u8> = (0..plen).map(|i| (i as u64).wrapping_mul(2654435761).wrapping_add(k as u64 * 97) as u8).collect();
        Ok(OrchardParts { actions, flags, value_balance: self.amount(), anchor, proof, binding_sig, bundle_version: bv })
    }

    fn joinsplit(&mut self, use_groth: bool) -> sprout::JsDescription {
        // JsDescription has no public constructor; its public reader is given a blob whose two
        // leading amounts are in range (everything else in a JoinSplit is opaque to the codec).
        let len = 8 + 8 + 32 + 64 + 64 + 32 + 32 + 64 + if use_groth { GROTH_PROOF_SIZE } else { 296 } + 2 * 601;
        let k = self.next();
        let mut blob: Vec<u8> = (0..len).map(|i| ((i as u64 + 1).wrapping_mul(0x9E37_79B9_7F4A_7C15 ^ k) >> 24) as u8).collect();
        let (a, b) = match k % 4 {
            0 => (MAX_MONEY, 0),
            1 => (0, MAX_MONEY),
            _ => (k.wrapping_mul(1_000_003) % MAX_MONEY, 0),
        };
        blob[..8].copy_from_slice(&a.to_le_bytes());
        blob[8..16].copy_from_slice(&b.to_le_bytes());
        sprout::JsDescription::read(&blob[..], use_groth).expect("a JoinSplit blob with in-range amounts")
    }

    /// The parts of a well-formed transaction of the given shape.
    pub fn parts(&mut self, shape: &Shape) -> Result<TxParts, String> {
        let v = shape.version;
        if !v.has_sapling() && (shape.n_spends > 0 || shape.n_outputs > 0) {
            return Err("the version has no Sapling bundle".into());
        }
        if !v.has_orchard() && shape.n_orchard > 0 {
            return Err("the version has no Orchard bundle".into());
        }
        if !v.has_ironwood() && shape.n_ironwood > 0 {
            return Err("the version has no Ironwood bundle".into());
        }
        if !v.has_sprout() && shape.n_joinsplits > 0 {
            return Err("the version has no Sprout bundle".into());
        }
        self.fill_transparent(shape.n_vin, shape.n_vout);
        let k = self.next() as usize;
        let mut vin: Vec<_> = (0..shape.n_vin).map(|i| self.txins[(i + k) % self.txins.len()].clone()).collect();
        let mut vout: Vec<_> = (0..shape.n_vout).map(|i| self.txouts[(i + k) % self.txouts.len()].clone()).collect();
        if let (Some(l), Some(first)) = (shape.script_sig_len, vin.first().cloned()) {
            vin[0] = TxIn::from_parts(first.prevout().clone(), self.script(l), first.sequence());
        }
        if let (Some(l), Some(first)) = (shape.script_pubkey_len, vout.first().cloned()) {
            vout[0] = TxOut::new(first.value(), self.script(l));
        }
        if k % 5 == 0 {
            if let Some(first) = vout.first().cloned() {
                vout[0] = TxOut::new(Zatoshis::from_u64(MAX_MONEY).unwrap(), first.script_pubkey().clone());
            }
        }
        let sapling = if shape.n_spends + shape.n_outputs > 0 {
            self.fill_sapling(shape.n_spends, shape.n_outputs);
            let k = self.next() as usize;
            Some(SaplingParts {
                spends: (0..shape.n_spends).map(|i| self.spends[(i + k) % self.spends.len()].clone()).collect(),
                outputs: (0..shape.n_outputs).map(|i| self.outputs[(i + k) % self.outputs.len()].clone()).collect(),
                value_balance: self.amount(),
                authorization: self.sapling_sigs[k % self.sapling_sigs.len()],
            })
        } else {
            None
        };
        let orchard = if shape.n_orchard > 0 {
            Some(self.orchard_parts(shape.n_orchard, ValuePool::Orchard, shape.branch, shape.orchard_proof_len)?)
        } else {
            None
        };
        let ironwood = if shape.n_ironwood > 0 {
            Some(self.orchard_parts(shape.n_ironwood, ValuePool::Ironwood, shape.branch, None)?)
        } else {
            None
        };
        let sprout = if shape.n_joinsplits > 0 {
            let use_groth = v.has_sapling();
            let joinsplits = (0..shape.n_joinsplits).map(|_| self.joinsplit(use_groth)).collect();
            let k = self.next();
            let mut joinsplit_pubkey = [0u8; 32];
            let mut joinsplit_sig = [0u8; 64];
            joinsplit_pubkey.iter_mut().enumerate().for_each(|(i, b)| *b = (k as usize * 13 + i * 7) as u8);
            joinsplit_sig.iter_mut().enumerate().for_each(|(i, b)| *b = (k as usize * 17 + i * 11) as u8);
            Some(sprout::Bundle { joinsplits, joinsplit_pubkey, joinsplit_sig })
        } else {
            None
        };
        let lock_time = match k % 4 {
            0 => 0,
            1 => u32::MAX,
            _ => self.sample(proptest::prelude::any::<u32>()),
        };
        let expiry_height = if v.has_overwinter() {
            match (k / 4) % 4 {
                0 => 0,
                1 => u32::MAX,
                _ => self.sample(proptest::prelude::any::<u32>()),
            }
        } else {
            0 // pre-Overwinter formats have no expiry field
        };
        let mut p = TxParts { version: v, branch: shape.branch, lock_time, expiry_height, vin, vout, sprout, sapling, orchard, ironwood };
        if matches!(v, TxVersion::V5 | TxVersion::V6) {
            p.unify_sapling_anchor();
        }
        Ok(p)
    }

    pub fn txdata(&mut self, shape: &Shape) -> Result<TransactionData<Authorized>, String> {
        self.parts(shape)?.build()
    }

    pub fn tx(&mut self, shape: &Shape) -> Result<Transaction, String> {
        self.parts(shape)?.freeze()
    }

    /// A transaction drawn from `zcash_primitives::transaction::testing::arb_txdata(branch)` and
    /// normalised to be well-formed (uniform Sapling anchor for V5+; Orchard bundle version of the
    /// branch). Shapes are whatever the crate's strategy produces.
    pub fn arbitrary(&mut self, branch: BranchId) -> Result<TxParts, String> {
        let d = self.sample(zcash_primitives::transaction::testing::arb_txdata(branch));
        let mut p = TxParts::from_txdata(&d);
        if matches!(p.version, TxVersion::V5 | TxVersion::V6) {
            p.unify_sapling_anchor();
        }
        for (slot, pool) in [(&mut p.orchard, ValuePool::Orchard), (&mut p.ironwood, ValuePool::Ironwood)] {
            if let Some(o) = slot.as_mut() {
                let bv = orchard_bundle_version(branch, pool).ok_or("pool not available under the branch")?;
                let byte = u8::from(o.flags.spends_enabled()) | (u8::from(o.flags.outputs_enabled()) << 1)
                    | if pool == ValuePool::Ironwood && o.flags.cross_address_enabled() { 0b100 } else { 0 };
                o.flags = Flags::from_byte(byte, bv).ok_or("flag byte not representable")?;
                o.bundle_version = bv;
            }
        }
        Ok(p)
    }
}

/// The shape of a transaction value.
pub fn shape_of(d: &TransactionData<Authorized>) -> Shape {
    Shape {
        version: d.version(),
        branch: d.consensus_branch_id(),
        n_vin: d.transparent_bundle().map_or(0, |b| b.vin.len()),
        n_vout: d.transparent_bundle().map_or(0, |b| b.vout.len()),
        n_joinsplits: d.sprout_bundle().map_or(0, |b| b.joinsplits.len()),
        n_spends: d.sapling_bundle().map_or(0, |b| b.shielded_spends().len()),
        n_outputs: d.sapling_bundle().map_or(0, |b| b.shielded_outputs().len()),
        n_orchard: d.orchard_bundle().map_or(0, |b| b.actions().len()),
        n_ironwood: d.ironwood_bundle().map_or(0, |b| b.actions().len()),
        script_sig_len: d.transparent_bundle().and_then(|b| b.vin.first()).map(|i| i.script_sig().0.0.len()),
        script_pubkey_len: d.transparent_bundle().and_then(|b| b.vout.first()).map(|o| o.script_pubkey().0.0.len()),
        orchard_proof_len: d.orchard_bundle().map(|b| b.authorization().proof().as_ref().len()),
    }
}

#[allow(dead_code)]
fn _outpoint_is_public(_: OutPoint) {}
