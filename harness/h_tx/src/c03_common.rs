//! C03: code shared by c03_replay (spec -> code) and c03_driver (code -> spec).
//!
//! * the token sequences / shapes printed by TLC from spec/Codec/TxLayout.tla, as Rust values;
//! * `observe`: the bytes a named field of the layout must have, computed from the public
//!   accessors of a transaction value with this file's own little-endian encoders (it never calls
//!   a `write` of the code under test);
//! * `walk`: the generic interpreter of a token sequence over real bytes;
//! * `parse` / `serialise`: the only calls into the code under test, each under catch_unwind.
use h_core::util::guarded;
use orchard::ValuePool;
use serde_json::Value;
use zcash_primitives::transaction::{Authorized, Transaction, TransactionData, TxVersion};
use zcash_protocol::{consensus::BranchId, value::ZatBalance};

use crate::txgen::{Shape, branch_from_name, bundle_version_name, sapling_anchor_bytes, sapling_binding_sig_bytes, version_from_name};

pub fn bytes_of(v: &Value) -> Vec<u8> {
    v.as_array().expect("byte array").iter().map(|x| x.as_u64().expect("byte") as u8).collect()
}

pub fn usize_of(v: &Value) -> usize {
    v.as_u64().expect("number") as usize
}

/// Shape record of TxLayout.tla -> txgen::Shape.
pub fn shape_from_json(s: &Value) -> Shape {
    let lens = |k: &str| -> Vec<usize> { s[k].as_array().map(|a| a.iter().map(usize_of).collect()).unwrap_or_default() };
    let n_orchard = usize_of(&s["nAct"]);
    Shape {
        version: version_from_name(s["ver"].as_str().expect("ver")).expect("known version"),
        branch: branch_from_name(s["branch"].as_str().expect("branch")).expect("known branch"),
        n_vin: usize_of(&s["nIn"]),
        n_vout: usize_of(&s["nOut"]),
        n_joinsplits: usize_of(&s["nJS"]),
        n_spends: usize_of(&s["nSp"]),
        n_outputs: usize_of(&s["nSO"]),
        n_orchard,
        n_ironwood: usize_of(&s["nIrw"]),
        script_sig_lens: Some(lens("sigLen")),
        script_pubkey_lens: Some(lens("pkLen")),
        orchard_proof_len: if n_orchard > 0 { Some(usize_of(&s["proofLen"])) } else { None },
    }
}

#[derive(Clone, Debug)]
pub struct Token {
    pub k: char, // f fixed, k constant, a amount, c count
    pub n: String,
    pub i: usize, // 1-based element index inside a repetition, 0 outside
    pub len: usize,
    pub val: Vec<u8>, // k
    pub sg: char,     // a: 'u' | 's'
    pub v: u64,       // c
    pub enc: Vec<u8>, // c
}

pub fn tokens_from_json(ts: &Value) -> Vec<Token> {
    ts.as_array()
        .expect("token array")
        .iter()
        .map(|t| {
            let k = t["k"].as_str().expect("k").chars().next().unwrap();
            let enc = if k == 'c' { bytes_of(&t["enc"]) } else { vec![] };
            Token {
                k,
                n: t["n"].as_str().expect("n").to_string(),
                i: usize_of(&t["i"]),
                len: if k == 'c' { enc.len() } else { usize_of(&t["len"]) },
                val: if k == 'k' { bytes_of(&t["val"]) } else { vec![] },
                sg: if k == 'a' { t["sg"].as_str().unwrap().chars().next().unwrap() } else { '-' },
                v: if k == 'c' { t["v"].as_u64().unwrap() } else { 0 },
                enc,
            }
        })
        .collect()
}

/// Byte offset of every token (plus the end offset as last element).
pub fn offsets(tokens: &[Token]) -> Vec<usize> {
    let mut o = Vec::with_capacity(tokens.len() + 1);
    let mut p = 0;
    for t in tokens {
        o.push(p);
        p += t.len;
    }
    o.push(p);
    o
}

pub enum Obs {
    Bytes(Vec<u8>),
    Count(u64),
    /// the value has no public accessor (parts of a Sprout JoinSplit): only the length is checked
    Opaque,
    /// the value does not exist in this transaction (e.g. index out of range): a disagreement
    Missing,
}

fn orchard_obs(b: Option<&orchard::Bundle<orchard::bundle::Authorized, ZatBalance>>, field: &str, i: usize) -> Obs {
    let Some(b) = b else {
        return if field == "n" { Obs::Count(0) } else { Obs::Missing };
    };
    let act = |i: usize| b.actions().iter().nth(i.wrapping_sub(1));
    let with = |i: usize, f: &dyn Fn(&crate::txgen::OrchardAction) -> Vec<u8>| act(i).map_or(Obs::Missing, |a| Obs::Bytes(f(a)));
    match field {
        "n" => Obs::Count(b.actions().len() as u64),
        "cv" => with(i, &|a| a.cv_net().to_bytes().to_vec()),
        "nf" => with(i, &|a| a.nullifier().to_bytes().to_vec()),
        "rk" => with(i, &|a| <[u8; 32]>::from(a.rk()).to_vec()),
        "cmx" => with(i, &|a| a.cmx().to_bytes().to_vec()),
        "epk" => with(i, &|a| a.encrypted_note().epk_bytes.to_vec()),
        "enc" => with(i, &|a| a.encrypted_note().enc_ciphertext.to_vec()),
        "out" => with(i, &|a| a.encrypted_note().out_ciphertext.to_vec()),
        "sig" => with(i, &|a| <[u8; 64]>::from(a.authorization()).to_vec()),
        "flags" => {
            // protocol spec 7.1: bit 0 enableSpends, bit 1 enableOutputs; bit 2 (enableCrossAddress)
            // exists for the Ironwood pool only and is zero for every Orchard-pool bundle
            let f = b.flags();
            let cross = b.bundle_version().value_pool() == ValuePool::Ironwood && f.cross_address_enabled();
            Obs::Bytes(vec![u8::from(f.spends_enabled()) | (u8::from(f.outputs_enabled()) << 1) | (u8::from(cross) << 2)])
        }
        "vb" => Obs::Bytes(i64::from(*b.value_balance()).to_le_bytes().to_vec()),
        "anchor" => Obs::Bytes(b.anchor().to_bytes().to_vec()),
        "proof" => Obs::Bytes(b.authorization().proof().as_ref().to_vec()),
        "proof.len" => Obs::Count(b.authorization().proof().as_ref().len() as u64),
        "binding" => Obs::Bytes(<[u8; 64]>::from(b.authorization().binding_signature()).to_vec()),
        _ => panic!("unknown Orchard field {field}"),
    }
}

/// What the public accessors of `tx` say the field `name` (element `i`) is.
pub fn observe(tx: &TransactionData<Authorized>, name: &str, i: usize) -> Obs {
    let tb = tx.transparent_bundle();
    let sb = tx.sapling_bundle();
    let jb = tx.sprout_bundle();
    let vin = |i: usize| tb.and_then(|b| b.vin.get(i.wrapping_sub(1)));
    let vout = |i: usize| tb.and_then(|b| b.vout.get(i.wrapping_sub(1)));
    let spend = |i: usize| sb.and_then(|b| b.shielded_spends().get(i.wrapping_sub(1)));
    let output = |i: usize| sb.and_then(|b| b.shielded_outputs().get(i.wrapping_sub(1)));
    let js = |i: usize| jb.and_then(|b| b.joinsplits.get(i.wrapping_sub(1)));
    fn ob<T>(o: Option<T>, f: impl Fn(T) -> Vec<u8>) -> Obs {
        o.map_or(Obs::Missing, |x| Obs::Bytes(f(x)))
    }
    if let Some(f) = name.strip_prefix("orchard.") {
        return orchard_obs(tx.orchard_bundle(), f, i);
    }
    if let Some(f) = name.strip_prefix("ironwood.") {
        return orchard_obs(tx.ironwood_bundle(), f, i);
    }
    match name {
        "nAct" => orchard_obs(tx.orchard_bundle(), "n", 0),
        "nIrw" => orchard_obs(tx.ironwood_bundle(), "n", 0),
        "lock_time" => Obs::Bytes(tx.lock_time().to_le_bytes().to_vec()),
        "expiry" => Obs::Bytes(u32::from(tx.expiry_height()).to_le_bytes().to_vec()),
        "nIn" => Obs::Count(tb.map_or(0, |b| b.vin.len()) as u64),
        "nOut" => Obs::Count(tb.map_or(0, |b| b.vout.len()) as u64),
        "in.prevout_hash" => ob(vin(i), |x| x.prevout().hash().to_vec()),
        "in.prevout_n" => ob(vin(i), |x| x.prevout().n().to_le_bytes().to_vec()),
        "in.script" => ob(vin(i), |x| x.script_sig().0.0.clone()),
        "in.script.len" => vin(i).map_or(Obs::Missing, |x| Obs::Count(x.script_sig().0.0.len() as u64)),
        "in.sequence" => ob(vin(i), |x| x.sequence().to_le_bytes().to_vec()),
        "out.value" => ob(vout(i), |x| u64::from(x.value()).to_le_bytes().to_vec()),
        "out.script" => ob(vout(i), |x| x.script_pubkey().0.0.clone()),
        "out.script.len" => vout(i).map_or(Obs::Missing, |x| Obs::Count(x.script_pubkey().0.0.len() as u64)),
        "nSp" => Obs::Count(sb.map_or(0, |b| b.shielded_spends().len()) as u64),
        "nSO" => Obs::Count(sb.map_or(0, |b| b.shielded_outputs().len()) as u64),
        // v4 carries the field even without a Sapling bundle: the balance of "no bundle" is zero
        "sapling.vb" => Obs::Bytes(sb.map_or(0i64, |b| i64::from(*b.value_balance())).to_le_bytes().to_vec()),
        "sapling.anchor" => ob(spend(1), |s| sapling_anchor_bytes(s).to_vec()),
        "sapling.binding" => ob(sb, |b| sapling_binding_sig_bytes(b.authorization()).to_vec()),
        "spend.cv" => ob(spend(i), |s| s.cv().to_bytes().to_vec()),
        "spend.anchor" => ob(spend(i), |s| sapling_anchor_bytes(s).to_vec()),
        "spend.nf" => ob(spend(i), |s| s.nullifier().0.to_vec()),
        "spend.rk" => ob(spend(i), |s| <[u8; 32]>::from(*s.rk()).to_vec()),
        "spend.proof" => ob(spend(i), |s| s.zkproof().to_vec()),
        "spend.sig" => ob(spend(i), |s| <[u8; 64]>::from(*s.spend_auth_sig()).to_vec()),
        "output.cv" => ob(output(i), |o| o.cv().to_bytes().to_vec()),
        "output.cmu" => ob(output(i), |o| o.cmu().to_bytes().to_vec()),
        "output.epk" => ob(output(i), |o| o.ephemeral_key().0.to_vec()),
        "output.enc" => ob(output(i), |o| o.enc_ciphertext().to_vec()),
        "output.out" => ob(output(i), |o| o.out_ciphertext().to_vec()),
        "output.proof" => ob(output(i), |o| o.zkproof().to_vec()),
        "nJS" => Obs::Count(jb.map_or(0, |b| b.joinsplits.len()) as u64),
        "js.vpub_old" => ob(js(i), |j| i64::from(j.vpub_old()).to_le_bytes().to_vec()),
        "js.vpub_new" => ob(js(i), |j| i64::from(j.vpub_new()).to_le_bytes().to_vec()),
        "js.anchor" => ob(js(i), |j| j.anchor().to_vec()),
        "js.nullifiers" => ob(js(i), |j| j.nullifiers().concat()),
        "js.commitments" => ob(js(i), |j| j.commitments().concat()),
        "js.random_seed" => ob(js(i), |j| j.random_seed().to_vec()),
        "js.macs" => ob(js(i), |j| j.macs().concat()),
        "js.proof" => match js(i) {
            None => Obs::Missing,
            Some(j) => j.groth_proof_bytes().map_or(Obs::Opaque, |p| Obs::Bytes(p.to_vec())),
        },
        "js.epk" | "js.ciphertexts" => {
            if js(i).is_some() {
                Obs::Opaque
            } else {
                Obs::Missing
            }
        }
        "sprout.pubkey" => ob(jb, |b| b.joinsplit_pubkey.to_vec()),
        "sprout.sig" => ob(jb, |b| b.joinsplit_sig.to_vec()),
        _ => panic!("field {name} of the layout has no observation rule in the harness"),
    }
}

fn show(b: &[u8]) -> String {
    if b.len() >= 2 && b.len() <= 40 && b.iter().all(|c| c.is_ascii_alphanumeric() || *c == b'_') {
        return String::from_utf8_lossy(b).into_owned(); // names (version, branch, bundle version)
    }
    if b.len() <= 40 { hex::encode(b) } else { format!("{}..({} bytes)", hex::encode(&b[..32]), b.len()) }
}

/// The generic interpreter: walks `bytes` along `tokens`; every count prefix must be the
/// specified bytes and equal the real count, constant fields must have the specified value,
/// every other field the bytes the accessors report; the walk must end exactly at the end.
pub fn walk(tokens: &[Token], total: usize, bytes: &[u8], tx: &TransactionData<Authorized>) -> Vec<String> {
    let mut bad = vec![];
    let mut p = 0usize;
    if bytes.len() != total {
        bad.push(format!("serialisation has {} bytes, the layout of this shape has {}", bytes.len(), total));
    }
    for (j, t) in tokens.iter().enumerate() {
        if p + t.len > bytes.len() {
            bad.push(format!("token {} ({}[{}]) at offset {p} needs {} bytes, {} are left", j + 1, t.n, t.i, t.len, bytes.len() - p.min(bytes.len())));
            return bad;
        }
        let got = &bytes[p..p + t.len];
        match t.k {
            'c' => {
                if got != &t.enc[..] {
                    bad.push(format!("count {}[{}] at offset {p}: bytes {} but the specified CompactSize of {} is {}", t.n, t.i, show(got), t.v, show(&t.enc)));
                }
                match observe(tx, &t.n, t.i) {
                    Obs::Count(c) if c == t.v => {}
                    Obs::Count(c) => bad.push(format!("count {}[{}]: the value holds {c}, the shape says {}", t.n, t.i, t.v)),
                    _ => bad.push(format!("count {}[{}]: nothing to count in the value", t.n, t.i)),
                }
            }
            'k' => {
                if got != &t.val[..] {
                    bad.push(format!("{} at offset {p}: bytes {} but the format fixes {}", t.n, show(got), show(&t.val)));
                }
            }
            _ => match observe(tx, &t.n, t.i) {
                Obs::Bytes(b) => {
                    if b != got {
                        bad.push(format!("{}[{}] at offset {p}: bytes {} but the value holds {}", t.n, t.i, show(got), show(&b)));
                    }
                }
                Obs::Opaque => {}
                Obs::Count(_) => bad.push(format!("{}[{}]: a count where bytes are expected", t.n, t.i)),
                Obs::Missing => bad.push(format!("{}[{}] at offset {p}: the value has no such element", t.n, t.i)),
            },
        }
        if bad.len() > 6 {
            return bad;
        }
        p += t.len;
    }
    if p != bytes.len() {
        bad.push(format!("the layout ends at offset {p}, the serialisation has {} bytes", bytes.len()));
    }
    bad
}

// ------------------------------------------------------------------------------------------------
// calls into the code under test

pub enum Parsed {
    Accepted(Transaction, usize),
    Rejected(String),
    Panic(String),
}

pub fn parse(bytes: &[u8], branch: BranchId) -> Parsed {
    match guarded(|| {
        let mut r: &[u8] = bytes;
        let res = Transaction::read(&mut r, branch);
        (res, bytes.len() - r.len())
    }) {
        Err(p) => Parsed::Panic(p),
        Ok((Ok(tx), n)) => Parsed::Accepted(tx, n),
        Ok((Err(e), _)) => Parsed::Rejected(e.to_string()),
    }
}

/// Ok(bytes) | Err("error: .." | "panic: ..")
pub fn serialise(tx: &Transaction) -> Result<Vec<u8>, String> {
    match guarded(|| {
        let mut buf = vec![];
        tx.write(&mut buf).map(|_| buf)
    }) {
        Err(p) => Err(format!("panic: {p}")),
        Ok(Err(e)) => Err(format!("error: {e}")),
        Ok(Ok(b)) => Ok(b),
    }
}

pub fn version_tag(v: TxVersion) -> String {
    crate::txgen::version_name(v)
}

/// All fields of a transaction value through the public accessors, in a fixed order
/// (used to compare two values field by field). `with_ids`: also txid and auth commitment.
pub fn dump(tx: &Transaction, with_ids: bool) -> Vec<(String, Vec<u8>)> {
    let d: &TransactionData<Authorized> = tx;
    let mut out: Vec<(String, Vec<u8>)> = vec![];
    out.push(("version".into(), version_tag(d.version()).into_bytes()));
    out.push(("branch".into(), crate::txgen::branch_name(d.consensus_branch_id()).as_bytes().to_vec()));
    let mut extra: Vec<(String, Vec<u8>)> = vec![];
    let mut put = |name: &str, i: usize| match observe(d, name, i) {
        Obs::Bytes(b) => out.push((format!("{name}[{i}]"), b)),
        Obs::Count(c) => out.push((format!("{name}[{i}]"), c.to_le_bytes().to_vec())),
        Obs::Opaque | Obs::Missing => {}
    };
    put("lock_time", 0);
    put("expiry", 0);
    let n = |name: &str| match observe(d, name, 0) {
        Obs::Count(c) => c as usize,
        _ => 0,
    };
    put("nIn", 0);
    for i in 1..=n("nIn") {
        for f in ["in.prevout_hash", "in.prevout_n", "in.script", "in.sequence"] {
            put(f, i);
        }
    }
    put("nOut", 0);
    for i in 1..=n("nOut") {
        for f in ["out.value", "out.script"] {
            put(f, i);
        }
    }
    put("nJS", 0);
    for i in 1..=n("nJS") {
        for f in ["js.vpub_old", "js.vpub_new", "js.anchor", "js.nullifiers", "js.commitments", "js.random_seed", "js.macs", "js.proof"] {
            put(f, i);
        }
    }
    put("sprout.pubkey", 0);
    put("sprout.sig", 0);
    put("nSp", 0);
    put("nSO", 0);
    if d.sapling_bundle().is_some() {
        put("sapling.vb", 0);
        put("sapling.binding", 0);
    }
    for i in 1..=n("nSp") {
        for f in ["spend.cv", "spend.anchor", "spend.nf", "spend.rk", "spend.proof", "spend.sig"] {
            put(f, i);
        }
    }
    for i in 1..=n("nSO") {
        for f in ["output.cv", "output.cmu", "output.epk", "output.enc", "output.out", "output.proof"] {
            put(f, i);
        }
    }
    for (p, cnt, b) in [("orchard", "nAct", d.orchard_bundle()), ("ironwood", "nIrw", d.ironwood_bundle())] {
        put(cnt, 0);
        if let Some(b) = b {
            for f in ["flags", "vb", "anchor", "proof", "binding"] {
                put(&format!("{p}.{f}"), 0);
            }
            for i in 1..=b.actions().len() {
                for f in ["cv", "nf", "rk", "cmx", "epk", "enc", "out", "sig"] {
                    put(&format!("{p}.{f}"), i);
                }
            }
            extra.push((format!("{p}.bundle_version"), bundle_version_name(b.bundle_version()).as_bytes().to_vec()));
            extra.push((format!("{p}.cross_address"), vec![u8::from(b.flags().cross_address_enabled())]));
        }
    }
    out.extend(extra);
    // the parts of a JoinSplit without accessors, through the value's own writer (symmetric use only)
    if let Some(b) = d.sprout_bundle() {
        for (i, j) in b.joinsplits.iter().enumerate() {
            let mut buf = vec![];
            if guarded(|| j.write(&mut buf)).is_ok() {
                out.push((format!("js.blob[{}]", i + 1), buf));
            }
        }
    }
    if with_ids {
        out.push(("txid".into(), tx.txid().as_ref().to_vec()));
        match guarded(|| tx.auth_commitment()) {
            Ok(h) => out.push(("auth_commitment".into(), h.as_bytes().to_vec())),
            Err(p) => out.push(("auth_commitment".into(), format!("panic: {p}").into_bytes())),
        }
    }
    out
}

/// Names of the fields in which two values differ (empty: equal).
pub fn differences(a: &[(String, Vec<u8>)], b: &[(String, Vec<u8>)]) -> Vec<String> {
    let mut d = vec![];
    for (k, v) in a {
        match b.iter().find(|(k2, _)| k2 == k) {
            Some((_, v2)) if v2 == v => {}
            Some((_, v2)) => d.push(format!("{k}: {} vs {}", show(v), show(v2))),
            None => d.push(format!("{k}: only in the first")),
        }
    }
    for (k, _) in b {
        if !a.iter().any(|(k2, _)| k2 == k) {
            d.push(format!("{k}: only in the second"));
        }
    }
    d
}

pub fn sha256d(b: &[u8]) -> [u8; 32] {
    use sha2::{Digest, Sha256};
    Sha256::digest(Sha256::digest(b)).into()
}
