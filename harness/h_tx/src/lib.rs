pub use h_core::util;
pub mod txgen;
