pub use h_core::util;
pub mod c03_common;
pub mod txgen;
