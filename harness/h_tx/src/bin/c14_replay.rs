//! C14 — built transactions contain what was requested and pay exactly the fee.
//!
//! Conformance harness for spec/Fees/Builder.tla (spec -> code).  Every request TLC enumerates
//! (MC_Builder, `CASE` lines) is materialised with real keys, real notes in tiny real commitment
//! trees (shardtree) and real transparent coins, and executed on
//!   * `Builder::get_fee`, `Builder::build_for_pczt` (+ `Creator::build_from_parts`, `into_effects`),
//!   * `Builder::build` with the mock Sapling provers and real transparent signing (requests without
//!     Orchard/Ironwood actions, and every request the specification says must be refused),
//!   * `Builder::build` with real Orchard proofs for a seeded sample,
//!   * `DeferredPcztBuilder::{get_fee, build_for_pczt}` for NU6.3 requests that use only Orchard/Ironwood.
//! Independent paths: trial decryption with the note-encryption crates under the recipients' IVKs,
//! the `zcash_script` interpreter for every transparent input, own value sums.
//!
//! Sub-commands (one JSON object on the last stdout line):
//!   run <cases.ndjson> <real_proof_samples> [<vtable.ndjson>]   executes all cases
//!   one <case.ndjson> <idx>                      one case at its original index (replay), full build always
#![allow(clippy::too_many_arguments, clippy::type_complexity)]

use std::collections::{BTreeMap, BTreeSet};
use std::sync::Mutex;

use h_tx::util::{guarded, quiet_panics, read_ndjson, seed_from_env};
use rand::{RngCore, SeedableRng};
use rand_chacha::ChaCha20Rng;
use serde_json::{Value as J, json};

use incrementalmerkletree::{Hashable, Position, Retention};
use orchard::tree::MerkleHashOrchard;
use pczt::roles::creator::Creator;
use sapling::prover::mock::{MockOutputProver, MockSpendProver};
use shardtree::{ShardTree, store::memory::MemoryShardStore};
use zcash_note_encryption::{EphemeralKeyBytes, ShieldedOutput, try_note_decryption};
use zcash_primitives::transaction::{
    Authorization, TransactionData, TxVersion,
    builder::{BuildConfig, Builder, BundlePadding, DeferredPcztBuilder, Error as BErr, PcztParts},
    fees::{FeeRule, fixed, zip317},
    sighash::{SignableInput, signature_hash},
    txid::TxIdDigester,
};
use zcash_protocol::{
    consensus::{BlockHeight, BranchId},
    local_consensus::LocalNetwork,
    memo::MemoBytes,
    value::{BalanceError, Zatoshis},
};
use zcash_script::script::{self, Evaluable};
use zcash_transparent::{
    address::{Script, TransparentAddress},
    builder::{SpendInfo, TransparentInputInfo, TransparentSigningSet},
    bundle::{self as tbundle, OutPoint, TxOut},
    sighash::{SighashType, TransparentAuthorizingContext},
};

// =================================================================================================
// network, heights
// =================================================================================================

fn network() -> LocalNetwork {
    LocalNetwork {
        overwinter: Some(BlockHeight::from_u32(10)),
        sapling: Some(BlockHeight::from_u32(20)),
        blossom: Some(BlockHeight::from_u32(30)),
        heartwood: Some(BlockHeight::from_u32(40)),
        canopy: Some(BlockHeight::from_u32(50)),
        nu5: Some(BlockHeight::from_u32(40_000)),
        nu6: Some(BlockHeight::from_u32(40_100)),
        nu6_1: Some(BlockHeight::from_u32(40_200)),
        nu6_2: Some(BlockHeight::from_u32(40_300)),
        nu6_3: Some(BlockHeight::from_u32(40_400)),
    }
}

/// (height, expected consensus branch, ZIP 212 enforced) of a regime's two heights.
fn height_of(regime: &str, hsel: u64) -> (u32, BranchId, bool) {
    match (regime, hsel) {
        ("sap", 0) => (25, BranchId::Sapling, false),
        ("sap", _) => (39_999, BranchId::Canopy, true),
        ("nu5", 0) => (40_000, BranchId::Nu5, true),
        ("nu5", _) => (40_399, BranchId::Nu6_2, true),
        ("nu63", 0) => (40_400, BranchId::Nu6_3, true),
        ("nu63", _) => (50_000, BranchId::Nu6_3, true),
        _ => panic!("unknown regime {regime}"),
    }
}

fn version_of(s: &str) -> TxVersion {
    match s {
        "V3" => TxVersion::V3,
        "V4" => TxVersion::V4,
        "V5" => TxVersion::V5,
        "V6" => TxVersion::V6,
        _ => panic!("unknown version {s}"),
    }
}

fn padding_of(s: &str) -> BundlePadding {
    match s {
        "default" => BundlePadding::DEFAULT,
        "unpadded" => BundlePadding::UNPADDED,
        "required" => BundlePadding { bundle_required: true, pad_to_minimum: None },
        "required1" => BundlePadding { bundle_required: true, pad_to_minimum: Some(1) },
        _ => panic!("unknown padding {s}"),
    }
}

// =================================================================================================
// keys
// =================================================================================================

fn tsk(tag: u8, i: u8) -> (secp256k1::SecretKey, secp256k1::PublicKey) {
    let secp = secp256k1::Secp256k1::signing_only();
    let mut b = [0x31u8; 32];
    b[0] = tag;
    b[1] = i;
    let sk = secp256k1::SecretKey::from_slice(&b).expect("valid key");
    (sk, sk.public_key(&secp))
}

fn hash160(b: &[u8]) -> [u8; 20] {
    zcash_transparent::util::hash160::hash(b)
}

fn p2pkh_script(pk: &secp256k1::PublicKey) -> Vec<u8> {
    let mut v = vec![0x76, 0xa9, 0x14];
    v.extend_from_slice(&hash160(&pk.serialize()));
    v.extend_from_slice(&[0x88, 0xac]);
    v
}

fn multisig_redeem(k: u8, pks: &[secp256k1::PublicKey]) -> Vec<u8> {
    let mut v = vec![0x50 + k];
    for pk in pks {
        v.push(33);
        v.extend_from_slice(&pk.serialize());
    }
    v.push(0x50 + pks.len() as u8);
    v.push(0xae);
    v
}

fn p2sh_script(redeem: &[u8]) -> Vec<u8> {
    let mut v = vec![0xa9, 0x14];
    v.extend_from_slice(&hash160(redeem));
    v.push(0x87);
    v
}

fn to_script(bytes: Vec<u8>) -> Script {
    Script(script::Code(bytes))
}

struct SaplingKeys {
    extsk: sapling::zip32::ExtendedSpendingKey,
    fvk: sapling::keys::FullViewingKey,
    addr: sapling::PaymentAddress,
}

fn sapling_keys(tag: &str, j: usize) -> SaplingKeys {
    let extsk = sapling::zip32::ExtendedSpendingKey::master(format!("c14 sapling {tag} {j}").as_bytes());
    let dfvk = extsk.to_diversifiable_full_viewing_key();
    let addr = dfvk.default_address().1;
    SaplingKeys { fvk: dfvk.fvk().clone(), extsk, addr }
}

struct OrchardKeys {
    sk: orchard::keys::SpendingKey,
    fvk: orchard::keys::FullViewingKey,
}

fn orchard_keys(tag: u8, j: usize) -> OrchardKeys {
    let mut b = [0x17u8; 32];
    b[0] = tag;
    b[1] = j as u8;
    loop {
        if let Some(sk) = Option::<orchard::keys::SpendingKey>::from(orchard::keys::SpendingKey::from_bytes(b)) {
            return OrchardKeys { fvk: orchard::keys::FullViewingKey::from(&sk), sk };
        }
        b[2] = b[2].wrapping_add(1);
    }
}

fn memo_for(pool: char, j: usize, value: u64) -> MemoBytes {
    if j % 3 == 2 {
        MemoBytes::empty()
    } else {
        MemoBytes::from_bytes(format!("C14 {pool}{j} pays {value}").as_bytes()).expect("short memo")
    }
}

// =================================================================================================
// tiny real commitment trees
// =================================================================================================

/// A tiny commitment tree: `decoys` leaves, then `leaves`, then one more decoy.  Returns the root and
/// the authentication path of every leaf, computed level by level with the pool's own `combine`.
fn tree_with<H: Hashable + Clone + PartialEq + std::fmt::Debug>(
    decoy: impl Fn(usize) -> H,
    decoys: usize,
    leaves: &[H],
) -> (H, Vec<incrementalmerkletree::MerklePath<H, 32>>) {
    let mut level: Vec<H> = (0..decoys).map(&decoy).chain(leaves.iter().cloned()).chain(std::iter::once(decoy(decoys + leaves.len()))).collect();
    let mut idx: Vec<usize> = (0..leaves.len()).map(|i| decoys + i).collect();
    let mut paths: Vec<Vec<H>> = vec![vec![]; leaves.len()];
    for l in 0..32u8 {
        let lv = incrementalmerkletree::Level::from(l);
        for (i, pos) in idx.iter_mut().enumerate() {
            paths[i].push(level.get(*pos ^ 1).cloned().unwrap_or_else(|| H::empty_root(lv)));
            *pos /= 2;
        }
        level = level.chunks(2).map(|c| H::combine(lv, &c[0], c.get(1).unwrap_or(&H::empty_root(lv)))).collect();
    }
    let root = level.remove(0);
    let paths = paths
        .into_iter()
        .enumerate()
        .map(|(i, p)| incrementalmerkletree::MerklePath::from_parts(p, Position::from((decoys + i) as u64)).expect("32 levels"))
        .collect();
    (root, paths)
}

/// The same tree in a shardtree (cross-check of the computation above on a sample of the cases).
fn tree_with_shardtree<H: Hashable + Clone + PartialEq + std::fmt::Debug>(
    decoy: impl Fn(usize) -> H,
    decoys: usize,
    leaves: &[H],
) -> (H, Vec<incrementalmerkletree::MerklePath<H, 32>>) {
    let mut tree = ShardTree::<_, 32, 16>::new(MemoryShardStore::<H, u32>::empty(), 100);
    for i in 0..decoys {
        tree.append(decoy(i), Retention::Ephemeral).expect("append");
    }
    for l in leaves {
        tree.append(l.clone(), Retention::Marked).expect("append");
    }
    tree.append(decoy(decoys + leaves.len()), Retention::Ephemeral).expect("append");
    tree.checkpoint(1u32).expect("checkpoint");
    let root = tree.root_at_checkpoint_depth(Some(0)).expect("root").expect("root present");
    let paths = (0..leaves.len())
        .map(|i| tree.witness_at_checkpoint_depth(Position::from((decoys + i) as u64), 0).expect("witness").expect("witness present"))
        .collect();
    (root, paths)
}

fn checked_tree<H: Hashable + Clone + PartialEq + std::fmt::Debug>(
    cross_check: bool,
    decoy: impl Fn(usize) -> H + Copy,
    decoys: usize,
    leaves: &[H],
) -> (H, Vec<incrementalmerkletree::MerklePath<H, 32>>) {
    let r = tree_with(decoy, decoys, leaves);
    if cross_check {
        let s = tree_with_shardtree(decoy, decoys, leaves);
        assert!(r.0 == s.0 && r.1 == s.1, "harness: own tree computation disagrees with shardtree");
    }
    r
}

fn rand32(rng: &mut ChaCha20Rng) -> [u8; 32] {
    let mut b = [0u8; 32];
    rng.fill_bytes(&mut b);
    b
}

fn orchard_note(
    rng: &mut ChaCha20Rng,
    addr: orchard::Address,
    value: u64,
    version: orchard::note::NoteVersion,
) -> orchard::Note {
    loop {
        let mut rb = rand32(rng);
        rb[31] &= 0x3f;
        let Some(rho) = Option::<orchard::note::Rho>::from(orchard::note::Rho::from_bytes(&rb)) else { continue };
        let Some(rseed) = Option::<orchard::note::RandomSeed>::from(orchard::note::RandomSeed::from_bytes(rand32(rng), &rho))
        else {
            continue;
        };
        if let Some(n) = Option::<orchard::Note>::from(orchard::Note::from_parts(
            addr,
            orchard::value::NoteValue::from_raw(value),
            rho,
            rseed,
            version,
        )) {
            return n;
        }
    }
}

fn orchard_leaf(n: &orchard::Note) -> MerkleHashOrchard {
    let cmx: orchard::note::ExtractedNoteCommitment = n.commitment().into();
    MerkleHashOrchard::from_cmx(&cmx)
}

// =================================================================================================
// materialisation of an abstract request
// =================================================================================================

#[derive(Clone)]
struct TIn {
    kind: String,
    value: u64,
    utxo: OutPoint,
    coin: TxOut,
    spend_info: SpendInfo,
    /// all keys of the coin (1 for P2PKH, n for multisig, in script order) and the threshold
    keys: Vec<(secp256k1::SecretKey, secp256k1::PublicKey)>,
    k: usize,
}

struct ShOut<A: 'static, K: 'static> {
    addr: A,
    ivk: &'static K,
    value: u64,
    memo: MemoBytes,
}

/// Keys, recipient addresses and decoy leaves are the same for every request: derived once.
struct OrchardFix {
    spender: OrchardKeys,
    from: orchard::Address,
    decoys: Vec<MerkleHashOrchard>,
    empty_root: MerkleHashOrchard,
    recips: Vec<(orchard::Address, orchard::keys::PreparedIncomingViewingKey)>,
    change: Vec<orchard::Address>,
    internal_ivk: orchard::keys::PreparedIncomingViewingKey,
}
struct SaplingFix {
    spender: SaplingKeys,
    decoys: Vec<sapling::Node>,
    empty_root: sapling::Node,
    recips: Vec<(sapling::PaymentAddress, sapling::keys::PreparedIncomingViewingKey)>,
}
struct Fixtures {
    s: SaplingFix,
    o: OrchardFix,
    i: OrchardFix,
}

fn orchard_fix(tag: u8, version: orchard::note::NoteVersion) -> OrchardFix {
    let mut rng = ChaCha20Rng::seed_from_u64(0xC14_0000 + tag as u64);
    let spender = orchard_keys(tag, 0);
    let from = spender.fvk.address_at(0u32, orchard::keys::Scope::External);
    let decoy_addr = orchard_keys(tag + 1, 0).fvk.address_at(0u32, orchard::keys::Scope::External);
    let decoys: Vec<MerkleHashOrchard> = (0..8).map(|i| orchard_leaf(&orchard_note(&mut rng, decoy_addr, 9 + i as u64, version))).collect();
    let (empty_root, _) = tree_with(|i| decoys[i % 8].clone(), 3, &[]);
    let recips = (0..4)
        .map(|j| {
            let k = orchard_keys(tag + 2, j);
            (
                k.fvk.address_at(j as u32, orchard::keys::Scope::External),
                orchard::keys::PreparedIncomingViewingKey::new(&k.fvk.to_ivk(orchard::keys::Scope::External)),
            )
        })
        .collect();
    let change = (0..4).map(|j| spender.fvk.address_at(7 + j as u32, orchard::keys::Scope::Internal)).collect();
    let internal_ivk = orchard::keys::PreparedIncomingViewingKey::new(&spender.fvk.to_ivk(orchard::keys::Scope::Internal));
    OrchardFix { spender, from, decoys, empty_root, recips, change, internal_ivk }
}

fn fixtures() -> &'static Fixtures {
    static F: std::sync::OnceLock<Fixtures> = std::sync::OnceLock::new();
    F.get_or_init(|| {
        let mut rng = ChaCha20Rng::seed_from_u64(0xC14_5A);
        let decoy_addr = sapling_keys("decoy", 0).addr;
        let decoys: Vec<sapling::Node> = (0..8)
            .map(|i| {
                sapling::Node::from_cmu(
                    &decoy_addr.create_note(sapling::value::NoteValue::from_raw(5 + i as u64), sapling::Rseed::AfterZip212(rand32(&mut rng))).cmu(),
                )
            })
            .collect();
        let (empty_root, _) = tree_with(|i| decoys[i % 8].clone(), 2, &[]);
        let recips = (0..4)
            .map(|j| {
                let k = sapling_keys("recipient", j);
                (k.addr, sapling::keys::PreparedIncomingViewingKey::new(&k.fvk.vk.ivk()))
            })
            .collect();
        Fixtures {
            s: SaplingFix { spender: sapling_keys("spender", 0), decoys, empty_root, recips },
            o: orchard_fix(b'o', orchard::note::NoteVersion::V2),
            i: orchard_fix(b'i', orchard::note::NoteVersion::V3),
        }
    })
}

struct Mat {
    height: u32,
    branch: BranchId,
    zip212: bool,
    tin: Vec<TIn>,
    tout: Vec<(TransparentAddress, Script, u64)>,
    s_spender: &'static SaplingKeys,
    s_spends: Vec<(sapling::Note, sapling::MerklePath, u64)>,
    s_anchor: sapling::Anchor,
    s_outs: Vec<ShOut<sapling::PaymentAddress, sapling::keys::PreparedIncomingViewingKey>>,
    o_spender: &'static OrchardKeys,
    o_spends: Vec<(orchard::Note, orchard::tree::MerklePath)>,
    o_anchor: orchard::Anchor,
    o_outs: Vec<ShOut<orchard::Address, orchard::keys::PreparedIncomingViewingKey>>,
    o_chg: Vec<ShOut<orchard::Address, orchard::keys::PreparedIncomingViewingKey>>,
    i_spender: &'static OrchardKeys,
    i_spends: Vec<(orchard::Note, orchard::tree::MerklePath)>,
    i_anchor: orchard::Anchor,
    i_outs: Vec<ShOut<orchard::Address, orchard::keys::PreparedIncomingViewingKey>>,
}

fn u64s(v: &J) -> Vec<u64> {
    v.as_array().expect("array").iter().map(|x| x.as_u64().expect("non-negative amount")).collect()
}

fn strs(v: &J) -> Vec<String> {
    v.as_array().expect("array").iter().map(|x| x.as_str().expect("string").to_string()).collect()
}

fn make_tin(j: usize, kind: &str, value: u64) -> TIn {
    let utxo = OutPoint::new([0x60 + j as u8; 32], 3 + j as u32);
    let (keys, k, script_pubkey, spend_info) = match kind {
        "pkh" => {
            let key = tsk(0xA0, j as u8);
            let spk = p2pkh_script(&key.1);
            (vec![key], 1, spk, SpendInfo::P2pkh { pubkey: key.1 })
        }
        "sh12" | "sh23" => {
            let (k, n) = if kind == "sh12" { (1usize, 2usize) } else { (2, 3) };
            let keys: Vec<_> = (0..n).map(|i| tsk(0xB0 + j as u8, i as u8)).collect();
            let redeem = multisig_redeem(k as u8, &keys.iter().map(|x| x.1).collect::<Vec<_>>());
            let spk = p2sh_script(&redeem);
            let redeem_script = script::FromChain::parse(&script::Code(redeem)).expect("redeem script parses");
            (keys, k, spk, SpendInfo::P2sh { redeem_script })
        }
        _ => panic!("unknown coin kind {kind}"),
    };
    let coin = TxOut::new(Zatoshis::from_u64(value).expect("amount"), to_script(script_pubkey));
    TIn { kind: kind.to_string(), value, utxo, coin, spend_info, keys, k }
}

fn materialise(q: &J, rng: &mut ChaCha20Rng, cross_check: bool) -> Mat {
    let (height, branch, zip212) = height_of(q["regime"].as_str().unwrap(), q["hsel"].as_u64().unwrap());
    let tin: Vec<TIn> =
        strs(&q["tin"]).iter().zip(u64s(&q["tinV"])).enumerate().map(|(j, (k, v))| make_tin(j, k, v)).collect();
    let tout = strs(&q["tout"])
        .iter()
        .zip(u64s(&q["toutV"]))
        .enumerate()
        .map(|(j, (k, v))| {
            let pk = tsk(0xC0, j as u8).1;
            let addr = if k == "pkh" {
                TransparentAddress::PublicKeyHash(hash160(&pk.serialize()))
            } else {
                TransparentAddress::ScriptHash(hash160(&multisig_redeem(1, &[pk])))
            };
            let spk = if k == "pkh" { p2pkh_script(&pk) } else { p2sh_script(&multisig_redeem(1, &[pk])) };
            (addr, to_script(spk), v)
        })
        .collect();

    // Sapling
    let fx = fixtures();
    let s_spender = &fx.s.spender;
    let s_notes: Vec<sapling::Note> = u64s(&q["sInV"])
        .iter()
        .map(|v| s_spender.addr.create_note(sapling::value::NoteValue::from_raw(*v), sapling::Rseed::AfterZip212(rand32(rng))))
        .collect();
    let (s_root, s_paths) = if s_notes.is_empty() {
        (fx.s.empty_root.clone(), vec![])
    } else {
        let s_leaves: Vec<sapling::Node> = s_notes.iter().map(|n| sapling::Node::from_cmu(&n.cmu())).collect();
        checked_tree(cross_check, |i| fx.s.decoys[i % 8].clone(), 2, &s_leaves)
    };
    let s_spends = s_notes.into_iter().zip(s_paths).zip(u64s(&q["sInV"])).map(|((n, p), v)| (n, p, v)).collect();
    let s_outs = u64s(&q["sOutV"])
        .iter()
        .enumerate()
        .map(|(j, v)| ShOut { addr: fx.s.recips[j].0, ivk: &fx.s.recips[j].1, value: *v, memo: memo_for('s', j, *v) })
        .collect();

    // Orchard and Ironwood
    let pool = |f: &'static OrchardFix, tag: char, version: orchard::note::NoteVersion, in_v: &J, out_v: &J, chg_v: Option<&J>, rng: &mut ChaCha20Rng| {
        let notes: Vec<orchard::Note> = u64s(in_v).iter().map(|v| orchard_note(rng, f.from, *v, version)).collect();
        let (root, paths) = if notes.is_empty() {
            (f.empty_root.clone(), vec![])
        } else {
            let leaves: Vec<MerkleHashOrchard> = notes.iter().map(orchard_leaf).collect();
            checked_tree(cross_check, |i| f.decoys[i % 8].clone(), 3, &leaves)
        };
        let spends: Vec<(orchard::Note, orchard::tree::MerklePath)> = notes.into_iter().zip(paths.into_iter().map(|p| p.into())).collect();
        let outs: Vec<_> = u64s(out_v)
            .iter()
            .enumerate()
            .map(|(j, v)| ShOut { addr: f.recips[j].0, ivk: &f.recips[j].1, value: *v, memo: memo_for(tag, j, *v) })
            .collect();
        let chg: Vec<_> = chg_v
            .map(|c| {
                u64s(c)
                    .iter()
                    .enumerate()
                    .map(|(j, v)| ShOut { addr: f.change[j], ivk: &f.internal_ivk, value: *v, memo: memo_for('c', j, *v) })
                    .collect()
            })
            .unwrap_or_default();
        (&f.spender, spends, orchard::Anchor::from(root), outs, chg)
    };
    let (o_spender, o_spends, o_anchor, o_outs, o_chg) =
        pool(&fx.o, 'o', orchard::note::NoteVersion::V2, &q["oInV"], &q["oOutV"], Some(&q["oChgV"]), rng);
    let (i_spender, i_spends, i_anchor, i_outs, _) = pool(&fx.i, 'i', orchard::note::NoteVersion::V3, &q["iInV"], &q["iOutV"], None, rng);

    Mat {
        height,
        branch,
        zip212,
        tin,
        tout,
        s_spender,
        s_spends,
        s_anchor: sapling::Anchor::from(s_root),
        s_outs,
        o_spender,
        o_spends,
        o_anchor,
        o_outs,
        o_chg,
        i_spender,
        i_spends,
        i_anchor,
        i_outs,
    }
}

fn build_config(q: &J, m: &Mat) -> BuildConfig {
    let a = &q["anch"];
    BuildConfig::Standard {
        sapling_anchor: a["s"].as_bool().unwrap().then_some(m.s_anchor),
        orchard_anchor: a["o"].as_bool().unwrap().then_some(m.o_anchor),
        ironwood_anchor: a["i"].as_bool().unwrap().then_some(m.i_anchor),
        orchard_padding: padding_of(q["opad"].as_str().unwrap()),
        ironwood_padding: padding_of(q["ipad"].as_str().unwrap()),
    }
}

// =================================================================================================
// outcomes
// =================================================================================================

/// Class of a builder error (+ the amount where the property names it).
fn class_of<FE: std::fmt::Debug>(e: &BErr<FE>) -> (String, i64) {
    use orchard::builder::{BuildError, OutputError};
    match e {
        BErr::InsufficientFunds(a) => ("insufficient".into(), i64::from(*a)),
        BErr::ChangeRequired(a) => ("change".into(), i64::from(*a)),
        BErr::TargetIncompatible(..)
        | BErr::SaplingBuilderNotAvailable
        | BErr::OrchardBuilderNotAvailable
        | BErr::IronwoodBuilderNotAvailable
        | BErr::AnchorDeferralUnsupported(_) => ("unsupported".into(), 0),
        BErr::OrchardRecipient(OutputError::CrossAddressDisabled) | BErr::OrchardBuild(BuildError::CrossAddressDisabled) => {
            ("unsupported".into(), 0)
        }
        BErr::SaplingBuild(sapling::builder::Error::PcztRequiresZip212) => ("pczt_zip212".into(), 0),
        BErr::TransparentBuild(zcash_transparent::builder::Error::MissingSigningKey) => ("missing_key".into(), 0),
        other => (format!("other:{other:?}"), 0),
    }
}

fn got(k: &str, amt: i64) -> J {
    json!({"k": k, "amt": amt})
}

/// The refusals the specification justifies for this request on the given path.
fn justified(x: &J, path: &str) -> Vec<J> {
    let mut r = vec![];
    if x["k"] == "unsupported" {
        r.push(got("unsupported", 0));
    }
    if x["altK"] != "ok" {
        r.push(got(x["altK"].as_str().unwrap(), x["altAmt"].as_i64().unwrap()));
    }
    if path == "pczt" && x["pcztRefused"].as_bool().unwrap() {
        r.push(got("pczt_zip212", 0));
    }
    if path == "build" && !x["signOk"].as_bool().unwrap() {
        r.push(got("missing_key", 0));
    }
    r
}

/// Compares an outcome with the specification; `None` = allowed.
fn judge_outcome(x: &J, path: &str, outcome: &J) -> Option<String> {
    let allowed = justified(x, path);
    let k = outcome["k"].as_str().unwrap();
    if k == "panic" {
        return Some(format!("{path}: panic: {}", outcome["msg"]));
    }
    if allowed.is_empty() {
        if k == "ok" { None } else { Some(format!("{path}: the specification says Ok, the code refused with {outcome}")) }
    } else if k == "ok" {
        Some(format!("{path}: the code emitted a transaction, the specification justifies only {}", J::Array(allowed)))
    } else if allowed.iter().any(|a| a["k"] == outcome["k"] && a["amt"] == outcome["amt"]) {
        None
    } else {
        Some(format!("{path}: refused with {outcome}, the specification justifies only {}", J::Array(allowed)))
    }
}

// =================================================================================================
// populating a builder
// =================================================================================================

type B = Builder<LocalNetwork, ()>;

/// Adds everything the request asks for; `Err` = (class, stage) of the first refusal.
fn populate<FE: std::fmt::Debug>(b: &mut B, q: &J, m: &Mat) -> Result<(), (String, String)> {
    let pv = q["pv"].as_str().unwrap();
    let when = q["pvWhen"].as_str().unwrap();
    let propose = |b: &mut B, stage: &str| -> Result<(), (String, String)> {
        if pv != "none" {
            b.propose_version::<FE>(version_of(pv)).map_err(|e| (class_of(&e).0, stage.to_string()))?;
        }
        Ok(())
    };
    let cls = |e: BErr<FE>, stage: &str| (class_of(&e).0, stage.to_string());
    if when == "before" {
        propose(b, "propose_before")?;
    }
    for (j, t) in m.tin.iter().enumerate() {
        // alternate between the two ways of adding a coin
        let r = if j % 2 == 0 {
            match &t.spend_info {
                SpendInfo::P2pkh { pubkey } => b.add_transparent_p2pkh_input(*pubkey, t.utxo.clone(), t.coin.clone()),
                SpendInfo::P2sh { redeem_script } => b.add_transparent_p2sh_input(redeem_script.clone(), t.utxo.clone(), t.coin.clone()),
            }
        } else {
            TransparentInputInfo::from_parts(t.utxo.clone(), t.coin.clone(), t.spend_info.clone()).map(|i| b.add_transparent_input(i))
        };
        r.map_err(|e| (format!("other:t:{e:?}"), "add_tin".to_string()))?;
    }
    for (addr, _, v) in &m.tout {
        b.add_transparent_output(addr, Zatoshis::from_u64(*v).unwrap()).map_err(|e| (format!("other:t:{e:?}"), "add_tout".to_string()))?;
    }
    for (n, p, _) in &m.s_spends {
        b.add_sapling_spend::<FE>(m.s_spender.fvk.clone(), n.clone(), p.clone()).map_err(|e| cls(e, "add_sapling_spend"))?;
    }
    for o in &m.s_outs {
        b.add_sapling_output::<FE>(Some(m.s_spender.fvk.ovk), o.addr, Zatoshis::from_u64(o.value).unwrap(), o.memo.clone())
            .map_err(|e| cls(e, "add_sapling_output"))?;
    }
    for (n, p) in &m.o_spends {
        b.add_orchard_spend::<FE>(m.o_spender.fvk.clone(), *n, p.clone()).map_err(|e| cls(e, "add_orchard_spend"))?;
    }
    for o in &m.o_outs {
        b.add_orchard_output::<FE>(
            Some(m.o_spender.fvk.to_ovk(orchard::keys::Scope::External)),
            o.addr,
            Zatoshis::from_u64(o.value).unwrap(),
            o.memo.clone(),
        )
        .map_err(|e| cls(e, "add_orchard_output"))?;
    }
    for o in &m.o_chg {
        b.add_orchard_change_output::<FE>(
            m.o_spender.fvk.clone(),
            Some(m.o_spender.fvk.to_ovk(orchard::keys::Scope::Internal)),
            o.addr,
            Zatoshis::from_u64(o.value).unwrap(),
            o.memo.clone(),
        )
        .map_err(|e| cls(e, "add_orchard_change"))?;
    }
    for (n, p) in &m.i_spends {
        b.add_ironwood_spend::<FE>(m.i_spender.fvk.clone(), *n, p.clone()).map_err(|e| cls(e, "add_ironwood_spend"))?;
    }
    for o in &m.i_outs {
        b.add_ironwood_output::<FE>(
            Some(m.i_spender.fvk.to_ovk(orchard::keys::Scope::External)),
            o.addr,
            Zatoshis::from_u64(o.value).unwrap(),
            o.memo.clone(),
        )
        .map_err(|e| cls(e, "add_ironwood_output"))?;
    }
    if when == "after" {
        propose(b, "propose_after")?;
    }
    Ok(())
}

fn sorted(mut v: Vec<u64>) -> Vec<u64> {
    v.sort();
    v
}

/// requested nonzero values padded with zeros up to `n`
fn with_zeros(req: &[u64], n: usize) -> Vec<u64> {
    let mut v: Vec<u64> = req.to_vec();
    while v.len() < n {
        v.push(0);
    }
    sorted(v)
}

// =================================================================================================
// recipients: trial decryption
// =================================================================================================

struct Recip<'a, K> {
    ivk: &'a K,
    addr: Vec<u8>,
    value: u64,
    memo: [u8; 512],
}

/// Every requested recipient finds exactly one output with its address, value and memo; no other
/// output of the bundle opens under any recipient key.
fn check_recipients<K>(
    pool: &str,
    n_outputs: usize,
    recips: &[Recip<K>],
    dec: impl Fn(usize, &K) -> Option<(u64, Vec<u8>, [u8; 512])>,
    errs: &mut Vec<String>,
) {
    let mut opened: BTreeSet<usize> = BTreeSet::new();
    let mut claimed: BTreeSet<usize> = BTreeSet::new();
    for (j, r) in recips.iter().enumerate() {
        let mut mine = vec![];
        for idx in 0..n_outputs {
            if let Some((v, a, memo)) = dec(idx, r.ivk) {
                opened.insert(idx);
                if a == r.addr {
                    mine.push((idx, v, memo));
                }
            }
        }
        match mine.as_slice() {
            [(idx, v, memo)] => {
                if *v != r.value {
                    errs.push(format!("{pool} recipient {j} decrypts value {v}, requested {}", r.value));
                }
                if memo[..] != r.memo[..] {
                    errs.push(format!("{pool} recipient {j} decrypts a memo that is not the requested one"));
                }
                if !claimed.insert(*idx) {
                    errs.push(format!("{pool} output {idx} serves two recipients"));
                }
            }
            [] => errs.push(format!("{pool} recipient {j} (value {}) cannot decrypt any output", r.value)),
            more => errs.push(format!("{pool} recipient {j} decrypts {} outputs", more.len())),
        }
    }
    if opened.len() > recips.len() {
        errs.push(format!("{pool}: {} outputs open under recipient keys, {} were requested", opened.len(), recips.len()));
    }
}

struct SapOut {
    epk: [u8; 32],
    cmu: [u8; 32],
    enc: [u8; 580],
}
impl ShieldedOutput<sapling::note_encryption::SaplingDomain, 580> for SapOut {
    fn ephemeral_key(&self) -> EphemeralKeyBytes {
        EphemeralKeyBytes(self.epk)
    }
    fn cmstar_bytes(&self) -> [u8; 32] {
        self.cmu
    }
    fn enc_ciphertext(&self) -> &[u8; 580] {
        &self.enc
    }
}

fn zip212_of(m: &Mat) -> sapling::note_encryption::Zip212Enforcement {
    if m.zip212 { sapling::note_encryption::Zip212Enforcement::On } else { sapling::note_encryption::Zip212Enforcement::Off }
}

fn sapling_recips(m: &Mat) -> Vec<Recip<'_, sapling::keys::PreparedIncomingViewingKey>> {
    m.s_outs.iter().map(|o| Recip { ivk: o.ivk, addr: o.addr.to_bytes().to_vec(), value: o.value, memo: *o.memo.as_array() }).collect()
}

fn orchard_recips<'a>(
    outs: &'a [ShOut<orchard::Address, orchard::keys::PreparedIncomingViewingKey>],
    chg: &'a [ShOut<orchard::Address, orchard::keys::PreparedIncomingViewingKey>],
) -> Vec<Recip<'a, orchard::keys::PreparedIncomingViewingKey>> {
    outs.iter()
        .chain(chg.iter())
        .map(|o| Recip { ivk: o.ivk, addr: o.addr.to_raw_address_bytes().to_vec(), value: o.value, memo: *o.memo.as_array() })
        .collect()
}

// =================================================================================================
// checks on the parts of a partial transaction
// =================================================================================================

fn orchard_value_sum(b: &orchard::pczt::Bundle) -> i64 {
    i64::try_from(*b.value_sum()).expect("value sum fits")
}

fn check_orchard_parts(
    pool: &str,
    ironwood: bool,
    bundle: Option<&orchard::pczt::Bundle>,
    want_actions: u64,
    want_vb: i64,
    spends: &[(orchard::Note, orchard::tree::MerklePath)],
    spender: &OrchardKeys,
    recips: &[Recip<orchard::keys::PreparedIncomingViewingKey>],
    errs: &mut Vec<String>,
) {
    let n = bundle.map_or(0, |b| b.actions().len());
    if n as u64 != want_actions {
        errs.push(format!("{pool}: {n} actions, the padded shape has {want_actions}"));
    }
    let Some(b) = bundle else {
        if want_vb != 0 {
            errs.push(format!("{pool}: no bundle although the pool's balance is {want_vb}"));
        }
        return;
    };
    if orchard_value_sum(b) != want_vb {
        errs.push(format!("{pool}: value_sum {} instead of {want_vb}", orchard_value_sum(b)));
    }
    let sv: Vec<Option<u64>> = b.actions().iter().map(|a| a.spend().value().map(|v| v.inner())).collect();
    let ov: Vec<Option<u64>> = b.actions().iter().map(|a| a.output().value().map(|v| v.inner())).collect();
    if sv.iter().chain(ov.iter()).any(|v| v.is_none()) {
        errs.push(format!("{pool}: an action lacks its spend or output value"));
        return;
    }
    let sv: Vec<u64> = sv.into_iter().flatten().collect();
    let ov: Vec<u64> = ov.into_iter().flatten().collect();
    let want_s = with_zeros(&spends.iter().map(|(n, _)| n.value().inner()).collect::<Vec<_>>(), n);
    if sorted(sv.clone()) != want_s {
        errs.push(format!("{pool}: spend values {sv:?}, requested {want_s:?} (rest zero-valued dummies)"));
    }
    let want_o = with_zeros(&recips.iter().map(|r| r.value).collect::<Vec<_>>(), n);
    if sorted(ov.clone()) != want_o {
        errs.push(format!("{pool}: output values {ov:?}, requested {want_o:?} (rest zero-valued dummies)"));
    }
    // every requested note is spent exactly once
    for (j, (note, _)) in spends.iter().enumerate() {
        let nf = note.nullifier(&spender.fvk);
        let c = b.actions().iter().filter(|a| *a.spend().nullifier() == nf).count();
        if c != 1 {
            errs.push(format!("{pool}: requested spend {j} appears in {c} actions"));
        }
    }
    let dec = |idx: usize, ivk: &orchard::keys::PreparedIncomingViewingKey| {
        let a = &b.actions()[idx];
        let r = if ironwood {
            try_note_decryption(&orchard::note_encryption::IronwoodDomain::for_pczt_action(a), ivk, a)
        } else {
            try_note_decryption(&orchard::note_encryption::OrchardDomain::for_pczt_action(a), ivk, a)
        };
        r.map(|(n, addr, memo)| (n.value().inner(), addr.to_raw_address_bytes().to_vec(), memo))
    };
    check_recipients(pool, n, recips, dec, errs);
}

/// Checks the parts `build_for_pczt` returned against the specification's Ok record.
fn check_parts(q: &J, x: &J, m: &Mat, parts: &PcztParts<LocalNetwork>, deferred: bool) -> Vec<String> {
    let mut errs = vec![];
    let sh = &x["shape"];
    let vb = &x["vb"];
    let who = if deferred { "deferred pczt" } else { "pczt" };
    let want_ver = if deferred { TxVersion::V6 } else { version_of(x["ver"].as_str().unwrap()) };
    if parts.version != want_ver {
        errs.push(format!("{who}: version {:?}, expected {want_ver:?}", parts.version));
    }
    if parts.consensus_branch_id != m.branch {
        errs.push(format!("{who}: branch {:?}, expected {:?}", parts.consensus_branch_id, m.branch));
    }
    if u32::from(parts.expiry_height) != m.height + 40 || parts.lock_time != 0 {
        errs.push(format!("{who}: expiry {} lock_time {}", u32::from(parts.expiry_height), parts.lock_time));
    }
    // transparent: order preserved
    let (tin, tout): (Vec<_>, Vec<_>) = match &parts.transparent {
        Some(t) => (t.inputs().iter().collect(), t.outputs().iter().collect()),
        None => (vec![], vec![]),
    };
    if tin.len() as u64 != sh["tin"].as_u64().unwrap() || tout.len() as u64 != sh["tout"].as_u64().unwrap() {
        errs.push(format!("{who}: {} transparent inputs / {} outputs, requested {} / {}", tin.len(), tout.len(), sh["tin"], sh["tout"]));
    } else {
        for (j, (i, want)) in tin.iter().zip(&m.tin).enumerate() {
            let redeem_ok = match (&want.spend_info, i.redeem_script()) {
                (SpendInfo::P2pkh { .. }, None) => true,
                (SpendInfo::P2sh { redeem_script }, Some(r)) => r.to_bytes() == redeem_script.to_bytes(),
                _ => false,
            };
            if u64::from(*i.value()) != want.value
                || i.script_pubkey().to_bytes() != want.coin.script_pubkey().0.0
                || i.prevout_txid().as_ref() != want.utxo.hash()
                || *i.prevout_index() != want.utxo.n()
                || !redeem_ok
                || i.sighash_type().encode() != 1
            {
                errs.push(format!("{who}: transparent input {j} is not the requested coin"));
            }
        }
        for (j, (o, want)) in tout.iter().zip(&m.tout).enumerate() {
            if u64::from(*o.value()) != want.2 || o.script_pubkey().to_bytes() != want.1.0.0 {
                errs.push(format!("{who}: transparent output {j} is not the requested one"));
            }
        }
    }
    let t_bal: i64 = tin.iter().map(|i| u64::from(*i.value()) as i64).sum::<i64>() - tout.iter().map(|o| u64::from(*o.value()) as i64).sum::<i64>();
    // Sapling
    let (ns, no) = parts.sapling.as_ref().map_or((0, 0), |s| (s.spends().len(), s.outputs().len()));
    if ns as u64 != sh["ss"].as_u64().unwrap() || no as u64 != sh["so"].as_u64().unwrap() {
        errs.push(format!("{who}: sapling {ns} spends / {no} outputs, the padded shape has {} / {}", sh["ss"], sh["so"]));
    }
    let mut s_bal = 0i64;
    if let Some(s) = &parts.sapling {
        s_bal = s.value_sum().to_raw() as i64;
        let sv: Vec<u64> = s.spends().iter().filter_map(|x| x.value().map(|v| v.inner())).collect();
        let ov: Vec<u64> = s.outputs().iter().filter_map(|x| x.value().map(|v| v.inner())).collect();
        if sv.len() != ns || ov.len() != no {
            errs.push(format!("{who}: a sapling spend or output lacks its value"));
        }
        let want_s = with_zeros(&m.s_spends.iter().map(|x| x.2).collect::<Vec<_>>(), ns);
        let want_o = with_zeros(&m.s_outs.iter().map(|x| x.value).collect::<Vec<_>>(), no);
        if sorted(sv.clone()) != want_s {
            errs.push(format!("{who}: sapling spend values {sv:?}, requested {want_s:?}"));
        }
        if sorted(ov.clone()) != want_o {
            errs.push(format!("{who}: sapling output values {ov:?}, requested {want_o:?}"));
        }
        for (j, (note, path, _)) in m.s_spends.iter().enumerate() {
            let nf = note.nf(&m.s_spender.fvk.vk.nk, u64::from(path.position()));
            let c = s.spends().iter().filter(|sp| *sp.nullifier() == nf).count();
            if c != 1 {
                errs.push(format!("{who}: requested sapling spend {j} appears {c} times"));
            }
        }
        let outs: Vec<SapOut> = s
            .outputs()
            .iter()
            .map(|o| SapOut { epk: o.ephemeral_key().0, cmu: o.cmu().to_bytes(), enc: *o.enc_ciphertext() })
            .collect();
        let z = zip212_of(m);
        check_recipients(
            "sapling",
            no,
            &sapling_recips(m),
            |idx, ivk| {
                sapling::note_encryption::try_sapling_note_decryption(ivk, &outs[idx], z)
                    .map(|(n, a, memo)| (n.value().inner(), a.to_bytes().to_vec(), memo))
            },
            &mut errs,
        );
    }
    if s_bal != vb["s"].as_i64().unwrap() {
        errs.push(format!("{who}: sapling value_sum {s_bal} instead of {}", vb["s"]));
    }
    check_orchard_parts(
        &format!("{who}: orchard"),
        false,
        parts.orchard.as_ref(),
        sh["ao"].as_u64().unwrap(),
        vb["o"].as_i64().unwrap(),
        &m.o_spends,
        &m.o_spender,
        &orchard_recips(&m.o_outs, &m.o_chg),
        &mut errs,
    );
    check_orchard_parts(
        &format!("{who}: ironwood"),
        true,
        parts.ironwood.as_ref(),
        sh["ai"].as_u64().unwrap(),
        vb["i"].as_i64().unwrap(),
        &m.i_spends,
        &m.i_spender,
        &orchard_recips(&m.i_outs, &[]),
        &mut errs,
    );
    let o_bal = parts.orchard.as_ref().map_or(0, orchard_value_sum);
    let i_bal = parts.ironwood.as_ref().map_or(0, orchard_value_sum);
    if t_bal != vb["t"].as_i64().unwrap() {
        errs.push(format!("{who}: transparent balance {t_bal} instead of {}", vb["t"]));
    }
    let fee = x["fee"].as_i64().unwrap();
    if t_bal + s_bal + o_bal + i_bal != fee {
        errs.push(format!("{who}: value balance over all pools {} is not the fee {fee}", t_bal + s_bal + o_bal + i_bal));
    }
    let _ = q;
    errs
}

/// The same partial transaction read through the pczt crate (Creator -> getters -> effects).
fn check_pczt(x: &J, m: &Mat, pczt: &pczt::Pczt, who: &str) -> Vec<String> {
    let mut errs = vec![];
    let sh = &x["shape"];
    let fee = x["fee"].as_i64().unwrap();
    let signed = |v: &(u64, bool)| if v.1 { -(v.0 as i64) } else { v.0 as i64 };
    let t_in: i64 = pczt.transparent().inputs().iter().map(|i| *i.value() as i64).sum();
    let t_out: i64 = pczt.transparent().outputs().iter().map(|o| *o.value() as i64).sum();
    let s = *pczt.sapling().value_sum() as i64;
    let o = signed(pczt.orchard().value_sum());
    let i = signed(pczt.ironwood().value_sum());
    if t_in - t_out + s + o + i != fee {
        errs.push(format!("{who} (pczt crate): value balance over all pools {} is not the fee {fee}", t_in - t_out + s + o + i));
    }
    let counts = [
        pczt.transparent().inputs().len(),
        pczt.transparent().outputs().len(),
        pczt.sapling().spends().len(),
        pczt.sapling().outputs().len(),
        pczt.orchard().actions().len(),
        pczt.ironwood().actions().len(),
    ];
    let want: Vec<u64> = ["tin", "tout", "ss", "so", "ao", "ai"].iter().map(|k| sh[*k].as_u64().unwrap()).collect();
    if counts.iter().map(|c| *c as u64).collect::<Vec<_>>() != want {
        errs.push(format!("{who} (pczt crate): bundle sizes {counts:?}, the padded shape is {want:?}"));
    }
    let want_ver = match x["ver"].as_str().unwrap() {
        "V4" => 4,
        "V5" => 5,
        _ => 6,
    };
    if *pczt.global().tx_version() != want_ver || *pczt.global().expiry_height() != m.height + 40 || *pczt.global().consensus_branch_id() != u32::from(m.branch) {
        errs.push(format!("{who} (pczt crate): global fields {} {} {:x}", pczt.global().tx_version(), pczt.global().expiry_height(), pczt.global().consensus_branch_id()));
    }
    // effects (v5 / v6 only): fee_paid over the coins the request named
    if want_ver >= 5 {
        match guarded(|| pczt.clone().into_effects()) {
            Err(p) => errs.push(format!("{who}: into_effects panicked: {p}")),
            Ok(Err(e)) => errs.push(format!("{who}: into_effects failed: {e:?}")),
            Ok(Ok(tx)) => {
                let paid = tx.fee_paid(|op| Ok::<_, BalanceError>(prevout_value(m, op)));
                if paid != Ok(Some(Zatoshis::from_u64(fee as u64).unwrap())) {
                    errs.push(format!("{who}: effects fee_paid {paid:?}, the fee is {fee}"));
                }
            }
        }
    }
    errs
}

fn prevout_value(m: &Mat, op: &OutPoint) -> Option<Zatoshis> {
    m.tin.iter().find(|t| &t.utxo == op).map(|t| Zatoshis::from_u64(t.value).unwrap())
}

// =================================================================================================
// the built transaction
// =================================================================================================

/// Transparent authorization carrying what ZIP 244 / ZIP 243 signature hashes need to know about the coins.
#[derive(Clone, Debug)]
struct CoinCtx {
    amounts: Vec<Zatoshis>,
    scripts: Vec<Script>,
}
impl tbundle::Authorization for CoinCtx {
    type ScriptSig = Script;
}
impl TransparentAuthorizingContext for CoinCtx {
    fn input_amounts(&self) -> Vec<Zatoshis> {
        self.amounts.clone()
    }
    fn input_scriptpubkeys(&self) -> Vec<Script> {
        self.scripts.clone()
    }
}
struct ToCoinCtx(CoinCtx);
impl tbundle::MapAuth<tbundle::Authorized, CoinCtx> for ToCoinCtx {
    fn map_script_sig(&self, s: Script) -> Script {
        s
    }
    fn map_authorization(&self, _: tbundle::Authorized) -> CoinCtx {
        self.0.clone()
    }
}
struct WithCoins;
impl Authorization for WithCoins {
    type TransparentAuth = CoinCtx;
    type SaplingAuth = sapling::bundle::Authorized;
    type OrchardAuth = orchard::bundle::Authorized;
}

fn hash_type_of(h: &zcash_script::signature::HashType) -> SighashType {
    use zcash_script::signature::SignedOutputs::*;
    match (h.signed_outputs(), h.anyone_can_pay()) {
        (All, false) => SighashType::ALL,
        (All, true) => SighashType::ALL_ANYONECANPAY,
        (Single, false) => SighashType::SINGLE,
        (Single, true) => SighashType::SINGLE_ANYONECANPAY,
        (None, false) => SighashType::NONE,
        (None, true) => SighashType::NONE_ANYONECANPAY,
    }
}

fn check_orchard_bundle(
    pool: &str,
    ironwood: bool,
    bundle: Option<&orchard::Bundle<orchard::bundle::Authorized, zcash_protocol::value::ZatBalance>>,
    want_actions: u64,
    want_vb: i64,
    anchor: &orchard::Anchor,
    spends: &[(orchard::Note, orchard::tree::MerklePath)],
    spender: &OrchardKeys,
    recips: &[Recip<orchard::keys::PreparedIncomingViewingKey>],
    sighash: &[u8; 32],
    vk: Option<&orchard::circuit::VerifyingKey>,
    errs: &mut Vec<String>,
) -> i64 {
    let n = bundle.map_or(0, |b| b.actions().len());
    if n as u64 != want_actions {
        errs.push(format!("{pool}: {n} actions, the padded shape has {want_actions}"));
    }
    let Some(b) = bundle else { return 0 };
    let bal = i64::from(*b.value_balance());
    if bal != want_vb {
        errs.push(format!("{pool}: value balance {bal} instead of {want_vb}"));
    }
    if !spends.is_empty() && b.anchor() != anchor {
        errs.push(format!("{pool}: anchor is not the configured one"));
    }
    for (j, (note, _)) in spends.iter().enumerate() {
        let nf = note.nullifier(&spender.fvk);
        let c = b.actions().iter().filter(|a| *a.nullifier() == nf).count();
        if c != 1 {
            errs.push(format!("{pool}: requested spend {j} appears in {c} actions"));
        }
    }
    let acts: Vec<_> = b.actions().iter().collect();
    let dec = |idx: usize, ivk: &orchard::keys::PreparedIncomingViewingKey| {
        let a = acts[idx];
        let r = if ironwood {
            try_note_decryption(&orchard::note_encryption::IronwoodDomain::for_action(a), ivk, a)
        } else {
            try_note_decryption(&orchard::note_encryption::OrchardDomain::for_action(a), ivk, a)
        };
        r.map(|(n, addr, memo)| (n.value().inner(), addr.to_raw_address_bytes().to_vec(), memo))
    };
    check_recipients(pool, n, recips, dec, errs);
    // authorisation: spend-auth signatures and the binding signature over the shielded sighash, the proof
    for (j, a) in acts.iter().enumerate() {
        if a.rk().verify(sighash, a.authorization()).is_err() {
            errs.push(format!("{pool}: spend authorisation signature of action {j} does not verify"));
        }
    }
    if b.binding_validating_key().verify(sighash, b.authorization().binding_signature()).is_err() {
        errs.push(format!("{pool}: binding signature does not verify"));
    }
    if let Some(vk) = vk {
        if b.verify_proof(vk).is_err() {
            errs.push(format!("{pool}: proof does not verify"));
        }
    }
    bal
}

/// Checks a built transaction against the specification's Ok record.
fn check_tx(
    x: &J,
    m: &Mat,
    tx: &zcash_primitives::transaction::Transaction,
    vk: Option<&orchard::circuit::VerifyingKey>,
) -> Vec<String> {
    let mut errs = vec![];
    let sh = &x["shape"];
    let vb = &x["vb"];
    let fee = x["fee"].as_i64().unwrap();
    let want_ver = version_of(x["ver"].as_str().unwrap());
    if tx.version() != want_ver || tx.consensus_branch_id() != m.branch || u32::from(tx.expiry_height()) != m.height + 40 || tx.lock_time() != 0 {
        errs.push(format!(
            "build: header {:?} {:?} expiry {} lock_time {}, expected {want_ver:?} {:?} {}",
            tx.version(),
            tx.consensus_branch_id(),
            u32::from(tx.expiry_height()),
            tx.lock_time(),
            m.branch,
            m.height + 40
        ));
    }
    let paid = tx.fee_paid(|op| Ok::<_, BalanceError>(prevout_value(m, op)));
    if paid != Ok(Some(Zatoshis::from_u64(fee as u64).unwrap())) {
        errs.push(format!("build: fee_paid {paid:?}, the fee of the padded shape is {fee}"));
    }

    // the transaction with the coins' amounts and scripts attached, for signature hashes
    let ctx = CoinCtx {
        amounts: m.tin.iter().map(|t| t.coin.value()).collect(),
        scripts: m.tin.iter().map(|t| t.coin.script_pubkey().clone()).collect(),
    };
    let data: TransactionData<WithCoins> = tx.clone().into_data().map_authorization(ToCoinCtx(ctx), (), ());
    let txid_parts = data.digest(TxIdDigester);
    let shielded_sighash: [u8; 32] = *signature_hash(&data, &SignableInput::Shielded, &txid_parts).as_ref();

    // transparent
    let (vin, vout) = tx.transparent_bundle().map_or((&[][..], &[][..]), |b| (&b.vin[..], &b.vout[..]));
    if vin.len() as u64 != sh["tin"].as_u64().unwrap() || vout.len() as u64 != sh["tout"].as_u64().unwrap() {
        errs.push(format!("build: {} transparent inputs / {} outputs, requested {} / {}", vin.len(), vout.len(), sh["tin"], sh["tout"]));
    } else {
        let bundle = data.transparent_bundle();
        for (j, (txin, want)) in vin.iter().zip(&m.tin).enumerate() {
            if txin.prevout() != &want.utxo {
                errs.push(format!("build: transparent input {j} spends another outpoint"));
                continue;
            }
            let bundle = bundle.expect("bundle present");
            let sighasher = |script_code: &script::Code, hash_type: &zcash_script::signature::HashType| {
                let sc = Script(script_code.clone());
                let si = zcash_transparent::sighash::SignableInput::from_parts(
                    bundle,
                    hash_type_of(hash_type),
                    j,
                    &sc,
                    want.coin.script_pubkey(),
                    want.coin.value(),
                )
                .ok()?;
                let h: [u8; 32] = *signature_hash(&data, &SignableInput::Transparent(si), &txid_parts).as_ref();
                Some(h)
            };
            let checker = zcash_script::interpreter::CallbackTransactionSignatureChecker {
                sighash: &sighasher,
                lock_time: tx.lock_time().into(),
                is_final: txin.sequence() == 0xFFFF_FFFF,
            };
            let verdict = guarded(|| {
                script::Raw::from_raw_parts(txin.script_sig().0.0.clone(), want.coin.script_pubkey().0.0.clone())
                    .eval(zcash_script::interpreter::Flags::all(), &checker)
            });
            match verdict {
                Ok(Ok(true)) => {}
                other => errs.push(format!(
                    "build: the script of the {} coin spent by transparent input {j} does not accept the scriptSig: {other:?}",
                    want.kind
                )),
            }
        }
        for (j, (o, want)) in vout.iter().zip(&m.tout).enumerate() {
            if u64::from(o.value()) != want.2 || o.script_pubkey() != &want.1 {
                errs.push(format!("build: transparent output {j} is not the requested one"));
            }
        }
    }
    let t_bal: i64 = m.tin.iter().map(|t| t.value as i64).sum::<i64>() - vout.iter().map(|o| u64::from(o.value()) as i64).sum::<i64>();

    // Sapling
    let (ns, no) = tx.sapling_bundle().map_or((0, 0), |b| (b.shielded_spends().len(), b.shielded_outputs().len()));
    if ns as u64 != sh["ss"].as_u64().unwrap() || no as u64 != sh["so"].as_u64().unwrap() {
        errs.push(format!("build: sapling {ns} spends / {no} outputs, the padded shape has {} / {}", sh["ss"], sh["so"]));
    }
    let mut s_bal = 0;
    if let Some(b) = tx.sapling_bundle() {
        s_bal = i64::from(*b.value_balance());
        for (j, (note, path, _)) in m.s_spends.iter().enumerate() {
            let nf = note.nf(&m.s_spender.fvk.vk.nk, u64::from(path.position()));
            let c = b.shielded_spends().iter().filter(|sp| *sp.nullifier() == nf).count();
            if c != 1 {
                errs.push(format!("build: requested sapling spend {j} appears {c} times"));
            }
        }
        if !m.s_spends.is_empty() && b.shielded_spends().iter().any(|sp| sp.anchor().to_bytes() != m.s_anchor.to_bytes()) {
            errs.push("build: a sapling spend uses another anchor".to_string());
        }
        for (j, sp) in b.shielded_spends().iter().enumerate() {
            if sp.rk().verify(&shielded_sighash, sp.spend_auth_sig()).is_err() {
                errs.push(format!("build: sapling spend authorisation signature {j} does not verify"));
            }
        }
        let z = zip212_of(m);
        let outs = b.shielded_outputs();
        check_recipients(
            "sapling",
            no,
            &sapling_recips(m),
            |idx, ivk| {
                sapling::note_encryption::try_sapling_note_decryption(ivk, &outs[idx], z)
                    .map(|(n, a, memo)| (n.value().inner(), a.to_bytes().to_vec(), memo))
            },
            &mut errs,
        );
    }
    if s_bal != vb["s"].as_i64().unwrap() {
        errs.push(format!("build: sapling value balance {s_bal} instead of {}", vb["s"]));
    }
    let o_bal = check_orchard_bundle(
        "orchard",
        false,
        tx.orchard_bundle(),
        sh["ao"].as_u64().unwrap(),
        vb["o"].as_i64().unwrap(),
        &m.o_anchor,
        &m.o_spends,
        &m.o_spender,
        &orchard_recips(&m.o_outs, &m.o_chg),
        &shielded_sighash,
        vk,
        &mut errs,
    );
    let i_bal = check_orchard_bundle(
        "ironwood",
        true,
        tx.ironwood_bundle(),
        sh["ai"].as_u64().unwrap(),
        vb["i"].as_i64().unwrap(),
        &m.i_anchor,
        &m.i_spends,
        &m.i_spender,
        &orchard_recips(&m.i_outs, &[]),
        &shielded_sighash,
        vk,
        &mut errs,
    );
    if t_bal != vb["t"].as_i64().unwrap() {
        errs.push(format!("build: transparent balance {t_bal} instead of {}", vb["t"]));
    }
    if t_bal + s_bal + o_bal + i_bal != fee {
        errs.push(format!("build: value balance over all pools {} is not the fee {fee}", t_bal + s_bal + o_bal + i_bal));
    }
    errs
}


// =================================================================================================
// running one case
// =================================================================================================

fn signing_set(q: &J, m: &Mat) -> TransparentSigningSet {
    let mode = q["keys"].as_str().unwrap();
    let mut set = TransparentSigningSet::new();
    for t in &m.tin {
        let n = t.keys.len();
        let pick: Vec<usize> = match (t.kind.as_str(), mode) {
            ("pkh", "nopkh") => vec![],
            ("pkh", _) => vec![0],
            (_, "exact") => (n - t.k..n).collect(),
            (_, "short") => (0..t.k - 1).collect(),
            _ => (0..n).collect(),
        };
        for i in pick {
            set.add_key(t.keys[i].0);
        }
    }
    set
}

fn verifying_key(branch: BranchId) -> &'static orchard::circuit::VerifyingKey {
    use orchard::circuit::{OrchardCircuitVersion as V, VerifyingKey};
    use std::sync::OnceLock;
    static A: OnceLock<VerifyingKey> = OnceLock::new();
    static B: OnceLock<VerifyingKey> = OnceLock::new();
    static C: OnceLock<VerifyingKey> = OnceLock::new();
    match branch {
        BranchId::Nu6_3 => C.get_or_init(|| VerifyingKey::build(V::PostNu6_3)),
        BranchId::Nu6_2 => B.get_or_init(|| VerifyingKey::build(V::FixedPostNu6_2)),
        _ => A.get_or_init(|| VerifyingKey::build(V::InsecurePreNu6_2)),
    }
}

#[derive(Default)]
struct Stats {
    counts: BTreeMap<String, u64>,
    sigs: BTreeSet<String>,
}
impl Stats {
    fn inc(&mut self, k: &str) {
        *self.counts.entry(k.to_string()).or_insert(0) += 1;
    }
    fn time(&mut self, k: &str, since: std::time::Instant) {
        *self.counts.entry(format!("us:{k}")).or_insert(0) += since.elapsed().as_micros() as u64;
    }
}

struct Opts {
    seed: u64,
    real_proofs: BTreeSet<usize>,
}

/// Cases reported so far (all threads): once a violation is established the rest of the run is cut short.
static MISMATCHES: std::sync::atomic::AtomicUsize = std::sync::atomic::AtomicUsize::new(0);
const MISMATCH_CAP: usize = 400;
/// Requests with Orchard/Ironwood actions that the specification refuses are run through the full
/// build (a refusal costs nothing); if the code does *not* refuse, real proofs get made - a few of
/// those establish the violation, after that such requests are left to the PCZT path.
static UNEXPECTED_PROOFS: std::sync::atomic::AtomicUsize = std::sync::atomic::AtomicUsize::new(0);

fn outcome_of<T, FE: std::fmt::Debug>(r: Result<Result<T, BErr<FE>>, String>) -> (J, Option<T>) {
    match r {
        Err(p) => (json!({"k": "panic", "amt": 0, "msg": p}), None),
        Ok(Err(e)) => {
            let (k, amt) = class_of(&e);
            (json!({"k": k, "amt": amt}), None)
        }
        Ok(Ok(t)) => (got("ok", 0), Some(t)),
    }
}

fn new_builder(q: &J, m: &Mat) -> B {
    Builder::new(network(), BlockHeight::from_u32(m.height), build_config(q, m))
}

fn run_case<FR: FeeRule>(idx: usize, case: &J, rule: &FR, opts: &Opts, st: &mut Stats) -> Vec<String>
where
    FR::Error: std::fmt::Debug,
{
    let (q, x) = (&case["q"], &case["x"]);
    let mut errs: Vec<String> = vec![];
    let mut rng = ChaCha20Rng::seed_from_u64(opts.seed.wrapping_mul(0x9E37_79B9_7F4A_7C15) ^ (idx as u64));
    let t0 = std::time::Instant::now();
    let m = materialise(q, &mut rng, idx % 64 == 0);
    st.time("materialise", t0);
    let slice = q["slice"].as_str().unwrap();
    st.inc(&format!("slice:{slice}"));
    st.inc(&format!("spec:{}", x["k"].as_str().unwrap()));

    // ---- adds --------------------------------------------------------------------------------
    let mut b = new_builder(q, &m);
    let added = guarded(|| populate::<FR::Error>(&mut b, q, &m));
    match added {
        Err(p) => return vec![format!("add: panic: {p}")],
        Ok(Err((class, stage))) => {
            st.inc(&format!("add_refused:{stage}"));
            if !(class == "unsupported" && x["k"] == "unsupported") {
                errs.push(format!("{stage} refused with {class}; the specification says {}", x["k"]));
            }
            st.sigs.insert(format!("add|{}|{}|{}|{stage}", q["regime"], q["pv"], x["shape"]));
            // no anchored builder exists for a request that cannot be expressed; the deferred one must refuse as well
            return errs;
        }
        Ok(Ok(())) => {}
    }

    // ---- get_fee -----------------------------------------------------------------------------
    let fee = guarded(|| b.get_fee(rule));
    match &fee {
        Err(p) => errs.push(format!("get_fee: panic: {p}")),
        Ok(Err(e)) => errs.push(format!("get_fee failed: {e:?}")),
        Ok(Ok(f)) => {
            if x["addable"].as_bool().unwrap() && u64::from(*f) as i64 != x["fee"].as_i64().unwrap() {
                errs.push(format!("get_fee = {}, the fee of the padded shape is {}", u64::from(*f), x["fee"]));
            }
        }
    }

    // ---- build_for_pczt ----------------------------------------------------------------------
    let prng = ChaCha20Rng::seed_from_u64(rng.next_u64());
    let t0 = std::time::Instant::now();
    let (o, res) = outcome_of(guarded(|| b.build_for_pczt(prng, rule)));
    st.time("build_for_pczt", t0);
    let t0 = std::time::Instant::now();
    st.inc(&format!("pczt:{}", o["k"].as_str().unwrap().split(':').next().unwrap()));
    if let Some(e) = judge_outcome(x, "pczt", &o) {
        errs.push(e);
    } else if let Some(res) = res {
        errs.extend(check_parts(q, x, &m, &res.pczt_parts, false));
        match guarded(|| Creator::build_from_parts(res.pczt_parts)) {
            Ok(Some(p)) => errs.extend(check_pczt(x, &m, &p, "pczt")),
            other => errs.push(format!("Creator::build_from_parts: {:?}", other.map(|o| o.is_some()))),
        }
    }
    st.sigs.insert(format!("pczt|{}|{}|{}|{}|{}|{}", q["regime"], x["ver"], x["shape"], o["k"], q["opad"], q["ipad"]));
    st.time("pczt_checks", t0);
    let t0 = std::time::Instant::now();

    // ---- build -------------------------------------------------------------------------------
    let sh = &x["shape"];
    let shielded_actions = sh["ao"].as_u64().unwrap() + sh["ai"].as_u64().unwrap();
    let refusal_expected = !justified(x, "build").is_empty();
    let real = opts.real_proofs.contains(&idx);
    let proofs_budget = UNEXPECTED_PROOFS.load(std::sync::atomic::Ordering::Relaxed) < 3;
    if shielded_actions == 0 || (refusal_expected && proofs_budget) || real {
        let mut b = new_builder(q, &m);
        match guarded(|| populate::<FR::Error>(&mut b, q, &m)) {
            Ok(Ok(())) => {
                let set = signing_set(q, &m);
                let saks = [orchard::keys::SpendAuthorizingKey::from(&m.o_spender.sk), orchard::keys::SpendAuthorizingKey::from(&m.i_spender.sk)];
                let brng = ChaCha20Rng::seed_from_u64(rng.next_u64());
                let extsks = [m.s_spender.extsk.clone()];
                let (o, res) = outcome_of(guarded(|| b.build(&set, &extsks, &saks, brng, &MockSpendProver, &MockOutputProver, rule)));
                st.inc(&format!("build:{}", o["k"].as_str().unwrap().split(':').next().unwrap()));
                if let Some(e) = judge_outcome(x, "build", &o) {
                    if o["k"] == "ok" && shielded_actions > 0 {
                        UNEXPECTED_PROOFS.fetch_add(1, std::sync::atomic::Ordering::Relaxed);
                    }
                    errs.push(e);
                } else if let Some(res) = res {
                    let vk = (shielded_actions > 0).then(|| verifying_key(m.branch));
                    if vk.is_some() {
                        st.inc("build:real_proofs");
                    }
                    errs.extend(check_tx(x, &m, res.transaction(), vk));
                }
                st.sigs.insert(format!("build|{}|{}|{}|{}|{}", q["regime"], x["ver"], x["shape"], o["k"], q["keys"]));
            }
            other => errs.push(format!("second population of the same request differs: {other:?}")),
        }
    }

    if !refusal_expected
        && !m.tin.is_empty()
        && m.tin.iter().all(|t| t.kind == "pkh")
        && ["ss", "so", "ao", "ai"].iter().all(|k| sh[*k] == 0)
    {
        st.inc("staged_signing");
        errs.extend(staged_signing(x, &m, &mut rng));
    }
    st.time("build_path", t0);
    let t0 = std::time::Instant::now();
    // ---- DeferredPcztBuilder (anchors deferred, ZIP 374): Orchard/Ironwood-only requests ---------
    let only_oi = m.tin.is_empty() && m.tout.is_empty() && m.s_spends.is_empty() && m.s_outs.is_empty();
    if only_oi && q["pv"] == "none" && !q["anch"]["s"].as_bool().unwrap() {
        errs.extend(run_deferred(q, x, &m, rule, &mut rng, st));
    }
    st.time("deferred_path", t0);
    errs
}

fn run_deferred<FR: FeeRule>(q: &J, x: &J, m: &Mat, rule: &FR, rng: &mut ChaCha20Rng, st: &mut Stats) -> Vec<String>
where
    FR::Error: std::fmt::Debug,
{
    let mut errs = vec![];
    let made = guarded(|| {
        DeferredPcztBuilder::new::<FR::Error>(
            network(),
            BlockHeight::from_u32(m.height),
            padding_of(q["opad"].as_str().unwrap()),
            padding_of(q["ipad"].as_str().unwrap()),
        )
    });
    let mut d = match made {
        Err(p) => return vec![format!("deferred: new panicked: {p}")],
        Ok(Err(e)) => {
            st.inc("deferred:refused_new");
            if q["regime"] == "nu63" {
                errs.push(format!("deferred: new refused at NU6.3: {e:?}"));
            } else if class_of(&e).0 != "unsupported" {
                errs.push(format!("deferred: new before NU6.3 failed with {e:?}"));
            }
            return errs;
        }
        Ok(Ok(d)) => d,
    };
    if q["regime"] != "nu63" {
        return vec!["deferred: a builder with deferred anchors was created before NU6.3".to_string()];
    }
    let added = guarded(|| -> Result<(), BErr<FR::Error>> {
        for (n, _) in &m.o_spends {
            d.add_orchard_spend(m.o_spender.fvk.clone(), *n)?;
        }
        for o in &m.o_outs {
            d.add_orchard_output(Some(m.o_spender.fvk.to_ovk(orchard::keys::Scope::External)), o.addr, Zatoshis::from_u64(o.value).unwrap(), o.memo.clone())?;
        }
        for o in &m.o_chg {
            d.add_orchard_change_output(
                m.o_spender.fvk.clone(),
                Some(m.o_spender.fvk.to_ovk(orchard::keys::Scope::Internal)),
                o.addr,
                Zatoshis::from_u64(o.value).unwrap(),
                o.memo.clone(),
            )?;
        }
        for (n, _) in &m.i_spends {
            d.add_ironwood_spend(m.i_spender.fvk.clone(), *n)?;
        }
        for o in &m.i_outs {
            d.add_ironwood_output(Some(m.i_spender.fvk.to_ovk(orchard::keys::Scope::External)), o.addr, Zatoshis::from_u64(o.value).unwrap(), o.memo.clone())?;
        }
        Ok(())
    });
    match added {
        Err(p) => return vec![format!("deferred: add panicked: {p}")],
        Ok(Err(e)) => {
            st.inc("deferred:add_refused");
            if !(class_of(&e).0 == "unsupported" && x["k"] == "unsupported") {
                errs.push(format!("deferred: add refused with {e:?}; the specification says {}", x["k"]));
            }
            return errs;
        }
        Ok(Ok(())) => {}
    }
    match guarded(|| d.get_fee(rule)) {
        Ok(Ok(f)) if u64::from(f) as i64 == x["fee"].as_i64().unwrap() => {}
        other => errs.push(format!("deferred: get_fee {other:?}, the fee of the padded shape is {}", x["fee"])),
    }
    let prng = ChaCha20Rng::seed_from_u64(rng.next_u64());
    let (o, res) = outcome_of(guarded(|| d.build_for_pczt(prng, rule)));
    st.inc(&format!("deferred:{}", o["k"].as_str().unwrap().split(':').next().unwrap()));
    if let Some(e) = judge_outcome(x, "deferred", &o) {
        errs.push(e);
    } else if let Some(res) = res {
        errs.extend(check_parts(q, x, m, &res.pczt_parts, true));
        match guarded(|| Creator::build_from_parts(res.pczt_parts)) {
            Ok(Some(p)) => errs.extend(check_pczt(x, m, &p, "deferred pczt")),
            other => errs.push(format!("deferred: Creator::build_from_parts: {:?}", other.map(|o| o.is_some()))),
        }
    }
    errs
}

/// The staged signing path of the transparent builder (prepare_transparent_signatures ->
/// append_external_signatures -> finalize_signatures) on the transparent-only P2PKH requests: the
/// signatures are made outside (secp256k1, over signature_hash) and handed over in reverse order.
fn staged_signing(x: &J, m: &Mat, rng: &mut ChaCha20Rng) -> Vec<String> {
    use zcash_primitives::transaction::Unauthorized;
    let attempt = guarded(|| -> Result<zcash_primitives::transaction::Transaction, String> {
        let mut tb = zcash_transparent::builder::TransparentBuilder::empty();
        for t in &m.tin {
            let SpendInfo::P2pkh { pubkey } = &t.spend_info else { return Err("harness: not a P2PKH coin".into()) };
            tb.add_p2pkh_input(*pubkey, t.utxo.clone(), t.coin.clone()).map_err(|e| format!("add_p2pkh_input: {e:?}"))?;
        }
        for (addr, _, v) in &m.tout {
            tb.add_output(addr, Zatoshis::from_u64(*v).unwrap()).map_err(|e| format!("add_output: {e:?}"))?;
        }
        let bundle = tb.build().ok_or("no bundle")?;
        let version = version_of(x["ver"].as_str().unwrap());
        let expiry = BlockHeight::from_u32(m.height + 40);
        let data: TransactionData<Unauthorized> = if version == TxVersion::V6 {
            TransactionData::from_parts_v6(m.branch, 0, expiry, Some(bundle.clone()), None, None, None)
        } else {
            TransactionData::from_parts(version, m.branch, 0, expiry, Some(bundle.clone()), None, None, None)
        };
        let txid_parts = data.digest(TxIdDigester);
        let verify = secp256k1::Secp256k1::verification_only();
        let sign = secp256k1::Secp256k1::signing_only();
        let ctx = bundle
            .clone()
            .prepare_transparent_signatures(|input| *signature_hash(&data, &SignableInput::Transparent(input), &txid_parts).as_ref(), &verify)
            .map_err(|e| format!("prepare_transparent_signatures: {e:?}"))?;
        let mut sigs = vec![];
        for (j, t) in m.tin.iter().enumerate() {
            let si = zcash_transparent::sighash::SignableInput::from_parts(&bundle, SighashType::ALL, j, t.coin.script_pubkey(), t.coin.script_pubkey(), t.coin.value())
                .map_err(|e| format!("{e}"))?;
            let h: [u8; 32] = *signature_hash(&data, &SignableInput::Transparent(si), &txid_parts).as_ref();
            sigs.push(sign.sign_ecdsa(&secp256k1::Message::from_digest(h), &t.keys[0].0));
        }
        sigs.reverse();
        if rng.next_u32() % 2 == 0 && sigs.len() > 1 {
            sigs.swap(0, 1);
        }
        // in two batches
        let (first, rest) = sigs.split_at(sigs.len() / 2);
        let ctx = ctx.append_external_signatures(first).map_err(|e| format!("append_external_signatures: {e:?}"))?;
        let ctx = ctx.append_external_signatures(rest).map_err(|e| format!("append_external_signatures: {e:?}"))?;
        let signed = ctx.finalize_signatures().map_err(|e| format!("finalize_signatures: {e:?}"))?;
        let full: TransactionData<zcash_primitives::transaction::Authorized> = if version == TxVersion::V6 {
            TransactionData::from_parts_v6(m.branch, 0, expiry, Some(signed), None, None, None)
        } else {
            TransactionData::from_parts(version, m.branch, 0, expiry, Some(signed), None, None, None)
        };
        full.freeze().map_err(|e| format!("freeze: {e:?}"))
    });
    match attempt {
        Err(p) => vec![format!("staged signing: panic: {p}")],
        Ok(Err(e)) => vec![format!("staged signing failed: {e}")],
        Ok(Ok(tx)) => check_tx(x, m, &tx, None).into_iter().map(|e| format!("staged signing: {e}")).collect(),
    }
}

// =================================================================================================
// TransparentInputInfo::from_parts: the key / redeem script must hash to the coin's address
// =================================================================================================

fn coin_variant(name: &str) -> (Vec<u8>, SpendInfo) {
    let keyset = |tag: u8, n: usize| -> Vec<secp256k1::PublicKey> { (0..n).map(|i| tsk(tag, i as u8).1).collect() };
    let sh = |k: u8, pks: Vec<secp256k1::PublicKey>| {
        let redeem = multisig_redeem(k, &pks);
        (p2sh_script(&redeem), SpendInfo::P2sh { redeem_script: script::FromChain::parse(&script::Code(redeem)).expect("parses") })
    };
    match name {
        "pkhA" => (p2pkh_script(&tsk(0xD0, 0).1), SpendInfo::P2pkh { pubkey: tsk(0xD0, 0).1 }),
        "pkhB" => (p2pkh_script(&tsk(0xD1, 0).1), SpendInfo::P2pkh { pubkey: tsk(0xD1, 0).1 }),
        "sh12A" => sh(1, keyset(0xD0, 2)),
        "sh12B" => sh(1, keyset(0xD1, 2)),
        "sh23A" => sh(2, keyset(0xD0, 3)),
        "sh23C" => {
            let mut k = keyset(0xD0, 3);
            k.reverse();
            sh(2, k)
        }
        _ => panic!("unknown coin variant {name}"),
    }
}

/// table[coin][info] = the specification accepts `info` as the way to spend `coin`.
fn validator_checks(table: &J) -> (usize, Vec<J>) {
    let mut bad = vec![];
    let mut n = 0;
    for (coin, row) in table.as_object().expect("table") {
        for (info, want) in row.as_object().expect("row") {
            let want = want.as_bool().unwrap();
            let (spk, _) = coin_variant(coin);
            let (_, spend_info) = coin_variant(info);
            let txout = TxOut::new(Zatoshis::const_from_u64(70_000), to_script(spk));
            let utxo = OutPoint::new([0x77; 32], 1);
            let r1 = guarded(|| TransparentInputInfo::from_parts(utxo.clone(), txout.clone(), spend_info.clone()).is_ok());
            let r2 = guarded(|| {
                let mut b = Builder::new(
                    network(),
                    BlockHeight::from_u32(40_000),
                    BuildConfig::Standard {
                        sapling_anchor: None,
                        orchard_anchor: None,
                        ironwood_anchor: None,
                        orchard_padding: BundlePadding::DEFAULT,
                        ironwood_padding: BundlePadding::DEFAULT,
                    },
                );
                match &spend_info {
                    SpendInfo::P2pkh { pubkey } => b.add_transparent_p2pkh_input(*pubkey, utxo.clone(), txout.clone()).is_ok(),
                    SpendInfo::P2sh { redeem_script } => b.add_transparent_p2sh_input(redeem_script.clone(), utxo.clone(), txout.clone()).is_ok(),
                }
            });
            n += 2;
            for (api, r) in [("TransparentInputInfo::from_parts", r1), ("Builder::add_transparent_*_input", r2)] {
                if r != Ok(want) {
                    bad.push(json!({"kind": "validator", "coin": coin, "info": info, "api": api, "expected_accept": want, "got": format!("{r:?}")}));
                }
            }
        }
    }
    (n, bad)
}

// =================================================================================================
// main
// =================================================================================================

fn dispatch(idx: usize, case: &J, opts: &Opts, st: &mut Stats) -> Vec<String> {
    let r = &case["q"]["rule"];
    let mut run = || {
        if r["kind"] == "fixed" {
            run_case(idx, case, &fixed::FeeRule::non_standard(Zatoshis::from_u64(r["fixed"].as_u64().unwrap()).unwrap()), opts, st)
        } else {
            let rule = zip317::FeeRule::non_standard(
                Zatoshis::from_u64(r["m"].as_u64().unwrap()).unwrap(),
                r["g"].as_u64().unwrap() as usize,
                r["pin"].as_u64().unwrap() as usize,
                r["pout"].as_u64().unwrap() as usize,
            )
            .expect("rule parameters");
            // the standard rule goes through its own constructor
            if r["m"] == 5000 && r["g"] == 2 && r["pin"] == 150 && r["pout"] == 34 {
                run_case(idx, case, &zip317::FeeRule::standard(), opts, st)
            } else {
                run_case(idx, case, &rule, opts, st)
            }
        }
    };
    // a panic outside the guarded calls is the harness' own
    run()
}

fn mix(seed: u64, i: usize) -> u64 {
    let mut z = seed.wrapping_add(0x9E37_79B9_7F4A_7C15u64.wrapping_mul(i as u64 + 1));
    z = (z ^ (z >> 30)).wrapping_mul(0xBF58_476D_1CE4_E5B9);
    z = (z ^ (z >> 27)).wrapping_mul(0x94D0_49BB_1331_11EB);
    z ^ (z >> 31)
}

fn main() {
    let args: Vec<String> = std::env::args().collect();
    quiet_panics();
    let seed = seed_from_env();
    match args.get(1).map(|s| s.as_str()) {
        Some("run") => {
            let cases = read_ndjson(&args[2]);
            let n_real: usize = args.get(3).and_then(|s| s.parse().ok()).unwrap_or(0);
            let threads: usize = std::env::var("C14_THREADS").ok().and_then(|s| s.parse().ok()).unwrap_or(8);
            let table = args.get(4).map(|p| read_ndjson(p).remove(0));
            // seeded sample of emitted requests with Orchard/Ironwood actions for the build with real proofs,
            // spread over regimes
            let mut eligible: Vec<usize> = cases
                .iter()
                .enumerate()
                .filter(|(_, c)| {
                    let x = &c["x"];
                    x["k"] == "ok" && x["shape"]["ao"].as_u64().unwrap() + x["shape"]["ai"].as_u64().unwrap() > 0 && x["signOk"] == true
                        && x["shape"]["ao"].as_u64().unwrap() + x["shape"]["ai"].as_u64().unwrap() <= 4
                })
                .map(|(i, _)| i)
                .collect();
            eligible.sort_by_key(|i| mix(seed, *i));
            let mut real_proofs = BTreeSet::new();
            let mut per_regime: BTreeMap<String, usize> = BTreeMap::new();
            for i in eligible {
                let key = format!("{}{}", cases[i]["q"]["regime"], cases[i]["q"]["hsel"]);
                let c = per_regime.entry(key).or_insert(0);
                if *c < n_real.div_ceil(4) && real_proofs.len() < n_real {
                    *c += 1;
                    real_proofs.insert(i);
                }
            }
            let opts = Opts { seed, real_proofs };
            let out: Mutex<(Vec<J>, Stats)> = Mutex::new((vec![], Stats::default()));
            std::thread::scope(|s| {
                for t in 0..threads {
                    let (cases, opts, out) = (&cases, &opts, &out);
                    s.spawn(move || {
                        let mut st = Stats::default();
                        let mut bad = vec![];
                        let mut seen: BTreeMap<String, usize> = BTreeMap::new();
                        for (idx, case) in cases.iter().enumerate().filter(|(i, _)| i % threads == t) {
                            if MISMATCHES.load(std::sync::atomic::Ordering::Relaxed) >= MISMATCH_CAP {
                                st.inc("skipped_after_mismatch_cap");
                                continue;
                            }
                            let errs = dispatch(idx, case, opts, &mut st);
                            if !errs.is_empty() {
                                MISMATCHES.fetch_add(1, std::sync::atomic::Ordering::Relaxed);
                                st.inc("mismatch");
                                // keep at most two reports per kind of disagreement
                                let key: String = format!(
                                    "{} {}|{}",
                                    case["q"]["regime"].as_str().unwrap(),
                                    case["q"]["pv"].as_str().unwrap(),
                                    errs[0].chars().filter(|c| !c.is_ascii_digit()).take(60).collect::<String>()
                                );
                                let n = seen.entry(key.clone()).or_insert(0usize);
                                *n += 1;
                                if *n <= 2 && bad.len() < 40 {
                                    bad.push(json!({"kind": "case", "idx": idx, "case": case, "errors": errs, "key": key}));
                                }
                            }
                        }
                        let mut g = out.lock().unwrap();
                        g.0.extend(bad);
                        for (k, v) in st.counts {
                            *g.1.counts.entry(k).or_insert(0) += v;
                        }
                        g.1.sigs.extend(st.sigs);
                    });
                }
            });
            let (mut bad, st) = out.into_inner().unwrap();
            bad.sort_by_key(|b| b["idx"].as_u64());
            let (vn, vbad) = table.as_ref().map(validator_checks).unwrap_or((0, vec![]));
            bad.extend(vbad);
            println!(
                "{}",
                json!({"cases": cases.len(), "mismatches": bad, "stats": st.counts, "distinct": st.sigs.len(),
                       "validator_calls": vn, "real_proof_cases": opts.real_proofs.len()})
            );
        }
        Some("one") => {
            // one case at its original index (the randomness is derived from seed and index), full build always
            let case = read_ndjson(&args[2]).remove(0);
            let idx: usize = args[3].parse().expect("index");
            let opts = Opts { seed, real_proofs: [idx].into_iter().collect() };
            let mut st = Stats::default();
            let errs = dispatch(idx, &case, &opts, &mut st);
            let bad: Vec<J> = if errs.is_empty() { vec![] } else { vec![json!({"kind": "case", "idx": idx, "case": case, "errors": errs})] };
            println!("{}", json!({"cases": 1, "mismatches": bad, "stats": st.counts, "distinct": st.sigs.len(), "validator_calls": 0}));
        }
        _ => {
            eprintln!("usage: c14_replay run <cases.ndjson> <real_proof_samples> [<vtable.json>]");
            std::process::exit(2);
        }
    }
}
