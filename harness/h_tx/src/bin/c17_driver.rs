//! C17 code -> spec driver: calls the real public scheduling / anchor / expiry / wake-up functions
//! of `zcash_pool_migration::scheduling` (+ `MigrationState::sync_wakeup_schedule`) and the real
//! `zcash_protocol::zip318::{classify, to_code, from_code}` and logs inputs and outcomes as ndjson.
//! TLC validates every record against `spec/Migration/{Scheduling,Classify}.tla`.
//!
//! The RNG handed to the code is the *environment*: ChaCha20 seeded per record, or one of the
//! degenerate streams `zero`, `ones`, `alt` (0x5555.., 0xAAAA.. alternating), `counter` (0,1,2,..),
//! `lemire` (words ceil(j 2^64 / b), which land in the rejection zone of the index sampler),
//! `ages` (words 2^(a-1), a uniform in 1..8: uniformly distributed anchor ages).
//! Every stream is wrapped in a word budget: a call that consumes more than BUDGET words is cut
//! off (panic caught by `guarded`) and logged with outcome "spin" -- the specification says for
//! which (stream, call) pairs the rejection loops must terminate.
//!
//! Heights are logged in offset-binary form `h - 2^31` so that the whole `u32` range fits TLC's
//! 32-bit integers (`Lo = -2^31` stands for height 0, `Hi = 2^31 - 1` for `u32::MAX`).
//!
//! usage: c17_driver sched    <out.ndjson> <scale>      (scale 1 = about 20 000 records)
//!        c17_driver classify <out.ndjson> <chains>     (the whole table + that many chains)
//!        c17_driver dtx      <out.ndjson> <count>      (classify_decrypted_tx on assembled transactions)
//!        c17_driver rerun    <in.ndjson> <out.ndjson>      (re-executes the inputs of each record)
//! stdout: one JSON summary object.
use std::num::NonZeroU32;

use h_tx::util::{NdjsonWriter, guarded, quiet_panics, read_ndjson, seed_from_env};
use rand::Rng;
use rand_chacha::ChaCha20Rng;
use rand_core::{CryptoRng, RngCore, SeedableRng};
use serde_json::{Value, json};
use zcash_pool_migration::denomination::DenominationPlan;
use zcash_pool_migration::engine::{
    MigrationState, MigrationStatus, MigrationTransaction, MigrationTransferId, MigrationTxKind, MigrationTxState,
};
use zcash_pool_migration::preparation::PreparationPlan;
use zcash_pool_migration::satisfiability::{ReplanThreshold, UnsatisfiableKind};
use zcash_pool_migration::scheduling::{
    AnchorBucketInterval, DelayDistribution, SchedulingParams, WakeupParams, WakeupScheduleError,
    draw_anchor_boundary, earliest_broadcast_height, expiry_height, redraw_anchor_boundary, schedule,
    schedule_broadcast_heights, schedule_prep_broadcast_heights, schedule_sync_wakeups, shuffle_in_place,
    shuffle_indices,
};
use proptest::strategy::{Strategy, ValueTree};
use proptest::test_runner::{Config, RngAlgorithm, TestRng, TestRunner};
use zcash_client_backend::data_api::zip318::classify_decrypted_tx;
use zcash_client_backend::{DecryptedOutput, TransferType};
use zcash_primitives::transaction::TransactionData;
use zcash_protocol::consensus::BranchId;
use zcash_protocol::memo::MemoBytes;
use zcash_protocol::value::ZatBalance;
use zcash_protocol::{ShieldedPool, TxId};
use zcash_protocol::consensus::BlockHeight;
use zcash_protocol::value::Zatoshis;
use zcash_protocol::zip318::{
    PoolMigrationConstants, Zip318Classification, Zip318Evidence, Zip318TxKind, classify,
};

const BUDGET: u64 = 20_000;
const SPIN: &str = "C17_RNG_BUDGET";
const OFF: i64 = 1 << 31;
const UMAX: i64 = u32::MAX as i64;

fn enc(h: u32) -> i64 {
    h as i64 - OFF
}
fn dec(v: &Value) -> u32 {
    (v.as_i64().expect("int") + OFF) as u32
}
fn bh(h: u32) -> BlockHeight {
    BlockHeight::from_u32(h)
}
fn hu(h: BlockHeight) -> u32 {
    u32::from(h)
}
fn clamp(v: i64) -> u32 {
    v.clamp(0, UMAX) as u32
}
fn nz(v: u32) -> NonZeroU32 {
    NonZeroU32::new(v).expect("nonzero")
}

// ------------------------------------------------------------------------------------------------
// the environment: RNG streams under a word budget

enum Kind {
    ChaCha(Box<ChaCha20Rng>),
    Zero,
    Ones,
    Alt(u64),
    Counter(u64),
    /// words ceil(j * 2^64 / b) for small b: for an index draw with bound b the product's low half
    /// is below b (Lemire's rejection zone); for b a power of two the word has >= 61 trailing zeros
    Lemire(Box<ChaCha20Rng>),
    /// words 2^(a-1), a uniform in 1..=8: the coin-flip age is a, uniformly (old and over-age
    /// anchors are as frequent as recent ones); index draws yield 0, delays 0
    Ages(Box<ChaCha20Rng>),
}

struct Stream {
    kind: Kind,
    used: u64,
}

impl Stream {
    fn new(name: &str, seed: u64) -> Self {
        let kind = match name {
            "chacha" => Kind::ChaCha(Box::new(ChaCha20Rng::seed_from_u64(seed))),
            "zero" => Kind::Zero,
            "ones" => Kind::Ones,
            "alt" => Kind::Alt(0),
            "counter" => Kind::Counter(0),
            "lemire" => Kind::Lemire(Box::new(ChaCha20Rng::seed_from_u64(seed))),
            "ages" => Kind::Ages(Box::new(ChaCha20Rng::seed_from_u64(seed))),
            other => panic!("unknown stream {other}"),
        };
        Stream { kind, used: 0 }
    }
}

impl RngCore for Stream {
    fn next_u32(&mut self) -> u32 {
        (self.next_u64() >> 32) as u32
    }
    fn next_u64(&mut self) -> u64 {
        self.used += 1;
        if self.used > BUDGET {
            panic!("{}", SPIN);
        }
        match &mut self.kind {
            Kind::ChaCha(r) => r.next_u64(),
            Kind::Zero => 0,
            Kind::Ones => u64::MAX,
            Kind::Alt(i) => {
                *i += 1;
                if *i % 2 == 1 { 0x5555_5555_5555_5555 } else { 0xAAAA_AAAA_AAAA_AAAA }
            }
            Kind::Counter(i) => {
                let v = *i;
                *i += 1;
                v
            }
            Kind::Lemire(r) => {
                let b = r.gen_range(2..=9u128);
                let j = r.gen_range(0..b);
                ((j << 64).div_ceil(b)) as u64
            }
            Kind::Ages(r) => 1u64 << r.gen_range(0..8u32),
        }
    }
    fn fill_bytes(&mut self, dest: &mut [u8]) {
        for chunk in dest.chunks_mut(8) {
            let w = self.next_u64().to_le_bytes();
            chunk.copy_from_slice(&w[..chunk.len()]);
        }
    }
    fn try_fill_bytes(&mut self, dest: &mut [u8]) -> Result<(), rand_core::Error> {
        self.fill_bytes(dest);
        Ok(())
    }
}
impl CryptoRng for Stream {}

/// outcome class of a guarded call
fn oc<T>(r: &Result<T, String>) -> &'static str {
    match r {
        Ok(_) => "ok",
        Err(m) if m.contains(SPIN) => "spin",
        Err(_) => "panic",
    }
}

// ------------------------------------------------------------------------------------------------
// one record per call (or per small batch of calls) into the code under test

fn rec_delay(rng: &str, rs: u64, mean: u32, cap: u32, k: usize) -> Value {
    let dist = DelayDistribution::new(nz(mean), nz(cap));
    let mut s = Stream::new(rng, rs);
    let r = guarded(|| {
        let d = dist.expect("cap >= mean");
        (0..k).map(|_| d.draw(&mut s)).collect::<Vec<u32>>()
    });
    json!({"a": "delay", "rng": rng, "rs": rs, "mean": mean, "cap": cap, "k": k,
           "made": dist.is_some(), "oc": oc(&r), "ds": r.unwrap_or_default()})
}

fn rec_newdist(mean: u32, cap: u32) -> Value {
    let r = guarded(|| DelayDistribution::new(nz(mean), nz(cap)).map(|d| (d.mean().get(), d.cap().get())));
    let (made, m2, c2) = match &r {
        Ok(Some((m, c))) => (true, *m, *c),
        _ => (false, 0, 0),
    };
    json!({"a": "newdist", "mean": mean, "cap": cap, "oc": oc(&r), "made": made, "m2": m2, "c2": c2})
}

/// which: "transfer" (schedule_broadcast_heights), "prep" (schedule_prep_broadcast_heights),
/// "schedule" (schedule: heights paired with expiries). The distribution *not* used by the call is
/// set to a distribution with a different cap, so that mixing them up shows.
fn rec_heights(which: &str, rng: &str, rs: u64, mean: u32, cap: u32, start: u32, n: usize) -> Value {
    let used = DelayDistribution::new(nz(mean), nz(cap)).expect("cap >= mean");
    let other = DelayDistribution::new(nz(cap.saturating_mul(3).max(7)), nz(cap.saturating_mul(5).max(11)))
        .expect("cap >= mean");
    let params = if which == "prep" {
        SchedulingParams::new(AnchorBucketInterval::ZIP_318, other, used)
    } else {
        SchedulingParams::new(AnchorBucketInterval::ZIP_318, used, other)
    };
    let mut s = Stream::new(rng, rs);
    let r = guarded(|| match which {
        "transfer" => (schedule_broadcast_heights(&params, bh(start), n, &mut s), vec![]),
        "prep" => (schedule_prep_broadcast_heights(&params, bh(start), n, &mut s), vec![]),
        "schedule" => {
            let v = schedule(&params, bh(start), n, &mut s);
            (
                v.iter().map(|x| x.broadcast_height()).collect(),
                v.iter().map(|x| x.expiry_height()).collect(),
            )
        }
        other => panic!("harness: unknown which {other}"),
    });
    let (hs, es) = r.clone().unwrap_or_default();
    json!({"a": "heights", "which": which, "rng": rng, "rs": rs, "mean": mean, "cap": cap,
           "start": enc(start), "n": n, "oc": oc(&r),
           "hs": hs.iter().map(|h| enc(hu(*h))).collect::<Vec<_>>(),
           "es": es.iter().map(|h| enc(hu(*h))).collect::<Vec<_>>()})
}

fn rec_zipsched(rng: &str, rs: u64, start: u32, n: usize) -> Value {
    // the real ZIP 318 parameter set, through the constant and through the ratio constructor
    let mut s = Stream::new(rng, rs);
    let r = guarded(|| {
        let p = SchedulingParams::ZIP_318;
        let q = SchedulingParams::new_with_default_distributions(AnchorBucketInterval::ZIP_318);
        let t = schedule(&p, bh(start), n, &mut s);
        let pr = schedule_prep_broadcast_heights(&q, bh(start), n, &mut s);
        (
            t.iter().map(|x| enc(hu(x.broadcast_height()))).collect::<Vec<_>>(),
            t.iter().map(|x| enc(hu(x.expiry_height()))).collect::<Vec<_>>(),
            pr.iter().map(|x| enc(hu(*x))).collect::<Vec<_>>(),
            [
                p.transfer_delay().mean().get(),
                p.transfer_delay().cap().get(),
                q.preparation_delay().mean().get(),
                q.preparation_delay().cap().get(),
                p.anchor_bucket_interval().block_count().get(),
            ],
        )
    });
    let (hs, es, ps, consts) = r.clone().unwrap_or_default();
    json!({"a": "zipsched", "rng": rng, "rs": rs, "start": enc(start), "n": n, "oc": oc(&r),
           "hs": hs, "es": es, "ps": ps, "consts": consts})
}

fn rec_expiry(hs: &[u32]) -> Value {
    let r = guarded(|| hs.iter().map(|h| hu(expiry_height(bh(*h)))).collect::<Vec<u32>>());
    json!({"a": "expiry", "oc": oc(&r), "hs": hs.iter().map(|h| enc(*h)).collect::<Vec<_>>(),
           "es": r.unwrap_or_default().iter().map(|h| enc(*h)).collect::<Vec<_>>()})
}

/// The trait-level forms (default ZIP 318 constants): canonical_expiry, is_canonical_expiry against a
/// reference height, and the height-independent is_canonical_expiry_value, on probe expiries `pe`.
fn rec_cexp(hs: &[u32], pe: &[u32]) -> Value {
    let r = guarded(|| {
        hs.iter()
            .zip(pe)
            .map(|(h, e)| {
                (hu(Zip.canonical_expiry(bh(*h))), Zip.is_canonical_expiry(bh(*e), bh(*h)), Zip.is_canonical_expiry_value(bh(*e)))
            })
            .collect::<Vec<_>>()
    });
    let v = r.clone().unwrap_or_default();
    json!({"a": "cexp", "oc": oc(&r), "hs": hs.iter().map(|h| enc(*h)).collect::<Vec<_>>(),
           "pe": pe.iter().map(|h| enc(*h)).collect::<Vec<_>>(),
           "ce": v.iter().map(|x| enc(x.0)).collect::<Vec<_>>(),
           "isc": v.iter().map(|x| x.1).collect::<Vec<_>>(),
           "iscv": v.iter().map(|x| x.2).collect::<Vec<_>>()})
}

fn rec_shuffle(rng: &str, rs: u64, n: usize) -> Value {
    let mut s = Stream::new(rng, rs);
    let r = guarded(|| shuffle_indices(n, &mut s));
    json!({"a": "shuffle", "rng": rng, "rs": rs, "n": n, "oc": oc(&r), "out": r.unwrap_or_default()})
}

fn rec_shuffle_in_place(rng: &str, rs: u64, inp: &[u32]) -> Value {
    let mut s = Stream::new(rng, rs);
    let mut v = inp.to_vec();
    let r = guarded(|| {
        shuffle_in_place(&mut v, &mut s);
    });
    json!({"a": "shufflein", "rng": rng, "rs": rs, "inp": inp, "oc": oc(&r), "out": v})
}

fn opt_h(o: Option<BlockHeight>) -> (bool, i64) {
    match o {
        Some(h) => (true, enc(hu(h))),
        None => (false, 0),
    }
}

fn rec_anchor(rng: &str, rs: u64, iv: u32, act: u32, fund: u32, tip: u32) -> Value {
    let mut s = Stream::new(rng, rs);
    let r = guarded(|| {
        draw_anchor_boundary(AnchorBucketInterval::custom(nz(iv)), bh(act), bh(fund), bh(tip), &mut s)
    });
    let (some, out) = opt_h(r.clone().unwrap_or(None));
    json!({"a": "anchor", "rng": rng, "rs": rs, "iv": iv, "act": enc(act), "fund": enc(fund), "tip": enc(tip),
           "oc": oc(&r), "some": some, "out": out})
}

fn rec_redraw(rng: &str, rs: u64, iv: u32, prior: u32, bcast: u32) -> Value {
    let mut s = Stream::new(rng, rs);
    let r = guarded(|| redraw_anchor_boundary(AnchorBucketInterval::custom(nz(iv)), bh(prior), bh(bcast), &mut s));
    let (some, out) = opt_h(r.clone().unwrap_or(None));
    json!({"a": "redraw", "rng": rng, "rs": rs, "iv": iv, "prior": enc(prior), "bcast": enc(bcast),
           "oc": oc(&r), "some": some, "out": out})
}

fn rec_earliest(iv: u32, act: u32, fund: u32) -> Value {
    let r = guarded(|| earliest_broadcast_height(AnchorBucketInterval::custom(nz(iv)), bh(act), bh(fund)));
    json!({"a": "earliest", "iv": iv, "act": enc(act), "fund": enc(fund), "oc": oc(&r),
           "out": r.map(|h| enc(hu(h))).unwrap_or(0)})
}

fn rec_grid(iv: u32, hs: &[u32]) -> Value {
    // AnchorBucketInterval's own rounding helpers (zcash_protocol::zip318)
    let i = AnchorBucketInterval::custom(nz(iv));
    let r = guarded(|| {
        hs.iter()
            .map(|h| (hu(i.boundary_at_or_below(bh(*h))), hu(i.boundary_at_or_above(bh(*h))), i.is_boundary(bh(*h))))
            .collect::<Vec<_>>()
    });
    let v = r.clone().unwrap_or_default();
    json!({"a": "grid", "iv": iv, "oc": oc(&r), "hs": hs.iter().map(|h| enc(*h)).collect::<Vec<_>>(),
           "below": v.iter().map(|x| enc(x.0)).collect::<Vec<_>>(),
           "above": v.iter().map(|x| enc(x.1)).collect::<Vec<_>>(),
           "isb": v.iter().map(|x| x.2).collect::<Vec<_>>()})
}

type WakeOut<T> = Result<Result<Vec<(u32, Vec<T>)>, T>, String>;

fn wake_json(r: &WakeOut<u32>) -> (&'static str, i64, Vec<Value>) {
    match r {
        Ok(Ok(ws)) => ("ok", 0, ws.iter().map(|(h, c)| json!({"h": enc(*h), "c": c})).collect()),
        Ok(Err(id)) => ("err", *id as i64, vec![]),
        Err(m) if m.contains(SPIN) => ("spin", 0, vec![]),
        Err(_) => ("panic", 0, vec![]),
    }
}

fn rec_wakeups(rng: &str, rs: u64, margin: u32, jcap: u32, tip: u32, tr: &[(u32, u32, u32)]) -> Value {
    let mut s = Stream::new(rng, rs);
    let params = WakeupParams::new(margin, jcap);
    let input: Vec<(u32, BlockHeight, BlockHeight)> = tr.iter().map(|(id, a, b)| (*id, bh(*a), bh(*b))).collect();
    let r: WakeOut<u32> = guarded(|| match schedule_sync_wakeups(&params, bh(tip), &input, &mut s) {
        Ok(ws) => Ok(ws.iter().map(|w| (hu(w.height()), w.covers().to_vec())).collect()),
        Err(WakeupScheduleError::InfeasibleTransfer(id)) => Err(id),
    });
    let (o, e, ws) = wake_json(&r);
    json!({"a": "wakeups", "rng": rng, "rs": rs, "margin": margin, "jcap": jcap, "tip": enc(tip),
           "tr": tr.iter().map(|(id, a, b)| json!({"id": id, "a": enc(*a), "b": enc(*b)})).collect::<Vec<_>>(),
           "oc": o, "err": e, "ws": ws})
}

fn rec_wakeup_defaults() -> Value {
    let d = WakeupParams::DEFAULT;
    let e = WakeupParams::default();
    json!({"a": "wdefaults", "margin": d.settle_margin(), "jcap": d.jitter_cap(),
           "margin2": e.settle_margin(), "jcap2": e.jitter_cap(),
           "depth": zcash_pool_migration::scheduling::PROVABLE_ANCHOR_DEPTH})
}

/// A migration transaction as far as `sync_wakeup_schedule` looks at it.
#[derive(Clone)]
struct TxSpec {
    id: u32,
    transfer: bool,
    state: String, // awaiting | signed | proved | broadcast | mined
    sched: u32,
    expiry: u32, // 0 = never
    boundary: Option<u32>,
    unsat: bool,
    deps: Vec<u32>,
}

fn rec_state_wakeups(rng: &str, rs: u64, margin: u32, jcap: u32, tip: u32, txs: &[TxSpec]) -> Value {
    let mut s = Stream::new(rng, rs);
    let params = WakeupParams::new(margin, jcap);
    let n_transfers = txs.iter().filter(|t| t.transfer).count();
    let r: WakeOut<u32> = guarded(|| {
        let zat = |v: u64| Zatoshis::from_u64(v).expect("zat");
        let denoms = DenominationPlan::from_stored_parts(
            vec![zat(100_000_000); n_transfers],
            zat(20_000),
            None,
            zat(0),
            zat(100_020_000 * n_transfers as u64),
            zat(100_000_000 * n_transfers as u64),
        )
        .expect("plan parts");
        let mut crossing = 0usize;
        let mut prep_ix = 0usize;
        let transactions: Vec<MigrationTransaction> = txs
            .iter()
            .map(|t| {
                let kind = if t.transfer {
                    crossing += 1;
                    MigrationTxKind::Transfer { crossing: crossing - 1 }
                } else {
                    prep_ix += 1;
                    MigrationTxKind::Preparation { layer: 0, index: prep_ix - 1 }
                };
                let txid = TxId::from_bytes([t.id as u8; 32]);
                let state = match t.state.as_str() {
                    "awaiting" => MigrationTxState::AwaitingSignature,
                    "signed" => MigrationTxState::Signed,
                    "proved" => MigrationTxState::Proved,
                    "broadcast" => MigrationTxState::Broadcast { txid },
                    "mined" => MigrationTxState::Mined { txid, height: bh(tip.saturating_sub(3)) },
                    other => panic!("harness: state {other}"),
                };
                MigrationTransaction::from_parts(
                    MigrationTransferId::new(t.id),
                    kind,
                    vec![],
                    t.deps.iter().map(|d| MigrationTransferId::new(*d)).collect(),
                    bh(t.sched),
                    bh(t.expiry),
                    t.boundary.map(bh),
                    txid,
                    state,
                    None,
                    t.unsat.then(|| (bh(tip), UnsatisfiableKind::InputsSpent)),
                    vec![],
                    None,
                )
            })
            .collect();
        let st = MigrationState::from_parts(
            MigrationStatus::Committed,
            denoms,
            PreparationPlan::from_parts(vec![], vec![]),
            transactions,
            AnchorBucketInterval::ZIP_318,
            ReplanThreshold::DEFAULT,
        );
        match st.sync_wakeup_schedule(bh(tip), &params, &mut s) {
            Ok(ws) => Ok(ws
                .iter()
                .map(|w| (hu(w.height()), w.covers().iter().map(|i| u32::from(*i)).collect()))
                .collect()),
            Err(WakeupScheduleError::InfeasibleTransfer(id)) => Err(u32::from(id)),
        }
    });
    let (o, e, ws) = wake_json(&r);
    json!({"a": "statewake", "rng": rng, "rs": rs, "margin": margin, "jcap": jcap, "tip": enc(tip),
           "txs": txs.iter().map(|t| json!({
               "id": t.id, "transfer": t.transfer, "state": t.state, "sched": enc(t.sched),
               "exp0": t.expiry == 0, "expiry": enc(t.expiry), "hasb": t.boundary.is_some(),
               "boundary": enc(t.boundary.unwrap_or(0)), "unsat": t.unsat, "deps": t.deps})).collect::<Vec<_>>(),
           "oc": o, "err": e, "ws": ws})
}

// ------------------------------------------------------------------------------------------------
// re-execution of logged inputs (replay of a violation, selftest)

fn u(v: &Value) -> u32 {
    v.as_u64().expect("uint") as u32
}
fn rerun_one(r: &Value) -> Value {
    let rng = r["rng"].as_str().unwrap_or("chacha").to_string();
    let rs = r["rs"].as_u64().unwrap_or(0);
    match r["a"].as_str().expect("a") {
        "delay" => rec_delay(&rng, rs, u(&r["mean"]), u(&r["cap"]), u(&r["k"]) as usize),
        "newdist" => rec_newdist(u(&r["mean"]), u(&r["cap"])),
        "heights" => rec_heights(r["which"].as_str().unwrap(), &rng, rs, u(&r["mean"]), u(&r["cap"]),
                                 dec(&r["start"]), u(&r["n"]) as usize),
        "zipsched" => rec_zipsched(&rng, rs, dec(&r["start"]), u(&r["n"]) as usize),
        "expiry" => rec_expiry(&r["hs"].as_array().unwrap().iter().map(dec).collect::<Vec<_>>()),
        "cexp" => rec_cexp(&r["hs"].as_array().unwrap().iter().map(dec).collect::<Vec<_>>(),
                           &r["pe"].as_array().unwrap().iter().map(dec).collect::<Vec<_>>()),
        "shuffle" => rec_shuffle(&rng, rs, u(&r["n"]) as usize),
        "shufflein" => rec_shuffle_in_place(&rng, rs, &r["inp"].as_array().unwrap().iter().map(u).collect::<Vec<_>>()),
        "anchor" => rec_anchor(&rng, rs, u(&r["iv"]), dec(&r["act"]), dec(&r["fund"]), dec(&r["tip"])),
        "redraw" => rec_redraw(&rng, rs, u(&r["iv"]), dec(&r["prior"]), dec(&r["bcast"])),
        "earliest" => rec_earliest(u(&r["iv"]), dec(&r["act"]), dec(&r["fund"])),
        "grid" => rec_grid(u(&r["iv"]), &r["hs"].as_array().unwrap().iter().map(dec).collect::<Vec<_>>()),
        "wdefaults" => rec_wakeup_defaults(),
        "wakeups" => {
            let tr: Vec<(u32, u32, u32)> =
                r["tr"].as_array().unwrap().iter().map(|t| (u(&t["id"]), dec(&t["a"]), dec(&t["b"]))).collect();
            rec_wakeups(&rng, rs, u(&r["margin"]), u(&r["jcap"]), dec(&r["tip"]), &tr)
        }
        "statewake" => {
            let txs: Vec<TxSpec> = r["txs"]
                .as_array()
                .unwrap()
                .iter()
                .map(|t| TxSpec {
                    id: u(&t["id"]),
                    transfer: t["transfer"].as_bool().unwrap(),
                    state: t["state"].as_str().unwrap().to_string(),
                    sched: dec(&t["sched"]),
                    expiry: if t["exp0"].as_bool().unwrap() { 0 } else { dec(&t["expiry"]) },
                    boundary: t["hasb"].as_bool().unwrap().then(|| dec(&t["boundary"])),
                    unsat: t["unsat"].as_bool().unwrap(),
                    deps: t["deps"].as_array().unwrap().iter().map(u).collect(),
                })
                .collect();
            rec_state_wakeups(&rng, rs, u(&r["margin"]), u(&r["jcap"]), dec(&r["tip"]), &txs)
        }
        "pt" => rec_point(&ev_from_json(r)),
        "chain" => rec_chain(&r["pts"].as_array().unwrap().iter().map(ev_from_json).collect::<Vec<_>>()),
        "codes" => rec_codes(),
        other => panic!("harness: unknown record kind {other}"),
    }
}

// ------------------------------------------------------------------------------------------------
// input generation (seeded; independent of the streams handed to the code)

struct Gen {
    g: ChaCha20Rng,
}

impl Gen {
    fn stream(&mut self) -> (&'static str, u64) {
        let rs = self.g.gen_range(0..2_000_000_000u64);
        let k = match self.g.gen_range(0..100) {
            0..=44 => "chacha",
            45..=49 => "ages",
            50..=59 => "lemire",
            60..=69 => "zero",
            70..=79 => "ones",
            80..=89 => "alt",
            _ => "counter",
        };
        (k, rs)
    }
    /// a base height: bottom, low, mainnet-like, or just below u32::MAX
    fn base(&mut self, span: i64) -> i64 {
        match self.g.gen_range(0..10) {
            0..=1 => 0,
            2 => self.g.gen_range(0..5_000),
            3..=5 => self.g.gen_range(2_800_000..3_400_000),
            6 => self.g.gen_range(0..UMAX),
            _ => UMAX - self.g.gen_range(0..=span),
        }
    }
    fn dist(&mut self) -> (u32, u32) {
        match self.g.gen_range(0..10) {
            0 => (66, 576),
            1 => (16, 96),
            2..=4 => {
                let m = self.g.gen_range(1..=5);
                (m, m + self.g.gen_range(0..=6))
            }
            5 => {
                let m = self.g.gen_range(1..=2000);
                (m, m) // cap = mean: the rejection region is as large as the constructor admits
            }
            6 => {
                let m = self.g.gen_range(1..=50_000);
                (m, m * self.g.gen_range(37..=60)) // the all-ones stream is acceptable here
            }
            _ => {
                let m = self.g.gen_range(1..=3000);
                (m, m + self.g.gen_range(0..=4 * m))
            }
        }
    }
    fn interval(&mut self) -> u32 {
        match self.g.gen_range(0..10) {
            0..=3 => self.g.gen_range(1..=6),
            4..=6 => 144,
            7 => self.g.gen_range(7..=5000),
            8 => self.g.gen_range(5000..=40_000_000),
            _ => [1 << 30, (1 << 30) - 1, 1_000_000_000, 715_827_883][self.g.gen_range(0..4)],
        }
    }
    /// a height near `around`, biased to the grid boundaries of `iv` and their neighbours
    fn near(&mut self, around: i64, iv: u32, spread: i64) -> u32 {
        let iv = iv as i64;
        let h = around + self.g.gen_range(-spread..=spread) * if self.g.gen_bool(0.5) { iv } else { 1 };
        let h = match self.g.gen_range(0..4) {
            0 => h - h.rem_euclid(iv),
            1 => h - h.rem_euclid(iv) + self.g.gen_range(-1..=1),
            _ => h,
        };
        clamp(h)
    }
}

fn gen_sched(seed: u64, scale: usize, w: &mut NdjsonWriter) {
    let mut g = Gen { g: ChaCha20Rng::seed_from_u64(seed ^ 0xC17) };
    let thorough = scale >= 8;
    w.emit(&rec_wakeup_defaults());

    // ---- delays, distributions
    for (m, c) in [(1, 1), (2, 1), (66, 576), (576, 66), (16, 96), (5, 4), (1000, 999), (1000, 1000)] {
        w.emit(&rec_newdist(m, c));
    }
    for _ in 0..100 * scale {
        let m = g.g.gen_range(1..5000);
        let c = (m as i64 + g.g.gen_range(-3..=3)).max(1) as u32;
        w.emit(&rec_newdist(m, c));
    }
    for i in 0..400 * scale {
        let (m, c) = g.dist();
        let (k, rs) = if i < 8 { (["zero", "ones", "alt", "counter"][i % 4], 0) } else { g.stream() };
        w.emit(&rec_delay(k, rs, m, c, 40));
    }

    // ---- cumulative heights, schedules
    for i in 0..1500 * scale {
        let (m, c) = g.dist();
        let n = g.g.gen_range(0..=12usize);
        let mut start = clamp(g.base(n as i64 * c as i64 + 3));
        if g.g.gen_bool(0.25) {
            // just below a multiple of the expiry modulus, so that the schedule straddles it
            let k = (start as i64 / 34_560).max(1);
            start = clamp(k * 34_560 - g.g.gen_range(0..=(2 * m as i64 + 2)));
        }
        let (k, rs) = g.stream();
        let which = ["transfer", "prep", "schedule"][i % 3];
        w.emit(&rec_heights(which, k, rs, m, c, start, n));
    }
    for _ in 0..150 * scale {
        let n = g.g.gen_range(0..=12usize);
        let mut start = clamp(g.base(6000));
        if g.g.gen_bool(0.4) {
            let k = (start as i64 / 34_560).max(1);
            start = clamp(k * 34_560 - g.g.gen_range(0..=200));
        }
        let (k, rs) = g.stream();
        w.emit(&rec_zipsched(k, rs, start, n));
    }

    // ---- expiries: around every kind of modulus boundary, the bottom and the top
    let mut hs: Vec<u32> = vec![];
    for k in [0i64, 1, 2, 3, 50, 86, 87, 124_273, 124_274, 124_275, 124_276] {
        for d in [-2i64, -1, 0, 1, 2, 17_280, 34_558] {
            hs.push(clamp(k * 34_560 + d));
        }
    }
    for d in 0..140_000i64 / if thorough { 1 } else { 40 } {
        hs.push(clamp(UMAX - d * if thorough { 1 } else { 40 }));
    }
    for _ in 0..3000 * scale {
        hs.push(clamp(g.base(200_000)));
    }
    for chunk in hs.chunks(50) {
        w.emit(&rec_expiry(chunk));
        // probe expiries: multiples of the modulus around the height, ordinary expiries, neighbours
        let pe: Vec<u32> = chunk
            .iter()
            .map(|h| {
                let h = *h as i64;
                let m = 34_560i64;
                match g.g.gen_range(0..6) {
                    0 => clamp(h + 40),
                    1 => clamp((h / m + g.g.gen_range(0..4)) * m),
                    2 => clamp((h / m + 2) * m + g.g.gen_range(-1..=1)),
                    3 => clamp(g.g.gen_range(0..4) * m),
                    4 => clamp(UMAX - g.g.gen_range(0..3)),
                    _ => clamp((h / m + 2) * m),
                }
            })
            .collect();
        w.emit(&rec_cexp(chunk, &pe));
    }

    // ---- shuffles
    for i in 0..600 * scale {
        let n = if i < 40 { i } else { g.g.gen_range(0..=48usize) };
        let (k, rs) = g.stream();
        w.emit(&rec_shuffle(k, rs, n));
    }
    for _ in 0..300 * scale {
        let n = g.g.gen_range(0..=24usize);
        let inp: Vec<u32> = (0..n).map(|_| g.g.gen_range(0..6)).collect();
        let (k, rs) = g.stream();
        w.emit(&rec_shuffle_in_place(k, rs, &inp));
    }

    // ---- grid helpers
    for _ in 0..300 * scale {
        let iv = g.interval();
        let b = g.base(3 * iv as i64);
        let hs: Vec<u32> = (0..20).map(|_| g.near(b, iv, 3)).collect();
        w.emit(&rec_grid(iv, &hs));
    }

    // ---- anchors
    for _ in 0..5000 * scale {
        let iv = g.interval();
        let b = g.base(9 * iv as i64);
        let tip = g.near(b, iv, 4);
        let t = tip as i64;
        let act = match g.g.gen_range(0..6) {
            0 => 0,
            1 => g.near(t + 2 * iv as i64, iv, 2),
            _ => {
                let k = g.g.gen_range(0..7);
                g.near(t - k * iv as i64, iv, 1)
            }
        };
        let fund = match g.g.gen_range(0..6) {
            0 => 0,
            1 => g.near(t + iv as i64, iv, 2),
            _ => {
                let k = g.g.gen_range(0..7);
                g.near(t - k * iv as i64, iv, 1)
            }
        };
        let (mut k, rs) = g.stream();
        if g.g.gen_bool(0.15) {
            k = "ages";
        }
        w.emit(&rec_anchor(k, rs, iv, act, fund, tip));
        if g.g.gen_bool(0.3) {
            w.emit(&rec_earliest(iv, act, fund));
        }
    }
    for _ in 0..2500 * scale {
        let iv = g.interval();
        let b = g.base(9 * iv as i64);
        let bcast = g.near(b, iv, 4);
        let back = g.g.gen_range(0..7);
        let prior = g.near(bcast as i64 - back * iv as i64, iv, 1);
        let (mut k, rs) = g.stream();
        if g.g.gen_bool(0.15) {
            k = "ages";
        }
        w.emit(&rec_redraw(k, rs, iv, prior, bcast));
    }

    // ---- exhaustive small domains, at the bottom of the height range and at its very top
    for base in [0i64, UMAX - 12] {
        for iv in 1..=3u32 {
            for act in 0..=12 {
                for fund in 0..=12 {
                    for tip in 0..=12 {
                        let s = if (act + fund + tip) % 3 == 0 { "ones" } else { "chacha" };
                        w.emit(&rec_anchor(s, (act * 169 + fund * 13 + tip) as u64, iv, clamp(base + act),
                                           clamp(base + fund), clamp(base + tip)));
                    }
                    if fund % 2 == 0 {
                        w.emit(&rec_earliest(iv, clamp(base + act), clamp(base + fund)));
                    }
                }
                for bcast in 0..=12 {
                    w.emit(&rec_redraw("chacha", (act * 13 + bcast) as u64, iv, clamp(base + act), clamp(base + bcast)));
                }
            }
        }
    }
    for base in [0i64, UMAX - 5] {
        let mut pairs: Vec<(i64, i64)> = vec![];
        for a in 0..=5 {
            for b in 0..=5 {
                if b >= a + 2 || (b == a + 1 && (a == 0 || a == 4)) || (a == 5 && b == 5) {
                    pairs.push((a, b));
                }
            }
        }
        let mut seqs: Vec<Vec<(i64, i64)>> = vec![vec![]];
        for p in &pairs {
            seqs.push(vec![*p]);
            for q in &pairs {
                seqs.push(vec![*p, *q]);
            }
        }
        for (n, sq) in seqs.iter().enumerate() {
            for tip in 0..=5 {
                for (margin, jcap) in [(0, 0), (1, 2), (2, 1), (3, 3)] {
                    let tr: Vec<(u32, u32, u32)> =
                        sq.iter().enumerate().map(|(i, (a, b))| (7 - i as u32, clamp(base + a), clamp(base + b))).collect();
                    let s = ["chacha", "ones", "alt", "counter"][(n + tip as usize) % 4];
                    w.emit(&rec_wakeups(s, (n * 6 + tip as usize) as u64, margin, jcap, clamp(base + tip), &tr));
                }
            }
        }
    }

    // ---- wake-ups, small instances (minimality against brute force inside TLC)
    for _ in 0..5000 * scale {
        let span = 15i64;
        let b = g.base(span);
        let b = b.min(UMAX - span);
        let tip = clamp(b + g.g.gen_range(0..=span));
        let k = g.g.gen_range(0..=5usize);
        let mut ids: Vec<u32> = vec![];
        while ids.len() < k {
            let id = g.g.gen_range(0..40);
            if !ids.contains(&id) {
                ids.push(id);
            }
        }
        let tr: Vec<(u32, u32, u32)> = ids
            .iter()
            .map(|id| {
                let a = b + g.g.gen_range(0..=13);
                let bb = if g.g.gen_bool(0.92) {
                    (a + 2 + g.g.gen_range(0..=8)).min(b + span)
                } else {
                    b + g.g.gen_range(0..=span)
                };
                (*id, clamp(a), clamp(bb))
            })
            .collect();
        let (s, rs) = g.stream();
        w.emit(&rec_wakeups(s, rs, g.g.gen_range(0..=3), g.g.gen_range(0..=4), tip, &tr));
    }
    // ---- wake-ups, ZIP 318-sized instances (grid 144, default and nearby parameters)
    for _ in 0..1500 * scale {
        let iv = 144i64;
        let b = g.base(12 * iv);
        let b0 = (b - b.rem_euclid(iv)).min(UMAX - 12 * iv);
        let k = g.g.gen_range(0..=7usize);
        let tr: Vec<(u32, u32, u32)> = (0..k)
            .map(|i| {
                let a = b0 + g.g.gen_range(0..6) * iv;
                let bb = a + iv + g.g.gen_range(0..=5 * iv);
                (100 + i as u32, clamp(a), clamp(bb))
            })
            .collect();
        let tip = clamp(b0 + g.g.gen_range(-iv..=9 * iv));
        let (margin, jcap) = if g.g.gen_bool(0.6) { (10, 12) } else { (g.g.gen_range(0..=20), g.g.gen_range(0..=40)) };
        let (s, rs) = g.stream();
        w.emit(&rec_wakeups(s, rs, margin, jcap, tip, &tr));
    }
    // ---- MigrationState::sync_wakeup_schedule
    for _ in 0..800 * scale {
        let span = 15i64;
        let b = g.base(span).min(UMAX - span);
        let tip = clamp(b + g.g.gen_range(0..=span));
        let k = g.g.gen_range(1..=7usize);
        let mut txs: Vec<TxSpec> = vec![];
        for i in 0..k {
            let a = b + g.g.gen_range(0..=12);
            let transfer = g.g.gen_bool(0.75);
            let state = ["awaiting", "signed", "signed", "signed", "proved", "broadcast", "mined"]
                [g.g.gen_range(0..7)];
            let expiry = match g.g.gen_range(0..8) {
                0 => 0,
                1 => clamp(tip as i64 + g.g.gen_range(-2..=2)),
                2 => clamp(tip as i64 - g.g.gen_range(0..5)),
                _ => clamp(tip as i64 + 40 + g.g.gen_range(0..100_000)),
            };
            let deps: Vec<u32> = if i > 0 && g.g.gen_bool(0.35) { vec![txs[g.g.gen_range(0..i)].id] } else { vec![] };
            txs.push(TxSpec {
                id: 3 * i as u32 + g.g.gen_range(0..3),
                transfer,
                state: state.to_string(),
                sched: clamp((a + 2 + g.g.gen_range(0..=8)).min(b + span)),
                expiry,
                boundary: if !transfer || g.g.gen_bool(0.1) { None } else { Some(clamp(a)) },
                unsat: g.g.gen_bool(0.08),
                deps,
            });
        }
        let (s, rs) = g.stream();
        w.emit(&rec_state_wakeups(s, rs, g.g.gen_range(0..=3), g.g.gen_range(0..=4), tip, &txs));
    }
}

// ------------------------------------------------------------------------------------------------
// classification: the implementation's whole table over the evidence lattice

struct Zip;
impl PoolMigrationConstants for Zip {}

/// concrete evidence, as logged: counts -1 = unanswered; tri-state 0 = unanswered, 1 = true, 2 = false;
/// value: None or zatoshi
#[derive(Clone, Debug)]
struct Ev {
    src: i64,
    dst: i64,
    ob: u8,
    sts: u8,
    val: Option<u64>,
    exp: u8,
    aog: u8,
    fee: u8,
}

fn tri(v: u8) -> Option<bool> {
    match v {
        0 => None,
        1 => Some(true),
        _ => Some(false),
    }
}

fn digits(v: u64) -> Vec<u32> {
    v.to_string().bytes().map(|b| (b - b'0') as u32).collect()
}

fn ev_json(e: &Ev) -> Value {
    json!({"src": e.src, "dst": e.dst, "ob": e.ob, "sts": e.sts, "vs": e.val.is_some(),
           "val": e.val.map(digits).unwrap_or_default(), "exp": e.exp, "aog": e.aog, "fee": e.fee})
}

fn ev_from_json(r: &Value) -> Ev {
    let val = if r["vs"].as_bool().unwrap() {
        Some(r["val"].as_array().unwrap().iter().fold(0u64, |acc, d| acc * 10 + d.as_u64().unwrap()))
    } else {
        None
    };
    Ev {
        src: r["src"].as_i64().unwrap(),
        dst: r["dst"].as_i64().unwrap(),
        ob: u(&r["ob"]) as u8,
        sts: u(&r["sts"]) as u8,
        val,
        exp: u(&r["exp"]) as u8,
        aog: u(&r["aog"]) as u8,
        fee: u(&r["fee"]) as u8,
    }
}

fn label(c: Zip318Classification) -> &'static str {
    match c {
        Zip318Classification::Unknown => "U",
        Zip318Classification::Nonconforming => "N",
        Zip318Classification::Conforms(Zip318TxKind::Preparation) => "P",
        Zip318Classification::Conforms(Zip318TxKind::Transfer) => "T",
    }
}

fn classify_real(e: &Ev) -> Result<&'static str, String> {
    guarded(|| {
        let ev = Zip318Evidence::default()
            .with_source_actions((e.src >= 0).then_some(e.src as usize))
            .with_destination_actions((e.dst >= 0).then_some(e.dst as usize))
            .with_other_bundles_present(tri(e.ob))
            .with_source_is_send_to_self(tri(e.sts))
            .with_sole_destination_value(e.val.map(|v| Zatoshis::from_u64(v).expect("harness: zatoshi range")))
            .with_expiry_is_canonical(tri(e.exp))
            .with_anchor_on_grid(tri(e.aog))
            .with_fee_is_canonical(tri(e.fee));
        label(classify(&ev, &Zip))
    })
}

fn rec_point(e: &Ev) -> Value {
    let r = classify_real(e);
    let mut v = ev_json(e);
    v["a"] = json!("pt");
    v["oc"] = json!(oc(&r));
    v["r"] = json!(r.unwrap_or("X"));
    v
}

fn rec_chain(pts: &[Ev]) -> Value {
    let out: Vec<Value> = pts
        .iter()
        .map(|e| {
            let r = classify_real(e);
            let mut v = ev_json(e);
            v["oc"] = json!(oc(&r));
            v["r"] = json!(r.unwrap_or("X"));
            v
        })
        .collect();
    json!({"a": "chain", "pts": out})
}

fn rec_codes() -> Value {
    let all = [
        Zip318Classification::Unknown,
        Zip318Classification::Nonconforming,
        Zip318Classification::Conforms(Zip318TxKind::Preparation),
        Zip318Classification::Conforms(Zip318TxKind::Transfer),
    ];
    let r = guarded(|| {
        let to: Vec<Value> = all
            .iter()
            .map(|c| {
                let code = c.to_code();
                json!({"l": label(*c), "code": code.clamp(-1_000_000, 1_000_000),
                       "back": label(Zip318Classification::from_code(code))})
            })
            .collect();
        let mut from: Vec<Value> = vec![];
        let mut cs: Vec<i64> = (-6..=12).collect();
        cs.extend([255, 256, 257, 65_536, i32::MAX as i64, -(i32::MAX as i64)]);
        for c in cs {
            from.push(json!({"code": c, "l": label(Zip318Classification::from_code(c))}));
        }
        // codes beyond TLC's integers travel as strings; the claim for them is only "Unknown"
        let mut far: Vec<Value> = vec![];
        for c in [i64::MAX, i64::MIN, 1 << 32, (1 << 32) + 1, (1 << 32) + 2, (1 << 32) + 3, -(1 << 32) + 1] {
            far.push(json!({"code": c.to_string(), "l": label(Zip318Classification::from_code(c))}));
        }
        (to, from, far)
    });
    let (to, from, far) = r.clone().unwrap_or_default();
    json!({"a": "codes", "oc": oc(&r), "to": to, "from": from, "far": far})
}

const SRC_PRIMARY: [i64; 4] = [-1, 2, 16, 3];
const DST_PRIMARY: [i64; 4] = [-1, 0, 1, 2];
const VAL_PRIMARY: [Option<u64>; 3] = [None, Some(100_000_000), Some(300_000_000)];
const SRC_ALT: [i64; 12] = [-1, 2, 16, 0, 1, 3, 4, 15, 17, 18, 32, 1000];
const DST_ALT: [i64; 8] = [-1, 0, 1, 2, 3, 16, 17, 100];
const VAL_CANON: [u64; 8] = [
    1_000_000, 2_000_000, 5_000_000, 10_000_000, 200_000_000, 500_000_000_000, 1_000_000_000_000, 100_000_000,
];
const VAL_NONCANON: [u64; 14] = [
    0, 1, 2, 5, 100_000, 500_000, 999_999, 1_000_001, 3_000_000, 1_100_000, 2_000_000_000_000, 5_000_000_000_000,
    1_000_000_000_001, 2_100_000_000_000_000,
];

fn gen_classify(seed: u64, chains: usize, w: &mut NdjsonWriter) {
    w.emit(&rec_codes());
    // the whole table, in the canonical (mixed radix) order Trace_Classify.tla decodes
    for s in 0..4 {
        for d in 0..4 {
            for ob in 0..3u8 {
                for sts in 0..3u8 {
                    for v in 0..3 {
                        for exp in 0..3u8 {
                            for aog in 0..3u8 {
                                for fee in 0..3u8 {
                                    w.emit(&rec_point(&Ev {
                                        src: SRC_PRIMARY[s],
                                        dst: DST_PRIMARY[d],
                                        ob,
                                        sts,
                                        val: VAL_PRIMARY[v],
                                        exp,
                                        aog,
                                        fee,
                                    }));
                                }
                            }
                        }
                    }
                }
            }
        }
    }
    // chains of growing evidence with other representatives of every clause class
    let mut g = ChaCha20Rng::seed_from_u64(seed ^ 0x318);
    for _ in 0..chains {
        let val = match g.gen_range(0..3) {
            0 => VAL_CANON[g.gen_range(0..VAL_CANON.len())],
            1 => VAL_NONCANON[g.gen_range(0..VAL_NONCANON.len())],
            _ => {
                // a random 1-2-5 or near-1-2-5 value
                let k = g.gen_range(0..15u32);
                let m = [1u64, 2, 5, 3, 10][g.gen_range(0..5)];
                (m * 10u64.pow(k) + if g.gen_bool(0.2) { 1 } else { 0 }).min(2_100_000_000_000_000)
            }
        };
        let full = Ev {
            src: if g.gen_bool(0.6) { [2, 16][g.gen_range(0..2)] } else { SRC_ALT[g.gen_range(1..SRC_ALT.len())] },
            dst: if g.gen_bool(0.7) { g.gen_range(0..2) } else { DST_ALT[g.gen_range(1..DST_ALT.len())] },
            ob: if g.gen_bool(0.8) { 2 } else { 1 },
            sts: g.gen_range(1..3),
            val: Some(val),
            exp: if g.gen_bool(0.8) { 1 } else { 2 },
            aog: if g.gen_bool(0.7) { g.gen_range(0..2) } else { 2 },
            fee: if g.gen_bool(0.7) { g.gen_range(0..2) } else { 2 },
        };
        let mut order: Vec<usize> = (0..6).collect();
        for i in (1..6).rev() {
            order.swap(i, g.gen_range(0..=i));
        }
        let mut cur = Ev { src: -1, dst: -1, ob: 0, sts: 0, val: None, exp: 0, aog: full.aog, fee: full.fee };
        let mut pts = vec![cur.clone()];
        for c in order {
            match c {
                0 => cur.src = full.src,
                1 => cur.dst = full.dst,
                2 => cur.ob = full.ob,
                3 => cur.sts = full.sts,
                4 => cur.val = full.val,
                _ => cur.exp = full.exp,
            }
            pts.push(cur.clone());
        }
        w.emit(&rec_chain(&pts));
    }
}


// ------------------------------------------------------------------------------------------------
// classify_decrypted_tx: evidence assembled from a (generated) transaction and decrypted outputs

type OBundle = orchard::Bundle<orchard::bundle::Authorized, ZatBalance>;
type DOut = DecryptedOutput<(orchard::Note, orchard::ValuePool), u32>;

fn sample<S: Strategy>(runner: &mut TestRunner, s: &S) -> S::Value {
    s.new_tree(runner).expect("strategy").current()
}

/// re-issues a generated bundle under the bundle version of the v6 slot it goes into
fn with_version(b: OBundle, v: orchard::bundle::BundleVersion) -> OBundle {
    let mut byte = u8::from(b.flags().spends_enabled()) | (u8::from(b.flags().outputs_enabled()) << 1);
    if v == orchard::bundle::BundleVersion::ironwood_v3() {
        byte |= 0b100;
    }
    let flags = orchard::bundle::Flags::from_byte(byte, v).expect("flags");
    orchard::Bundle::try_from_parts(b.actions().clone(), flags, *b.value_balance(), *b.anchor(), b.authorization().clone(), v)
        .expect("bundle")
}

fn gen_dtx(seed: u64, count: usize, w: &mut NdjsonWriter) {
    use zcash_primitives::transaction::components::{orchard::testing as t_orch, sapling::testing as t_sap};
    let mut seed_bytes = [0u8; 32];
    seed_bytes[..8].copy_from_slice(&(seed ^ 0xD7C5).to_le_bytes());
    let mut runner = TestRunner::new_with_rng(Config::default(), TestRng::from_seed(RngAlgorithm::ChaCha, &seed_bytes));
    let mut g = ChaCha20Rng::seed_from_u64(seed ^ 0xD7);
    // pools of parts (generated once; a transaction is a combination)
    let orch_counts = [2usize, 16, 1, 3, 15, 17];
    let orch: Vec<OBundle> = orch_counts
        .iter()
        .map(|n| with_version(sample(&mut runner, &t_orch::arb_bundle(*n)), orchard::bundle::BundleVersion::orchard_v3()))
        .collect();
    let iron: Vec<OBundle> = [1usize, 2, 3]
        .iter()
        .map(|n| with_version(sample(&mut runner, &t_orch::arb_bundle(*n)), orchard::bundle::BundleVersion::ironwood_v3()))
        .collect();
    // other bundles: inputs only, outputs only, both, and a present-but-empty transparent bundle
    let tp_full = loop {
        if let Some(b) = sample(&mut runner, &zcash_transparent::bundle::testing::arb_bundle()) {
            if !b.vin.is_empty() && !b.vout.is_empty() {
                break b;
            }
        }
    };
    let mut tps = vec![tp_full.clone(), tp_full.clone(), tp_full.clone(), tp_full];
    tps[1].vout.clear();
    tps[2].vin.clear();
    tps[3].vin.clear();
    tps[3].vout.clear();
    let sap_full = loop {
        if let Some(b) = sample(&mut runner, &t_sap::arb_bundle()) {
            if !b.shielded_spends().is_empty() && !b.shielded_outputs().is_empty() {
                break b;
            }
        }
    };
    let sap_part = |spends: bool, outputs: bool| {
        sapling::Bundle::from_parts(
            if spends { sap_full.shielded_spends().to_vec() } else { vec![] },
            if outputs { sap_full.shielded_outputs().to_vec() } else { vec![] },
            *sap_full.value_balance(),
            sap_full.authorization().clone(),
        )
        .expect("non-empty sapling bundle")
    };
    let saps = vec![sap_part(true, true), sap_part(true, false), sap_part(false, true)];
    let note = |runner: &mut TestRunner, v: u64, ver| {
        sample(runner, &orchard::note::testing::arb_note(orchard::value::NoteValue::from_raw(v), ver))
    };
    for _ in 0..count {
        // aim at a shape (preparation-like, crossing-like, anything), then let single clauses go wrong
        let shape = g.gen_range(0..10);
        let off = |g: &mut ChaCha20Rng| g.gen_bool(0.12);
        let (mut o, mut i) = match shape {
            0..=3 => (Some(1usize), None),          // 16 Orchard actions, no Ironwood bundle
            4..=7 => (Some(0usize), Some(0usize)),  // 2 Orchard actions, 1 Ironwood action
            _ => (Some(g.gen_range(0..orch.len())), Some(g.gen_range(0..iron.len()))),
        };
        if off(&mut g) {
            o = if g.gen_bool(0.3) { None } else { Some(g.gen_range(0..orch.len())) };
        }
        if off(&mut g) {
            i = if g.gen_bool(0.4) { None } else { Some(g.gen_range(0..iron.len())) };
        }
        let tp = if g.gen_bool(0.9) { None } else { Some(g.gen_range(0..tps.len())) };
        let sp = if g.gen_bool(0.93) { None } else { Some(g.gen_range(0..saps.len())) };
        let m = 34_560i64;
        let expiry = match g.gen_range(0..16) {
            0 => clamp(g.gen_range(0..UMAX)),
            1 => 0,
            2 => clamp(m),
            3 => clamp(g.gen_range(2..100) * m + [-1, 1, 40][g.gen_range(0..3)]),
            4 => clamp(2 * m),
            5 => clamp(124_274 * m),
            _ => clamp(g.gen_range(2..100) * m),
        };
        // what the wallet could decrypt
        let kinds = ["int", "in", "out", "wint"];
        let n_oo = if g.gen_bool(0.85) { g.gen_range(1..=3) } else { 0 };
        let orch_outs: Vec<&str> = (0..n_oo).map(|_| if g.gen_bool(0.93) { "int" } else { kinds[g.gen_range(0..4)] }).collect();
        let n_io = match g.gen_range(0..12) {
            0 => 0,
            1 => 2,
            2 => 3,
            _ => 1,
        };
        let iw_vals: Vec<u64> = (0..n_io)
            .map(|_| match g.gen_range(0..5) {
                0 => VAL_NONCANON[g.gen_range(0..VAL_NONCANON.len() - 1)],
                _ => VAL_CANON[g.gen_range(0..VAL_CANON.len())],
            })
            .collect();
        let tt = |k: &str| match k {
            "int" => TransferType::AccountInternal,
            "in" => TransferType::Incoming,
            "out" => TransferType::Outgoing,
            _ => TransferType::WalletInternal,
        };
        let oo: Vec<DOut> = orch_outs
            .iter()
            .enumerate()
            .map(|(ix, k)| {
                DecryptedOutput::new(ix, (note(&mut runner, 1000 + ix as u64, orchard::note::NoteVersion::V2), orchard::ValuePool::Orchard),
                                     ShieldedPool::Orchard, 0u32, MemoBytes::empty(), tt(k))
            })
            .collect();
        let io: Vec<DOut> = iw_vals
            .iter()
            .enumerate()
            .map(|(ix, v)| {
                DecryptedOutput::new(ix, (note(&mut runner, *v, orchard::note::NoteVersion::V3), orchard::ValuePool::Ironwood),
                                     ShieldedPool::Ironwood, 0u32, MemoBytes::empty(), TransferType::Incoming)
            })
            .collect();
        let data = TransactionData::from_parts_v6(
            BranchId::Nu6_3,
            0,
            bh(expiry),
            tp.map(|k| tps[k].clone()),
            sp.map(|k| saps[k].clone()),
            o.map(|k| orch[k].clone()),
            i.map(|k| iron[k].clone()),
        );
        let built = guarded(|| data.freeze());
        let tx = match built {
            Ok(Ok(tx)) => tx,
            _ => panic!("harness: could not assemble a v6 transaction"),
        };
        // the projection of the transaction is read with the harness' own eyes (zcash_primitives accessors)
        let src = tx.orchard_bundle().map_or(0, |b| b.actions().len());
        let dst = tx.ironwood_bundle().map_or(0, |b| b.actions().len());
        let (tpin, tpout) = tx.transparent_bundle().map_or((0, 0), |b| (b.vin.len(), b.vout.len()));
        let (ssp, sout) = tx.sapling_bundle().map_or((0, 0), |b| (b.shielded_spends().len(), b.shielded_outputs().len()));
        let r = guarded(|| label(classify_decrypted_tx(&tx, &oo, &io, &Zip)));
        w.emit(&json!({"a": "dtx", "src": src, "dst": dst, "tpin": tpin, "tpout": tpout, "ssp": ssp, "sout": sout,
                       "expiry": enc(hu(tx.expiry_height())), "oouts": orch_outs,
                       "ivals": iw_vals.iter().map(|v| digits(*v)).collect::<Vec<_>>(),
                       "oc": oc(&r), "r": r.unwrap_or("X")}));
    }
}

fn main() {
    quiet_panics();
    let args: Vec<String> = std::env::args().collect();
    let seed = seed_from_env();
    let n = match args[1].as_str() {
        "sched" => {
            let mut w = NdjsonWriter::create(&args[2]);
            gen_sched(seed, args[3].parse().expect("scale"), &mut w);
            w.finish()
        }
        "classify" => {
            let mut w = NdjsonWriter::create(&args[2]);
            gen_classify(seed, args[3].parse().expect("chains"), &mut w);
            w.finish()
        }
        "dtx" => {
            let mut w = NdjsonWriter::create(&args[2]);
            gen_dtx(seed, args[3].parse().expect("count"), &mut w);
            w.finish()
        }
        "rerun" => {
            let recs = read_ndjson(&args[2]);
            let mut w = NdjsonWriter::create(&args[3]);
            for r in &recs {
                w.emit(&rerun_one(r));
            }
            w.finish()
        }
        other => panic!("usage: unknown mode {other}"),
    };
    println!("{}", json!({"records": n, "seed": seed}));
}
