//! C16 code -> spec driver (trace validation at the normative scale).
//!
//! Calls the real `plan_denominations` (ZIP 318 constants: DENOM_CAP, MAX_RESIDUAL_VALUE, 14 funding
//! outputs per preparation transaction) and `CanonicalOneTwoFive::new(..).plan` (other large
//! parameters) on balances at every denomination boundary +- small deltas, at note-count fee steps,
//! at MAX_MONEY and at seeded random points, under refusing / over-charging / inconsistent
//! preparation-cost oracles, and logs inputs, the oracle's answers and the resulting plan as
//! little-endian decimal digit arrays (TLC integers are 32-bit).  Also logs
//! `DenominationPlan::from_stored_parts` on valid and invalid stored parts, and
//! `largest_one_two_five` / `is_canonical_denomination` tables.  `Trace_Denomination.tla`
//! re-evaluates the rule on every line.  Nothing is judged here.
//!
//! usage: c16_driver <out.ndjson> <quick|thorough>      env VERIF_SEED
//!        c16_driver --replay <recorded.ndjson> <out.ndjson>
use std::cell::{Cell, RefCell};
use std::num::NonZeroUsize;

use h_tx::util::{NdjsonWriter, guarded, quiet_panics, seed_from_env};
use rand::{Rng, SeedableRng};
use rand_chacha::ChaCha20Rng;
use rand_core::{CryptoRng, RngCore};
use serde_json::{Value, json};
use zcash_pool_migration::denomination::{
    CanonicalOneTwoFive, DenominationPlan, DenominationStrategy, plan_denominations,
};
use zcash_protocol::value::{BalanceError, MAX_MONEY, Zatoshis};
use zcash_protocol::zip318::{is_canonical_denomination, largest_one_two_five};

struct ConstRng(u64);
impl RngCore for ConstRng {
    fn next_u32(&mut self) -> u32 {
        self.0 as u32
    }
    fn next_u64(&mut self) -> u64 {
        self.0
    }
    fn fill_bytes(&mut self, dest: &mut [u8]) {
        for b in dest.iter_mut() {
            *b = self.0 as u8;
        }
    }
    fn try_fill_bytes(&mut self, dest: &mut [u8]) -> Result<(), rand_core::Error> {
        self.fill_bytes(dest);
        Ok(())
    }
}
impl CryptoRng for ConstRng {}

/// little-endian decimal digits; zero is `[0]`
fn dg(mut v: u64) -> Value {
    let mut d = vec![];
    loop {
        d.push(v % 10);
        v /= 10;
        if v == 0 {
            break;
        }
    }
    json!(d)
}
fn dgs(vs: &[u64]) -> Value {
    Value::Array(vs.iter().map(|&v| dg(v)).collect())
}
fn zat(v: u64) -> Zatoshis {
    Zatoshis::from_u64(v).expect("driver keeps amounts within MAX_MONEY")
}
fn zs(vs: &[Zatoshis]) -> Vec<u64> {
    vs.iter().map(|&z| u64::from(z)).collect()
}

const F: usize = 14; // FUNDING_OUTPUTS_PER_TX, restated (the specification has its own constant)

#[derive(Clone, Debug)]
enum Oracle {
    Stub,           // ceil(len / 14)
    Assumed,        // 0 when the lone note is the balance, else ceil(len / 14)
    Refuse,         // always None
    RefuseK(usize), // None k times, then the stub
    Over(u64),      // stub + extra
    Tight(bool),    // largest count that fits (false) / smallest that does not (true), capped
    Random(u64),    // seeded: None or 0..=5
    Flip,           // 10^6, None, then stub
    /// an answer whose fees cannot be paid by any balance, for the first `k` questions, then the stub.
    /// kind 0: 9 * 10^18; 1: usize::MAX; 2: the smallest n with n * fee > u64::MAX; 3: the largest n
    /// with n * fee <= u64::MAX (the product is representable, product + notes may not be)
    Huge(u8, usize),
    Script(Vec<i128>), // replay of logged answers (-1 = None; None once exhausted)
}

#[derive(Clone, Debug)]
struct Input {
    /// None: plan_denominations (normative bounds); Some((min_exp, max_denom)): CanonicalOneTwoFive::new
    custom: Option<(u32, u64)>,
    cap: usize,
    nc: usize,
    total: u64,
    buffer: u64,
    fee: u64,
    oracle: Oracle,
}

struct Run {
    /// Err: the call panicked (the answers given up to that point are still recorded)
    plan: Result<DenominationPlan, String>,
    answers: Vec<i128>,
    queries: Vec<Vec<u64>>,
}

fn call<R: RngCore + CryptoRng>(inp: &Input, nc: usize, script: Option<&[i128]>, rng: &mut R) -> Run {
    let idx = Cell::new(0usize);
    let answers: RefCell<Vec<i128>> = RefCell::new(vec![]);
    let queries: RefCell<Vec<Vec<u64>>> = RefCell::new(vec![]);
    let total = inp.total;
    let fee = inp.fee;
    let oracle_kind = inp.oracle.clone();
    let oracle = |notes: &[Zatoshis]| -> Option<usize> {
        let i = idx.get();
        idx.set(i + 1);
        let q = zs(notes);
        let stub = q.len().div_ceil(F);
        let ans: Option<usize> = if let Some(s) = script {
            // replay of a previous run's answers (RNG / note-count independence)
            match s.get(i) {
                Some(&a) if a >= 0 => Some(a as usize),
                _ => None,
            }
        } else {
            match &oracle_kind {
                Oracle::Stub => Some(stub),
                Oracle::Assumed => {
                    if nc == 1 && q.len() == 1 && q[0] == total {
                        Some(0)
                    } else {
                        Some(stub)
                    }
                }
                Oracle::Refuse => None,
                Oracle::RefuseK(k) => {
                    if i < *k {
                        None
                    } else {
                        Some(stub)
                    }
                }
                Oracle::Over(x) => Some(stub + *x as usize),
                Oracle::Tight(over) => {
                    let sum: u64 = q.iter().sum();
                    let room = total.saturating_sub(sum);
                    let fit = if fee == 0 { 1_000_000 } else { (room / fee).min(1_000_000) };
                    Some((fit + if *over { 1 } else { 0 }) as usize)
                }
                Oracle::Random(s) => {
                    let mut g = ChaCha20Rng::seed_from_u64(s.wrapping_mul(0x9e3779b97f4a7c15).wrapping_add(i as u64));
                    if g.gen_range(0..10) < 3 { None } else { Some(g.gen_range(0..=5)) }
                }
                Oracle::Script(a) => match a.get(i) {
                    Some(&x) if x >= 0 => Some(x as usize),
                    _ => None,
                },
                Oracle::Huge(kind, k) => {
                    if i < *k {
                        Some(match kind {
                            0 => 9_000_000_000_000_000_000usize,
                            1 => usize::MAX,
                            2 => if fee == 0 { usize::MAX } else { ((u64::MAX / fee) as usize).saturating_add(1) },
                            _ => if fee == 0 { usize::MAX - 1 } else { (u64::MAX / fee) as usize },
                        })
                    } else {
                        Some(stub)
                    }
                }
                Oracle::Flip => match i % 3 {
                    0 => Some(1_000_000),
                    1 => None,
                    _ => Some(stub),
                },
            }
        };
        answers.borrow_mut().push(ans.map(|a| a as i128).unwrap_or(-1));
        queries.borrow_mut().push(q);
        ans
    };
    let plan = guarded(|| match inp.custom {
        None => plan_denominations(
            zat(inp.total),
            nc,
            NonZeroUsize::new(inp.cap).expect("cap >= 1"),
            zat(inp.buffer),
            zat(inp.fee),
            &oracle,
            rng,
        ),
        Some((min_exp, max_denom)) => CanonicalOneTwoFive::new(inp.cap, zat(max_denom), zat(10u64.pow(min_exp)), zat(inp.buffer))
            .plan(zat(inp.total), nc, zat(inp.fee), &oracle, rng),
    });
    Run { plan, answers: answers.into_inner(), queries: queries.into_inner() }
}

/// oracle answers in the trace: a digit array, or [-1] for None (counts up to usize::MAX occur)
fn answers_json(a: &[i128]) -> Value {
    Value::Array(a.iter().map(|&x| if x < 0 { json!([-1]) } else { dg(x as u64) }).collect())
}

fn stored_same(p: &DenominationPlan) -> bool {
    matches!(
        guarded(|| DenominationPlan::from_stored_parts(
            p.crossing_values().to_vec(),
            p.note_fee_buffer(),
            p.change(),
            p.prep_fees(),
            p.total_input(),
            p.total_migratable(),
        )),
        Ok(Ok(q)) if q == *p
    )
}

fn plan_event(inp: &Input, seq: u64) -> Value {
    let (min_exp, max_denom) = inp.custom.unwrap_or((6, 1_000_000_000_000));
    let mut ev = json!({
        "a": "plan",
        "via": if inp.custom.is_some() { "new" } else { "plan_denominations" },
        "minExp": min_exp, "maxDenom": dg(max_denom),
        "cap": inp.cap, "nc": inp.nc,
        "total": dg(inp.total), "buffer": dg(inp.buffer), "fee": dg(inp.fee),
        "oracle": format!("{:?}", inp.oracle),
    });
    let o = ev.as_object_mut().unwrap();
    let run = call(inp, inp.nc, None, &mut ChaCha20Rng::seed_from_u64(seq));
    o.insert("answers".into(), answers_json(&run.answers));
    match &run.plan {
        Err(msg) => {
            o.insert("outcome".into(), json!("panic"));
            o.insert("panic".into(), json!(msg));
            for k in ["q0", "qlens", "crossings", "outputs"] {
                o.insert(k.into(), json!([]));
            }
            for k in ["change", "prepFees", "totalInput", "migratable", "bufferOut"] {
                o.insert(k.into(), dg(0));
            }
            for k in ["changeNone", "qPrefixOk", "rngSame", "ncSame", "storedSame"] {
                o.insert(k.into(), json!(false));
            }
        }
        Ok(p) => {
            o.insert("outcome".into(), json!("ok"));
            o.insert("panic".into(), json!(""));
            let q0 = run.queries.first().cloned().unwrap_or_default();
            o.insert("q0".into(), dgs(&q0));
            o.insert("qlens".into(), json!(run.queries.iter().map(|q| q.len()).collect::<Vec<_>>()));
            let prefix_ok = run.queries.iter().enumerate().all(|(j, q)| j <= q0.len() && *q == q0[..q0.len() - j]);
            o.insert("qPrefixOk".into(), json!(prefix_ok));
            o.insert("crossings".into(), dgs(&zs(p.crossing_values())));
            let outs = guarded(|| zs(&p.migration_outputs()));
            o.insert("outputs".into(), dgs(&outs.clone().unwrap_or_default()));
            if outs.is_err() {
                o.insert("outcome".into(), json!("panic"));
                o.insert("panic".into(), json!("migration_outputs panicked"));
            }
            o.insert("change".into(), dg(p.change().map(u64::from).unwrap_or(0)));
            o.insert("changeNone".into(), json!(p.change().is_none()));
            o.insert("prepFees".into(), dg(u64::from(p.prep_fees())));
            o.insert("totalInput".into(), dg(u64::from(p.total_input())));
            o.insert("migratable".into(), dg(u64::from(p.total_migratable())));
            o.insert("bufferOut".into(), dg(u64::from(p.note_fee_buffer())));
            // the plan does not depend on the random generator: same answers, three other generators
            let script = run.answers.clone();
            let same = |r: Run| matches!(&r.plan, Ok(x) if x == p) && r.answers == script;
            let rng_same = same(call(inp, inp.nc, Some(&script), &mut ChaCha20Rng::seed_from_u64(!seq)))
                && same(call(inp, inp.nc, Some(&script), &mut ConstRng(0)))
                && same(call(inp, inp.nc, Some(&script), &mut ConstRng(u64::MAX)));
            o.insert("rngSame".into(), json!(rng_same));
            // nor on the note count beyond the `== 1` bit
            let nc_same = if inp.nc == 1 {
                true
            } else {
                [2usize, 3, 4, 250].iter().all(|&c| same(call(inp, c, Some(&script), &mut ChaCha20Rng::seed_from_u64(seq))))
            };
            o.insert("ncSame".into(), json!(nc_same));
            o.insert("storedSame".into(), json!(stored_same(p)));
        }
    }
    ev
}

/// `from_stored_parts` on arbitrary stored columns (valid or not).
fn stored_event(cross: &[u64], buffer: u64, change: Option<u64>, prep: u64, total: u64, migr: u64) -> Value {
    let r = guarded(|| {
        DenominationPlan::from_stored_parts(
            cross.iter().map(|&c| zat(c)).collect(),
            zat(buffer),
            change.map(zat),
            zat(prep),
            zat(total),
            zat(migr),
        )
    });
    let mut ev = json!({
        "a": "stored",
        "crossings": dgs(cross), "buffer": dg(buffer),
        "changeNone": change.is_none(), "change": dg(change.unwrap_or(0)),
        "prepFees": dg(prep), "totalInput": dg(total), "migratable": dg(migr),
    });
    let o = ev.as_object_mut().unwrap();
    let mut fill = |res: &str, p: Option<&DenominationPlan>| {
        o.insert("result".into(), json!(res));
        let outs = p.map(|p| guarded(|| zs(&p.migration_outputs())));
        let outs_panicked = matches!(outs, Some(Err(_)));
        o.insert("outputsPanic".into(), json!(outs_panicked));
        o.insert("gOutputs".into(), dgs(&outs.and_then(|r| r.ok()).unwrap_or_default()));
        o.insert("gCrossings".into(), dgs(&p.map(|p| zs(p.crossing_values())).unwrap_or_default()));
        o.insert("gBuffer".into(), dg(p.map(|p| u64::from(p.note_fee_buffer())).unwrap_or(0)));
        o.insert("gChangeNone".into(), json!(p.map(|p| p.change().is_none()).unwrap_or(false)));
        o.insert("gChange".into(), dg(p.and_then(|p| p.change()).map(u64::from).unwrap_or(0)));
        o.insert("gPrepFees".into(), dg(p.map(|p| u64::from(p.prep_fees())).unwrap_or(0)));
        o.insert("gTotalInput".into(), dg(p.map(|p| u64::from(p.total_input())).unwrap_or(0)));
        o.insert("gMigratable".into(), dg(p.map(|p| u64::from(p.total_migratable())).unwrap_or(0)));
    };
    match &r {
        Err(_) => fill("panic", None),
        Ok(Err(BalanceError::Overflow)) => fill("overflow", None),
        Ok(Err(BalanceError::Underflow)) => fill("underflow", None),
        Ok(Ok(p)) => fill("ok", Some(p)),
    }
    ev
}

fn l125_event(hi: u64, floor_exp: u32) -> Value {
    let floor = 10u64.pow(floor_exp);
    let r = guarded(|| largest_one_two_five(hi, floor));
    json!({"a": "l125", "hi": dg(hi), "floorExp": floor_exp,
           "outcome": if r.is_ok() { "ok" } else { "panic" }, "out": dg(r.unwrap_or(0))})
}

fn canon_event(v: u64) -> Value {
    let r = guarded(|| is_canonical_denomination(zat(v)));
    json!({"a": "canon", "v": dg(v), "outcome": if r.is_ok() { "ok" } else { "panic" }, "out": r.unwrap_or(false)})
}

fn denoms(min_exp: u32, max: u64) -> Vec<u64> {
    let mut v = vec![];
    let mut p = 10u64.pow(min_exp);
    while p <= max {
        for m in [1u64, 2, 5] {
            if m * p <= max {
                v.push(m * p);
            }
        }
        p *= 10;
    }
    v
}

/// every line carries its 1-based position, so a dropped line is noticed by the trace specification
fn put(w: &mut NdjsonWriter, mut ev: Value) {
    ev["seq"] = json!(w.1 + 1);
    w.emit(&ev);
}

fn from_dg(v: &Value) -> u64 {
    v.as_array().expect("digits").iter().rev().fold(0u64, |acc, d| acc * 10 + d.as_u64().expect("digit"))
}
fn from_dgs(v: &Value) -> Vec<u64> {
    v.as_array().expect("array").iter().map(from_dg).collect()
}

/// Re-executes the calls recorded in a trace (replay of a violation): same arguments, the logged
/// oracle answers as a script; writes fresh lines.
fn replay(input: &str, out: &str) {
    let mut w = NdjsonWriter::create(out);
    for (i, r) in h_tx::util::read_ndjson(input).iter().enumerate() {
        let ev = match r["a"].as_str().unwrap_or("") {
            "plan" => {
                let custom = if r["via"] == "new" {
                    Some((r["minExp"].as_u64().unwrap() as u32, from_dg(&r["maxDenom"])))
                } else {
                    None
                };
                let script: Vec<i128> = r["answers"]
                    .as_array()
                    .unwrap()
                    .iter()
                    .map(|a| if a[0].as_i64() == Some(-1) { -1 } else { from_dg(a) as i128 })
                    .collect();
                let inp = Input {
                    custom,
                    cap: r["cap"].as_u64().unwrap() as usize,
                    nc: r["nc"].as_u64().unwrap() as usize,
                    total: from_dg(&r["total"]),
                    buffer: from_dg(&r["buffer"]),
                    fee: from_dg(&r["fee"]),
                    oracle: Oracle::Script(script),
                };
                plan_event(&inp, i as u64 + 1)
            }
            "stored" => stored_event(
                &from_dgs(&r["crossings"]),
                from_dg(&r["buffer"]),
                if r["changeNone"].as_bool().unwrap() { None } else { Some(from_dg(&r["change"])) },
                from_dg(&r["prepFees"]),
                from_dg(&r["totalInput"]),
                from_dg(&r["migratable"]),
            ),
            "l125" => l125_event(from_dg(&r["hi"]), r["floorExp"].as_u64().unwrap() as u32),
            "canon" => canon_event(from_dg(&r["v"])),
            other => panic!("unknown record kind {other}"),
        };
        put(&mut w, ev);
    }
    let n = w.finish();
    println!("{}", json!({"events": n}));
}

fn main() {
    quiet_panics();
    let args: Vec<String> = std::env::args().collect();
    if args.get(1).map(|s| s == "--replay").unwrap_or(false) {
        replay(&args[2], &args[3]);
        return;
    }
    let thorough = args.get(2).map(|s| s == "thorough").unwrap_or(false);
    let seed = seed_from_env();
    let mut g = ChaCha20Rng::seed_from_u64(seed ^ 0xC16);
    let mut w = NdjsonWriter::create(&args[1]);
    let mut seq = 0u64;

    // ---------------------------------------------------------------- plans
    let mut inputs: Vec<Input> = vec![];
    // (buffer, fee) pairs: the ZIP 317 values, degenerate ones, and seeded ones
    let mut bf: Vec<(u64, u64)> = vec![(15_000, 80_000), (15_000, 0), (0, 0), (0, 80_000)];
    bf.push((15_000, g.gen_range(1..1_000_000)));
    bf.push((g.gen_range(1..100_000), g.gen_range(1..1_000_000)));
    if thorough {
        for _ in 0..2 {
            bf.push((g.gen_range(0..100_000), g.gen_range(0..1_000_000)));
        }
        bf.push((999_999, 999_999));
        bf.push((1, 1));
    }
    let pick = Cell::new(0usize);
    let oracles = |g: &mut ChaCha20Rng, all: bool| -> Vec<Oracle> {
        let pool = vec![
            Oracle::Stub,
            Oracle::Refuse,
            Oracle::RefuseK(g.gen_range(1..=4)),
            Oracle::Over(g.gen_range(1..=3)),
            Oracle::Over(g.gen_range(4..=2000)),
            Oracle::Tight(false),
            Oracle::Tight(true),
            Oracle::Random(g.r#gen()),
            Oracle::Flip,
            Oracle::Huge(g.gen_range(0..4), [1usize, 2, 100][g.gen_range(0..3)]),
            Oracle::Huge(g.gen_range(0..4), 1),
        ];
        if all {
            let mut v = vec![Oracle::Assumed];
            v.extend(pool);
            v
        } else {
            // one oracle per input: the honest one two times in five, else a seeded adversarial one
            let i = pick.get();
            pick.set(i + 1);
            if i % 5 < 2 { vec![Oracle::Assumed] } else { vec![pool[g.gen_range(0..pool.len())].clone()] }
        }
    };
    let norm = denoms(6, 1_000_000_000_000);
    for (bi, &(buffer, fee)) in bf.iter().enumerate() {
        // quick: the ZIP 317 pair and the two seeded pairs get every boundary, the others a quarter
        let full = thorough || bi == 0 || bi >= 4;
        let offs = [
            0u64,
            1,
            buffer.saturating_sub(1),
            buffer,
            buffer + 1,
            fee,
            (buffer + fee).saturating_sub(1),
            buffer + fee,
            buffer + fee + 1,
        ];
        let mut totals: Vec<u64> = vec![];
        for &d in &norm {
            for &o in &offs {
                totals.push(d + o);
                totals.push(d.saturating_sub(o));
            }
        }
        totals.sort();
        totals.dedup();
        for &t in &totals {
            if !full && g.gen_range(0..4) != 0 {
                continue;
            }
            for nc in [1usize, 2] {
                let cap = if g.gen_bool(0.5) { g.gen_range(1..=64) } else { [1, 2, 50, 64][g.gen_range(0..4)] };
                for o in oracles(&mut g, thorough) {
                    inputs.push(Input { custom: None, cap, nc, total: t, buffer, fee, oracle: o });
                }
            }
        }
        // 1-2-5 values ABOVE the cap held as one note: not a denomination, so no exact-funding shortcut
        if full {
            for &d in &[2_000_000_000_000u64, 5_000_000_000_000, 10_000_000_000_000, 1_000_000_000_000_000, 2_000_000_000_000_000] {
                for t in [d + buffer, d + buffer + fee] {
                    for nc in [1usize, 2] {
                        for o in oracles(&mut g, thorough) {
                            inputs.push(Input { custom: None, cap: 64, nc, total: t, buffer, fee, oracle: o });
                        }
                    }
                }
            }
        }
        // note-count fee steps and the cap: k notes of one denomination plus the assumed fees, +-1
        for &d in &[1_000_000u64, 2_000_000, 1_000_000_000_000] {
            for &k in &[1usize, 2, 13, 14, 15, 27, 28, 29, 42, 43, 50, 63, 64] {
                let base = k as u64 * (d + buffer) + (k.div_ceil(F) as u64) * fee;
                for delta in [-1i64, 0, 1] {
                    let t = (base as i64 + delta) as u64;
                    if t > MAX_MONEY {
                        continue;
                    }
                    for cap in [k, k + 1, 64] {
                        if cap == 0 || cap > 64 || (!thorough && (cap == k + 1 || !full)) {
                            continue;
                        }
                        let nc = g.gen_range(1..=4);
                        for o in oracles(&mut g, thorough) {
                            inputs.push(Input { custom: None, cap, nc, total: t, buffer, fee, oracle: o });
                        }
                    }
                }
            }
        }
    }
    // extremes and seeded random balances (uniform, log-uniform, digit-rich)
    let n_rand = if thorough { 3000 } else { 300 };
    let mut specials: Vec<u64> = vec![0, 1, MAX_MONEY, MAX_MONEY - 1, MAX_MONEY / 2, 12_345 * 100_000_000, 53_000_000, 540 * 100_000_000];
    for i in 0..n_rand {
        specials.push(match i % 3 {
            0 => g.gen_range(0..=MAX_MONEY),
            1 => {
                let e = g.gen_range(0..=15u32);
                g.gen_range(0..10u64.pow(e).max(1)).min(MAX_MONEY)
            }
            _ => {
                // a few significant digits times a power of ten
                let e = g.gen_range(3..=12u32);
                (g.gen_range(1..1000u64) * 10u64.pow(e)).min(MAX_MONEY)
            }
        });
    }
    for &t in &specials {
        let (buffer, fee) = bf[g.gen_range(0..bf.len())];
        let cap = g.gen_range(1..=64);
        let nc = g.gen_range(1..=4);
        for o in oracles(&mut g, thorough) {
            inputs.push(Input { custom: None, cap, nc, total: t, buffer, fee, oracle: o });
        }
    }
    // answers whose fees overflow u64 (regression of the unchecked `n as u64 * fee`): never a panic,
    // such an answer simply does not fit
    for (kind, k) in [(0u8, 1usize), (1, 100), (2, 1), (3, 2)] {
        for nc in [1usize, 2] {
            inputs.push(Input { custom: None, cap: 5, nc, total: 100_095_000, buffer: 15_000, fee: 80_000, oracle: Oracle::Huge(kind, k) });
            inputs.push(Input { custom: None, cap: 64, nc, total: MAX_MONEY, buffer: 15_000, fee: 1, oracle: Oracle::Huge(kind, k) });
        }
    }
    // other large parameters through the public constructor: a non-canonical maximum, another floor
    for &(min_exp, max_denom) in &[(3u32, 7_000_000_000u64), (8, 100_000_000_000_000), (0, 999)] {
        let ds = denoms(min_exp, max_denom);
        for &d in &ds {
            for delta in [-1i64, 0, 1] {
                let (buffer, fee) = bf[g.gen_range(0..bf.len())];
                let t = ((d + buffer + fee) as i64 + delta).max(0) as u64;
                let cap = g.gen_range(1..=64);
                let nc = g.gen_range(1..=2);
                for o in oracles(&mut g, false) {
                    inputs.push(Input { custom: Some((min_exp, max_denom)), cap, nc, total: t, buffer, fee, oracle: o });
                }
            }
        }
        for _ in 0..(n_rand / 10) {
            let (buffer, fee) = bf[g.gen_range(0..bf.len())];
            let t = g.gen_range(0..=(max_denom.saturating_mul(70)).min(MAX_MONEY));
            for o in oracles(&mut g, false) {
                inputs.push(Input { custom: Some((min_exp, max_denom)), cap: g.gen_range(1..=64), nc: g.gen_range(1..=3), total: t, buffer, fee, oracle: o });
            }
        }
    }
    for inp in &inputs {
        seq += 1;
        put(&mut w, plan_event(inp, seq));
    }

    // ---------------------------------------------------------------- from_stored_parts
    let n_stored = if thorough { 2000 } else { 300 };
    for i in 0..n_stored {
        // a crossing/buffer pair around the MAX_MONEY boundary, plus unconstrained other columns
        let c = match i % 4 {
            0 => g.gen_range(0..=MAX_MONEY),
            1 => MAX_MONEY - g.gen_range(0..3),
            2 => norm[g.gen_range(0..norm.len())],
            _ => g.gen_range(0..=3),
        };
        let buffer = match i % 5 {
            0 => (MAX_MONEY - c).saturating_sub(1),
            1 => MAX_MONEY - c,
            2 => (MAX_MONEY - c + 1).min(MAX_MONEY),
            3 => g.gen_range(0..=MAX_MONEY),
            _ => 15_000,
        };
        let mut cross = vec![];
        let len = g.gen_range(0..=4);
        let pos = if len > 0 { g.gen_range(0..len) } else { 0 };
        for j in 0..len {
            cross.push(if j == pos { c } else { g.gen_range(0..=(MAX_MONEY - buffer)) });
        }
        let change = if g.gen_bool(0.3) { None } else { Some(g.gen_range(0..=MAX_MONEY)) };
        put(&mut w, stored_event(&cross, buffer, change, g.gen_range(0..=MAX_MONEY), g.gen_range(0..=MAX_MONEY), g.gen_range(0..=MAX_MONEY)));
    }

    // ---------------------------------------------------------------- largest_one_two_five, is_canonical_denomination
    let mut his: Vec<(u64, u32)> = vec![];
    for fe in [0u32, 3, 6, 8] {
        for d in denoms(fe, u64::MAX / 5) {
            for delta in [-1i64, 0, 1] {
                his.push(((d as i128 + delta as i128) as u64, fe));
            }
        }
        for h in [0u64, 1, u64::MAX, u64::MAX - 1, 10_000_000_000_000_000_000, 9_999_999_999_999_999_999, 10_000_000_000_000_000_001] {
            his.push((h, fe));
        }
        for _ in 0..(if thorough { 400 } else { 60 }) {
            let e = g.gen_range(0..=19u32);
            his.push((g.gen_range(0..=(10u64.checked_pow(e + 1).unwrap_or(u64::MAX) - 1).max(1)), fe));
        }
    }
    for (hi, fe) in his {
        put(&mut w, l125_event(hi, fe));
    }
    let mut vs: Vec<u64> = vec![0, 1, 5, MAX_MONEY];
    for d in denoms(0, MAX_MONEY) {
        for delta in [-1i64, 0, 1] {
            vs.push((d as i64 + delta) as u64);
        }
        vs.push(d.saturating_mul(3).min(MAX_MONEY));
        vs.push(((d / 10) * 11).min(MAX_MONEY));
    }
    for _ in 0..(if thorough { 1000 } else { 100 }) {
        vs.push(g.gen_range(0..=MAX_MONEY));
    }
    for v in vs {
        assert!(v <= MAX_MONEY, "driver bug: not an amount");
        put(&mut w, canon_event(v));
    }
    let n = w.finish();
    println!("{}", json!({"events": n, "plans": inputs.len()}));
}
