//! C07 conformance driver: ZIP 317 fee rule and change strategies.
//!
//!   c07_driver fee-replay <cases.ndjson>          spec -> code: cases enumerated by TLC (MC_Zip317)
//!   c07_driver trace <out.ndjson> <n_random> <sweep:0|1|2>   code -> spec: seeded trace for Trace_ChangeStrategy
//!   c07_driver exec <requests.ndjson> <out.ndjson>         re-executes logged requests (replay of a violation)
//!   c07_driver_t trace-t <out.ndjson> <n_random> <sweep:0|1|2>   the same for the `transparent-inputs` configuration
//!
//! The source is compiled twice: as `c07_driver` in package h_tx (baseline feature set of zcash_client_backend)
//! and as `c07_driver_t` in package h_wallet_t (wallet crates with `transparent-inputs`; that package's feature
//! `transparent` is what `#[cfg(feature = "transparent")]` tests here). Only the second build can select the
//! opt-in transparent change policy, sees transparent change values and has the ephemeral output of a ZIP 320
//! step listed among the proposed change values; both log the same record format (`tfeat` says which build).
//!
//! The driver never computes an expected value: it materialises abstract requests as real calls of
//! `FeeRule::fee_required` / `ChangeStrategy::compute_balance`, and logs the abstract request next
//! to the abstracted outcome. Amounts are logged as little-endian decimal digit arrays.
use std::convert::Infallible;
use std::num::{NonZeroU32, NonZeroUsize};

use h_tx::util::{self, NdjsonWriter};
use rand::{Rng, SeedableRng};
use rand_chacha::ChaCha8Rng;
use serde_json::{Value, json};

use zcash_client_backend::data_api::anchor_retention::{AnchorRetentionInterval, PoolMigrationParams};
use zcash_client_backend::data_api::testing::MockWalletDb;
use zcash_client_backend::data_api::wallet::TargetHeight;
use zcash_client_backend::data_api::{AccountMeta, PoolMeta};
use zcash_client_backend::fees::zip317::{MultiOutputChangeStrategy, SingleOutputChangeStrategy, Zip317FeeRule};
use zcash_client_backend::fees::{
    ChangeError, ChangeStrategy, DustAction, DustOutputPolicy, EphemeralBalance, SplitPolicy, StandardFeeRule,
    TransactionBalance, orchard as ofees, sapling as sfees,
};
#[cfg(feature = "transparent")]
use zcash_client_backend::fees::TransparentChangePolicy;
use zcash_primitives::transaction::fees::transparent::{InputSize, InputView as TInputView};
use zcash_primitives::transaction::fees::zip317::{FeeError, FeeRule as PrimRule};
use zcash_primitives::transaction::fees::FeeRule;
use zcash_protocol::consensus::BlockHeight;
use zcash_protocol::local_consensus::LocalNetwork;
use zcash_protocol::memo::MemoBytes;
use zcash_protocol::value::{BalanceError, Zatoshis};
use zcash_protocol::{PoolType, ShieldedPool};
use zcash_transparent::address::Script;
use zcash_transparent::bundle::{OutPoint, TxOut};

const MAX_MONEY: u64 = 21_000_000 * 100_000_000;
/// This build has the wallet crates' `transparent-inputs` (package h_wallet_t).
const TFEAT: bool = cfg!(feature = "transparent");

// ------------------------------------------------------------------------------------------------
// numbers as little-endian decimal digit arrays

fn digits(mut v: u128) -> Value {
    let mut d = vec![];
    while v > 0 {
        d.push(Value::from((v % 10) as u64));
        v /= 10;
    }
    Value::Array(d)
}
fn undigits(v: &Value) -> u128 {
    let mut r: u128 = 0;
    for d in v.as_array().expect("digit array").iter().rev() {
        r = r * 10 + d.as_u64().expect("digit") as u128;
    }
    r
}
fn dseq(vs: &[u64]) -> Value {
    Value::Array(vs.iter().map(|v| digits(*v as u128)).collect())
}
fn undseq(v: &Value) -> Vec<u64> {
    v.as_array().expect("array").iter().map(|x| undigits(x) as u64).collect()
}

// ------------------------------------------------------------------------------------------------
// the abstract request

#[derive(Clone, Debug)]
struct Req {
    rule_kind: u8, // 0 zip317::FeeRule::standard(), 1 StandardFeeRule::Zip317, 2 FeeRule::non_standard
    m: u64,
    g: usize,
    pin: usize,
    pout: usize,
    multi: bool,
    split_single: bool, // MultiOutputChangeStrategy with SplitPolicy::single_output()
    target: usize,
    min_split: u64,
    notes: i64,   // total_note_count of the wallet metadata, -1 = unknown
    meta_var: u8, // how the count is spread over the per-pool metadata
    act: u8,      // 0 reject 1 allow 2 addfee
    thr: Option<u64>,
    fallback: u8, // 0 sapling 1 orchard 2 ironwood
    memo: bool,
    eph: Option<(bool, u64)>, // (is_input, value)
    target_h: u32,
    nu5_h: u32,
    nu63_h: Option<u32>,
    anchor_h: u32,
    interval: u32,
    ov_kind: u8,  // 0 orchard_insecure_v1, 1 orchard_v2, 2 orchard_v3
    sap_type: u8, // 0 DEFAULT, 1 bundle_required, 2 Coinbase
    tin: Vec<(u64, u8, usize)>, // value, kind (0 size override, 1 P2PKH script/default size, 2 unknown script), size
    tout: Vec<(u64, usize)>,    // value, script length
    sin: Vec<u64>,
    sout: Vec<u64>,
    oin: Vec<u64>,
    oout: Vec<u64>,
    iin: Vec<u64>,
    iout: Vec<u64>,
    tpol: bool, // TransparentChangePolicy::TransparentChangeAllowed (only the `transparent` build can apply it)
}

fn compact_size_len(n: usize) -> usize {
    if n < 253 { 1 } else if n <= 0xffff { 3 } else if n <= 0xffff_ffff { 5 } else { 9 }
}
/// Serialized size of a transparent output: 8-byte amount, CompactSize script length, script.
fn txout_size(script_len: usize) -> usize {
    8 + compact_size_len(script_len) + script_len
}

const POOLS: [&str; 3] = ["sapling", "orchard", "ironwood"];
const ACTS: [&str; 3] = ["reject", "allow", "addfee"];
const SAPT: [&str; 3] = ["default", "required", "coinbase"];

impl Req {
    fn tin_size(&self, i: usize) -> i64 {
        match self.tin[i].1 {
            0 => self.tin[i].2 as i64,
            1 => 150,
            _ => -1,
        }
    }
    fn to_json(&self) -> Value {
        json!({
            "ruleKind": self.rule_kind,
            "rule": {"m": self.m, "g": self.g, "pin": self.pin, "pout": self.pout},
            "strat": if self.multi { "multi" } else { "single" },
            "hasMeta": self.multi,
            "splitSingle": self.split_single,
            "target": self.target,
            "minSplit": digits(self.min_split as u128),
            "notes": self.notes,
            "metaVar": self.meta_var,
            "act": ACTS[self.act as usize],
            "hasThr": self.thr.is_some(),
            "thr": digits(self.thr.unwrap_or(0) as u128),
            "fallback": POOLS[self.fallback as usize],
            "memo": self.memo,
            "ephK": match self.eph { None => "none", Some((true, _)) => "in", Some((false, _)) => "out" },
            "ephV": digits(self.eph.map(|e| e.1).unwrap_or(0) as u128),
            "targetH": self.target_h,
            "nu5H": self.nu5_h,
            "nu63H": self.nu63_h.map(|h| h as i64).unwrap_or(-1),
            "anchorH": self.anchor_h,
            "interval": self.interval,
            "ov3": self.ov_kind == 2,
            "ovKind": self.ov_kind,
            "sapType": SAPT[self.sap_type as usize],
            "tinV": dseq(&self.tin.iter().map(|t| t.0).collect::<Vec<_>>()),
            "tinS": (0..self.tin.len()).map(|i| self.tin_size(i)).collect::<Vec<_>>(),
            "tinK": self.tin.iter().map(|t| t.1).collect::<Vec<_>>(),
            "toutV": dseq(&self.tout.iter().map(|t| t.0).collect::<Vec<_>>()),
            "toutS": self.tout.iter().map(|t| txout_size(t.1)).collect::<Vec<_>>(),
            "toutL": self.tout.iter().map(|t| t.1).collect::<Vec<_>>(),
            "sin": dseq(&self.sin), "sout": dseq(&self.sout),
            "oin": dseq(&self.oin), "oout": dseq(&self.oout),
            "iin": dseq(&self.iin), "iout": dseq(&self.iout),
            // without the `transparent-inputs` feature of zcash_client_backend change is always shielded
            "tpolicy": if TFEAT && self.tpol { "allowed" } else { "shield" },
            // with the feature the ephemeral output of the step is listed among the proposed change values
            "tfeat": TFEAT,
        })
    }
    fn from_json(q: &Value) -> Req {
        let u = |k: &str| q[k].as_u64().unwrap_or_else(|| panic!("field {k}"));
        let b = |k: &str| q[k].as_bool().unwrap_or_else(|| panic!("field {k}"));
        let s = |k: &str| q[k].as_str().unwrap_or_else(|| panic!("field {k}")).to_string();
        let pos = |arr: &[&str], v: &str| arr.iter().position(|x| *x == v).expect("enum value") as u8;
        let tin_v = undseq(&q["tinV"]);
        let tin_s: Vec<i64> = q["tinS"].as_array().unwrap().iter().map(|x| x.as_i64().unwrap()).collect();
        let tin_k: Vec<u64> = q["tinK"].as_array().unwrap().iter().map(|x| x.as_u64().unwrap()).collect();
        let tout_v = undseq(&q["toutV"]);
        let tout_l: Vec<u64> = q["toutL"].as_array().unwrap().iter().map(|x| x.as_u64().unwrap()).collect();
        Req {
            rule_kind: u("ruleKind") as u8,
            m: q["rule"]["m"].as_u64().unwrap(),
            g: q["rule"]["g"].as_u64().unwrap() as usize,
            pin: q["rule"]["pin"].as_u64().unwrap() as usize,
            pout: q["rule"]["pout"].as_u64().unwrap() as usize,
            multi: s("strat") == "multi",
            split_single: b("splitSingle"),
            target: u("target") as usize,
            min_split: undigits(&q["minSplit"]) as u64,
            notes: q["notes"].as_i64().unwrap(),
            meta_var: u("metaVar") as u8,
            act: pos(&ACTS, &s("act")),
            thr: if b("hasThr") { Some(undigits(&q["thr"]) as u64) } else { None },
            fallback: pos(&POOLS, &s("fallback")),
            memo: b("memo"),
            eph: match s("ephK").as_str() {
                "in" => Some((true, undigits(&q["ephV"]) as u64)),
                "out" => Some((false, undigits(&q["ephV"]) as u64)),
                _ => None,
            },
            target_h: u("targetH") as u32,
            nu5_h: u("nu5H") as u32,
            nu63_h: { let h = q["nu63H"].as_i64().unwrap(); if h < 0 { None } else { Some(h as u32) } },
            anchor_h: u("anchorH") as u32,
            interval: u("interval") as u32,
            ov_kind: u("ovKind") as u8,
            sap_type: pos(&SAPT, &s("sapType")),
            tin: (0..tin_v.len()).map(|i| (tin_v[i], tin_k[i] as u8, tin_s[i].max(0) as usize)).collect(),
            tout: (0..tout_v.len()).map(|i| (tout_v[i], tout_l[i] as usize)).collect(),
            sin: undseq(&q["sin"]), sout: undseq(&q["sout"]),
            oin: undseq(&q["oin"]), oout: undseq(&q["oout"]),
            iin: undseq(&q["iin"]), iout: undseq(&q["iout"]),
            tpol: q["tpolicy"].as_str() == Some("allowed"),
        }
    }
}

// ------------------------------------------------------------------------------------------------
// materialisation: real views over the abstract request

#[derive(Debug)]
struct TIn {
    outpoint: OutPoint,
    coin: TxOut,
    size: Option<usize>,
}
impl TInputView for TIn {
    fn outpoint(&self) -> &OutPoint {
        &self.outpoint
    }
    fn coin(&self) -> &TxOut {
        &self.coin
    }
    fn serialized_size(&self) -> InputSize {
        match self.size {
            Some(s) => InputSize::Known(s),
            // the trait's own default: P2PKH -> standard size, anything else -> unknown
            None => {
                #[derive(Debug)]
                struct D<'a>(&'a OutPoint, &'a TxOut);
                impl TInputView for D<'_> {
                    fn outpoint(&self) -> &OutPoint { self.0 }
                    fn coin(&self) -> &TxOut { self.1 }
                }
                D(&self.outpoint, &self.coin).serialized_size()
            }
        }
    }
}

struct Note {
    id: u32,
    v: Zatoshis,
}
impl sfees::InputView<u32> for Note {
    fn note_id(&self) -> &u32 { &self.id }
    fn value(&self) -> Zatoshis { self.v }
}
impl ofees::InputView<u32> for Note {
    fn note_id(&self) -> &u32 { &self.id }
    fn value(&self) -> Zatoshis { self.v }
}

fn zat(v: u64) -> Zatoshis {
    Zatoshis::from_u64(v).expect("driver keeps single values within MAX_MONEY")
}
fn p2pkh_script() -> Vec<u8> {
    let mut s = vec![0x76, 0xa9, 0x14];
    s.extend_from_slice(&[7u8; 20]);
    s.extend_from_slice(&[0x88, 0xac]);
    s
}
fn script(bytes: Vec<u8>) -> Script {
    let mut s = Script::default();
    s.0.0 = bytes;
    s
}
fn notes_of(vs: &[u64]) -> Vec<Note> {
    vs.iter().enumerate().map(|(i, v)| Note { id: i as u32 + 1, v: zat(*v) }).collect()
}
fn zats(vs: &[u64]) -> Vec<Zatoshis> {
    vs.iter().map(|v| zat(*v)).collect()
}

fn pool_name(p: PoolType) -> &'static str {
    match p {
        PoolType::Transparent => "transparent",
        PoolType::Shielded(ShieldedPool::Sapling) => "sapling",
        PoolType::Shielded(ShieldedPool::Orchard) => "orchard",
        PoolType::Shielded(ShieldedPool::Ironwood) => "ironwood",
    }
}

fn outcome_skeleton(k: &str) -> serde_json::Map<String, Value> {
    let mut o = serde_json::Map::new();
    o.insert("k".into(), k.into());
    o.insert("change".into(), json!([]));
    o.insert("fee".into(), json!([]));
    o.insert("hasDummy".into(), false.into());
    o.insert("dummy".into(), json!([0, 0, 0]));
    o.insert("available".into(), json!([]));
    o.insert("required".into(), json!([]));
    for f in ["dt", "ds", "do", "di"] {
        o.insert(f.into(), json!([]));
    }
    o.insert("e".into(), "".into());
    o
}

fn abstract_outcome(
    req: &Req,
    res: Result<Result<TransactionBalance, ChangeError<FeeError, u32>>, String>,
    tin_outpoints: &[OutPoint],
) -> Value {
    let mut o;
    match res {
        Err(msg) => {
            o = outcome_skeleton("panic");
            o.insert("e".into(), msg.into());
        }
        Ok(Ok(b)) => {
            o = outcome_skeleton("balance");
            let ch: Vec<Value> = b
                .proposed_change()
                .iter()
                .map(|c| {
                    json!({"pool": pool_name(c.output_pool()), "v": digits(c.value().into_u64() as u128),
                           "memo": c.memo().is_some(), "eph": c.is_ephemeral()})
                })
                .collect();
            o.insert("change".into(), Value::Array(ch));
            o.insert("fee".into(), digits(b.fee_required().into_u64() as u128));
            if let Some(d) = b.dummy_outputs() {
                o.insert("hasDummy".into(), true.into());
                o.insert("dummy".into(), json!([d.sapling(), d.orchard(), d.ironwood()]));
            }
        }
        Ok(Err(ChangeError::InsufficientFunds { available, required })) => {
            o = outcome_skeleton("insufficient");
            o.insert("available".into(), digits(available.into_u64() as u128));
            o.insert("required".into(), digits(required.into_u64() as u128));
        }
        Ok(Err(ChangeError::DustInputs { transparent, sapling, orchard, ironwood })) => {
            o = outcome_skeleton("dust");
            let tidx: Vec<usize> = transparent
                .iter()
                .map(|op| tin_outpoints.iter().position(|x| x == op).map(|i| i + 1).unwrap_or(0))
                .collect();
            o.insert("dt".into(), json!(tidx));
            o.insert("ds".into(), json!(sapling));
            o.insert("do".into(), json!(orchard));
            o.insert("di".into(), json!(ironwood));
        }
        Ok(Err(ChangeError::StrategyError(e))) => {
            o = outcome_skeleton("strategy");
            let cls = match e {
                FeeError::Balance(BalanceError::Overflow) => "overflow".to_string(),
                FeeError::Balance(BalanceError::Underflow) => "underflow".to_string(),
                FeeError::UnknownP2shInputs(_) => "p2sh".to_string(),
            };
            o.insert("e".into(), cls.into());
        }
        Ok(Err(ChangeError::BundleError(s))) => {
            o = outcome_skeleton("bundle");
            o.insert("e".into(), s.into());
        }
        Ok(Err(_)) => {
            o = outcome_skeleton("other");
        }
    }
    let _ = req;
    Value::Object(o)
}

#[cfg(feature = "transparent")]
fn tpolicy(req: &Req) -> TransparentChangePolicy {
    if req.tpol { TransparentChangePolicy::TransparentChangeAllowed } else { TransparentChangePolicy::ShieldChange }
}

fn run_strategy<R>(rule: R, req: &Req) -> Value
where
    R: Zip317FeeRule + Clone + FeeRule<Error = FeeError>,
{
    let params = LocalNetwork {
        overwinter: Some(BlockHeight::from_u32(1)),
        sapling: Some(BlockHeight::from_u32(1)),
        blossom: Some(BlockHeight::from_u32(1)),
        heartwood: Some(BlockHeight::from_u32(1)),
        canopy: Some(BlockHeight::from_u32(1)),
        nu5: Some(BlockHeight::from_u32(req.nu5_h)),
        nu6: Some(BlockHeight::from_u32(req.nu5_h)),
        nu6_1: Some(BlockHeight::from_u32(req.nu5_h)),
        nu6_2: Some(BlockHeight::from_u32(req.nu5_h)),
        nu6_3: req.nu63_h.map(BlockHeight::from_u32),
    };
    let target: TargetHeight = BlockHeight::from_u32(req.target_h).into();
    let anchor = BlockHeight::from_u32(req.anchor_h);
    let interval = if req.interval == 144 {
        AnchorRetentionInterval::ZIP_318
    } else {
        AnchorRetentionInterval::custom(NonZeroU32::new(req.interval).expect("interval > 0"))
    };
    let zip318 = PoolMigrationParams::new(interval);

    let tins: Vec<TIn> = req
        .tin
        .iter()
        .enumerate()
        .map(|(i, (v, kind, sz))| {
            let mut h = [0u8; 32];
            h[0] = i as u8 + 1;
            let spk = match kind {
                2 => vec![0x51, 0x52, 0x93], // not a standard script: size unknown
                _ => p2pkh_script(),
            };
            TIn {
                outpoint: OutPoint::new(h, i as u32),
                coin: TxOut::new(zat(*v), script(spk)),
                size: if *kind == 0 { Some(*sz) } else { None },
            }
        })
        .collect();
    let tin_ops: Vec<OutPoint> = tins.iter().map(|t| t.outpoint.clone()).collect();
    let touts: Vec<TxOut> = req.tout.iter().map(|(v, l)| TxOut::new(zat(*v), script(vec![0x6a; *l]))).collect();

    let sap_type = match req.sap_type {
        0 => sapling::builder::BundleType::DEFAULT,
        1 => sapling::builder::BundleType::Transactional { bundle_required: true },
        _ => sapling::builder::BundleType::Coinbase,
    };
    let (s_in, s_out) = (notes_of(&req.sin), zats(&req.sout));
    let (o_in, o_out) = (notes_of(&req.oin), zats(&req.oout));
    let (i_in, i_out) = (notes_of(&req.iin), zats(&req.iout));
    let ov = match req.ov_kind {
        0 => orchard::bundle::BundleVersion::orchard_insecure_v1(),
        1 => orchard::bundle::BundleVersion::orchard_v2(),
        _ => orchard::bundle::BundleVersion::orchard_v3(),
    };
    let sap_view = (sap_type, &s_in[..], &s_out[..]);
    let orch_view = (ov, &o_in[..], &o_out[..]);
    let iw_view = (orchard::bundle::BundleVersion::ironwood_v3(), &i_in[..], &i_out[..]);

    let memo = if req.memo { Some(MemoBytes::from_bytes(b"c07 change memo").expect("memo")) } else { None };
    let fallback = [ShieldedPool::Sapling, ShieldedPool::Orchard, ShieldedPool::Ironwood][req.fallback as usize];
    let dust = DustOutputPolicy::new(
        [DustAction::Reject, DustAction::AllowDustChange, DustAction::AddDustToFee][req.act as usize],
        req.thr.map(zat),
    );
    let eph = req.eph.map(|(is_in, v)| if is_in { EphemeralBalance::Input(zat(v)) } else { EphemeralBalance::Output(zat(v)) });

    let res = if !req.multi {
        let strat = SingleOutputChangeStrategy::<R, MockWalletDb>::new(rule, memo, fallback, dust);
        #[cfg(feature = "transparent")]
        let strat = strat.with_transparent_change_policy(tpolicy(req));
        util::guarded(|| {
            strat.compute_balance::<_, u32>(
                &params, target, anchor, &zip318, &tins[..], &touts[..], &sap_view, &orch_view, &iw_view, eph, &(),
            )
        })
    } else {
        let split = if req.split_single {
            SplitPolicy::single_output()
        } else {
            SplitPolicy::with_min_output_value(NonZeroUsize::new(req.target).expect("target > 0"), zat(req.min_split))
        };
        let strat = MultiOutputChangeStrategy::<R, MockWalletDb>::new(rule, memo, fallback, dust, split);
        #[cfg(feature = "transparent")]
        let strat = strat.with_transparent_change_policy(tpolicy(req));
        let meta = if req.notes < 0 {
            AccountMeta::new(None, None, None)
        } else {
            let n = req.notes as usize;
            let pm = |c: usize| Some(PoolMeta::new(c, zat(1_000_000 * c as u64)));
            match req.meta_var % 4 {
                0 => AccountMeta::new(pm(n / 2), pm(n - n / 2), None),
                1 => AccountMeta::new(pm(n), None, None),
                2 => AccountMeta::new(None, pm(n / 2), pm(n - n / 2)),
                _ => AccountMeta::new(pm(n / 3), pm(n / 3), pm(n - 2 * (n / 3))),
            }
        };
        util::guarded(|| {
            strat.compute_balance::<_, u32>(
                &params, target, anchor, &zip318, &tins[..], &touts[..], &sap_view, &orch_view, &iw_view, eph, &meta,
            )
        })
    };
    abstract_outcome(req, res, &tin_ops)
}

fn execute(req: &Req) -> Value {
    match req.rule_kind {
        0 => run_strategy(PrimRule::standard(), req),
        1 => run_strategy(StandardFeeRule::Zip317, req),
        _ => run_strategy(
            PrimRule::non_standard(zat(req.m), req.g, req.pin, req.pout).expect("non-zero standard sizes"),
            req,
        ),
    }
}

fn record(req: &Req) -> Value {
    json!({"a": "bal", "q": req.to_json(), "o": execute(req)})
}

// ------------------------------------------------------------------------------------------------
// request generation (seeded; boundary-biased; no expected values are computed here)

fn pick<T: Copy>(rng: &mut ChaCha8Rng, xs: &[T]) -> T {
    xs[rng.gen_range(0..xs.len())]
}

fn lattice(rng: &mut ChaCha8Rng, m: u64, thr: u64, min_split: u64) -> u64 {
    let r = rng.gen_range(0..100);
    let v: u128 = if r < 55 {
        let base = [
            0, 1, 2, m.saturating_sub(1), m, m + 1, 2 * m, 3 * m, thr.saturating_sub(1), thr, thr.saturating_add(1),
            10 * m, 10 * m + 1, min_split, min_split.saturating_mul(2), 99_999, 100_000, 100_001,
        ];
        pick(rng, &base) as u128
    } else if r < 75 {
        rng.gen_range(0..2_000_000u64) as u128
    } else if r < 92 {
        pick(rng, &[999_999u64, 1_000_000, 2_000_000, 3_000_000, 5_000_000, 10_000_000, 100_000_000,
                    1_000_000_000_000, 2_000_000_000_000, 500_000_000_000]) as u128
    } else if r < 97 {
        pick(rng, &[MAX_MONEY, MAX_MONEY - 1, MAX_MONEY / 2, MAX_MONEY / 2 + 1, MAX_MONEY - 100_000, MAX_MONEY - 10_000,
                    MAX_MONEY / 3]) as u128
    } else {
        rng.gen_range(0..=MAX_MONEY) as u128
    };
    v.min(MAX_MONEY as u128) as u64
}

fn gen_values(rng: &mut ChaCha8Rng, n: usize, m: u64, thr: u64, ms: u64) -> Vec<u64> {
    (0..n).map(|_| lattice(rng, m, thr, ms)).collect()
}

fn count(rng: &mut ChaCha8Rng, p_nonempty: u32, max: usize) -> usize {
    if rng.gen_range(0..100) < p_nonempty { rng.gen_range(1..=max) } else { 0 }
}

fn gen_request(rng: &mut ChaCha8Rng) -> Req {
    let rule_kind = pick(rng, &[0u8, 0, 1, 2, 2]);
    let (m, g, pin, pout) = if rule_kind == 2 {
        (pick(rng, &[0u64, 1, 2, 10, 1000, 5000, 5000, 7000]), pick(rng, &[0usize, 1, 2, 2, 3]),
         pick(rng, &[150usize, 150, 100, 1]), pick(rng, &[34usize, 34, 30, 1]))
    } else {
        (5000, 2, 150, 34)
    };
    let multi = rng.gen_bool(0.6);
    let split_single = multi && rng.gen_bool(0.1);
    let target = if !multi || split_single { 1 } else { rng.gen_range(1..=5) };
    let min_split = if !multi || split_single { 0 } else { pick(rng, &[0u64, 1, m, 10 * m, 100_000, 1_000_000, 12_345]) };
    let notes: i64 = if !multi { -1 } else { pick(rng, &[-1i64, 0, 0, 1, 2, 3, 6]) };
    let act = rng.gen_range(0..3u8);
    let thr = pick(rng, &[None, None, Some(0u64), Some(1), Some(m), Some(2 * m), Some(100_000), Some(100_001),
                          Some(250_000), Some(1_000_000), Some(MAX_MONEY)]);
    let thr_eff = thr.unwrap_or(m);
    let nu5_h = 100u32;
    let nu63_h = if rng.gen_bool(0.05) { None } else { Some(200u32) };
    let target_h = pick(rng, &[99u32, 100, 101, 150, 199, 200, 201, 350, 350, 350]);
    let nu63 = nu63_h.is_some_and(|h| target_h >= h);
    let interval = pick(rng, &[144u32, 144, 144, 10]);
    let anchor_h = pick(rng, &[143u32, 144, 145, 0, 288, 140, 150, target_h.saturating_sub(1), 1440]);
    let mut ov_kind = if nu63 { 2 } else { pick(rng, &[0u8, 1]) };
    if rng.gen_bool(0.06) {
        ov_kind = pick(rng, &[0u8, 1, 2]);
    }
    let sap_type = pick(rng, &[0u8, 0, 0, 0, 0, 0, 0, 0, 0, 0, 0, 0, 1, 2]);
    let mut q = Req {
        rule_kind, m, g, pin, pout, multi, split_single, target, min_split, notes,
        meta_var: rng.gen_range(0..4),
        act, thr,
        fallback: rng.gen_range(0..3),
        memo: rng.gen_bool(0.3),
        eph: None,
        target_h, nu5_h, nu63_h, anchor_h, interval, ov_kind, sap_type,
        tin: vec![], tout: vec![], sin: vec![], sout: vec![], oin: vec![], oout: vec![], iin: vec![], iout: vec![],
        tpol: false,
    };
    let style = rng.gen_range(0..100);
    if style < 14 {
        // canonical-crossing neighbourhood: one Orchard note into one Ironwood output
        q.oin = vec![lattice(rng, m, thr_eff, min_split)];
        q.iout = vec![pick(rng, &[1_000_000u64, 2_000_000, 5_000_000, 10_000_000, 3_000_000, 999_999, 1_000_000_000_000,
                                  2_000_000_000_000, 100_000])];
        q.anchor_h = pick(rng, &[144u32, 288, 0, 1440, 143, 145, 150]);
        if rng.gen_bool(0.25) {
            // one perturbation of the canonical shape
            match rng.gen_range(0..7) {
                0 => q.oin.push(lattice(rng, m, thr_eff, min_split)),
                1 => q.iin = gen_values(rng, 1, m, thr_eff, min_split),
                2 => q.iout.push(1_000_000),
                3 => q.oout = gen_values(rng, 1, m, thr_eff, min_split),
                4 => q.sout = gen_values(rng, 1, m, thr_eff, min_split),
                5 => q.tout = vec![(lattice(rng, m, thr_eff, min_split), 25)],
                _ => q.sin = gen_values(rng, 1, m, thr_eff, min_split),
            }
        }
    } else {
        let ntin = count(rng, 25, 3);
        q.tin = (0..ntin)
            .map(|_| {
                let kind = pick(rng, &[0u8, 0, 1, 1, 1, 1, 1, 1, 1, 1, 1, 1, 1, 1, 1, 1, 1, 1, 1, 2]);
                (lattice(rng, m, thr_eff, min_split), kind, pick(rng, &[150usize, 149, 151, 300, 301, 1, 0, 450]))
            })
            .collect();
        let ntout = count(rng, 30, 3);
        q.tout = (0..ntout)
            .map(|_| (lattice(rng, m, thr_eff, min_split), pick(rng, &[25usize, 25, 25, 23, 26, 0, 40, 60, 252, 253, 300])))
            .collect();
        let (ps, po, pi) = if style < 40 { (60, 10, 5) } else if style < 66 { (10, 60, 10) } else if style < 80 { (5, 10, 60) } else { (35, 35, 25) };
        let n = count(rng, ps, 3); q.sin = gen_values(rng, n, m, thr_eff, min_split);
        let n = count(rng, ps, 3); q.sout = gen_values(rng, n, m, thr_eff, min_split);
        let n = count(rng, po, 3); q.oin = gen_values(rng, n, m, thr_eff, min_split);
        let n = count(rng, po, 3); q.oout = gen_values(rng, n, m, thr_eff, min_split);
        let n = count(rng, pi, 3); q.iin = gen_values(rng, n, m, thr_eff, min_split);
        let n = count(rng, pi, 3); q.iout = gen_values(rng, n, m, thr_eff, min_split);
        if rng.gen_bool(0.15) {
            q.eph = Some((rng.gen_bool(0.5), lattice(rng, m, thr_eff, min_split)));
        }
    }
    if rng.gen_range(0..100) < 72 {
        tune(rng, &mut q, 12);
    }
    q
}

/// Re-values one input so that  sum(in) = sum(out) + a*m + delta  for a boundary delta. The number
/// of marginal fees `a` is drawn, not computed: the driver does not know the fee.
fn tune(rng: &mut ChaCha8Rng, q: &mut Req, max_a: u128) {
    let m = q.m;
    let thr = q.thr.unwrap_or(m);
    let total_out: u128 = q.tout.iter().map(|t| t.0 as u128).sum::<u128>()
        + q.sout.iter().chain(&q.oout).chain(&q.iout).map(|v| *v as u128).sum::<u128>()
        + q.eph.filter(|e| !e.0).map(|e| e.1 as u128).unwrap_or(0);
    // choose the slot to re-value
    let mut slots: Vec<(u8, usize)> = vec![];
    for i in 0..q.tin.len() { slots.push((0, i)); }
    for i in 0..q.sin.len() { slots.push((1, i)); }
    for i in 0..q.oin.len() { slots.push((2, i)); }
    for i in 0..q.iin.len() { slots.push((3, i)); }
    // the ephemeral input of a ZIP 320 second step (transparent variant only: the baseline trace keeps its stream)
    if TFEAT && q.eph.is_some_and(|e| e.0) { slots.push((4, 0)); }
    if slots.is_empty() {
        match rng.gen_range(0..4) {
            0 => { q.tin.push((0, 1, 150)); slots.push((0, 0)); }
            1 => { q.sin.push(0); slots.push((1, 0)); }
            2 => { q.oin.push(0); slots.push((2, 0)); }
            _ => { q.iin.push(0); slots.push((3, 0)); }
        }
    }
    let slot = pick(rng, &slots);
    let cur = |q: &Req, s: (u8, usize)| -> u64 {
        match s.0 { 0 => q.tin[s.1].0, 1 => q.sin[s.1], 2 => q.oin[s.1], 3 => q.iin[s.1], _ => q.eph.map(|e| e.1).unwrap_or(0) }
    };
    let total_in: u128 = q.tin.iter().map(|t| t.0 as u128).sum::<u128>()
        + q.sin.iter().chain(&q.oin).chain(&q.iin).map(|v| *v as u128).sum::<u128>()
        + q.eph.filter(|e| e.0).map(|e| e.1 as u128).unwrap_or(0);
    let others = total_in - cur(q, slot) as u128;
    let a = rng.gen_range(0..=max_a);
    let oin_other: u128 = q.oin.iter().enumerate().filter(|(i, _)| !(slot.0 == 2 && *i == slot.1)).map(|(_, v)| *v as u128).sum();
    let j = rng.gen_range(1..=5u128);
    let deltas: [i128; 22] = [
        -1, 0, 1, 0, 0, 1,
        thr as i128 - 1, thr as i128, thr as i128 + 1,
        99_999, 100_000, 100_001,
        (q.min_split as u128 * j) as i128 - 1, (q.min_split as u128 * j) as i128, (q.min_split as u128 * j) as i128 + 1,
        oin_other as i128 - 1, oin_other as i128, oin_other as i128 + 1,
        rng.gen_range(0..20_000) as i128, rng.gen_range(0..3_000_000) as i128,
        (thr as i128).saturating_mul(2), m as i128 - 1,
    ];
    let delta = pick(rng, &deltas);
    let want = total_out as i128 + (a * m as u128) as i128 + delta - others as i128;
    if want < 0 || want > MAX_MONEY as i128 {
        return;
    }
    let v = want as u64;
    match slot.0 {
        0 => q.tin[slot.1].0 = v,
        1 => q.sin[slot.1] = v,
        2 => q.oin[slot.1] = v,
        3 => q.iin[slot.1] = v,
        _ => q.eph = Some((true, v)),
    }
}

// ------------------------------------------------------------------------------------------------
// the `transparent-inputs` configuration: ZIP 320 steps, transparent change, mixes

/// Seeded requests for the code that exists only with `transparent-inputs`: (a) the second step of a ZIP 320 pair
/// (ephemeral input paying TEX-like P2PKH outputs), (b) the first step (ephemeral output funded from any pool,
/// including the canonical-crossing shape), (c) fully transparent flows under the opt-in transparent change
/// policy, (d) mixes with shielded value (also zero-valued shielded notes and change memos) where transparent
/// change must not be chosen, (e) the general generator with the policy drawn.
fn gen_request_t(rng: &mut ChaCha8Rng) -> Req {
    let mut q = gen_request(rng); // policies, rule, heights; the flows are redrawn below
    let style = rng.gen_range(0..100);
    if style >= 85 {
        q.tpol = rng.gen_bool(0.6);
        return q;
    }
    let (m, thr, ms) = (q.m, q.thr.unwrap_or(q.m), q.min_split);
    q.tin.clear(); q.tout.clear(); q.sin.clear(); q.sout.clear(); q.oin.clear(); q.oout.clear(); q.iin.clear(); q.iout.clear();
    q.eph = None;
    let p2pkh_in = |rng: &mut ChaCha8Rng| (lattice(rng, m, thr, ms), pick(rng, &[1u8, 1, 1, 1, 1, 1, 1, 0]), pick(rng, &[150usize, 149, 151, 300, 0]));
    let tex_out = |rng: &mut ChaCha8Rng| (lattice(rng, m, thr, ms), pick(rng, &[25usize, 25, 25, 25, 23, 0, 60]));
    if style < 20 {
        // (a) ZIP 320 second step
        q.eph = Some((true, lattice(rng, m, thr, ms)));
        let n = rng.gen_range(1..=2);
        q.tout = (0..n).map(|_| tex_out(rng)).collect();
        if rng.gen_bool(0.2) { q.tin = vec![p2pkh_in(rng)]; }
        if rng.gen_bool(0.08) { q.sin = gen_values(rng, 1, m, thr, ms); }
        q.tpol = rng.gen_bool(0.5);
    } else if style < 42 {
        // (b) ZIP 320 first step
        q.eph = Some((false, lattice(rng, m, thr, ms)));
        let n = rng.gen_range(1..=3);
        match rng.gen_range(0..5) {
            0 => q.tin = (0..n).map(|_| p2pkh_in(rng)).collect(),
            1 => q.sin = gen_values(rng, n, m, thr, ms),
            2 => q.oin = gen_values(rng, n, m, thr, ms),
            3 => q.iin = gen_values(rng, n, m, thr, ms),
            _ => {
                // one Orchard note crossing into Ironwood beside the ephemeral output
                q.oin = gen_values(rng, 1, m, thr, ms);
                q.iout = vec![pick(rng, &[1_000_000u64, 2_000_000, 5_000_000, 3_000_000, 999_999])];
                q.anchor_h = pick(rng, &[144u32, 288, 0, 143, 145]);
            }
        }
        if rng.gen_bool(0.3) {
            match rng.gen_range(0..4) {
                0 => q.tout = vec![tex_out(rng)],
                1 => q.sout = gen_values(rng, 1, m, thr, ms),
                2 => q.iout.push(lattice(rng, m, thr, ms)),
                _ => q.oout = gen_values(rng, 1, m, thr, ms),
            }
        }
        q.tpol = rng.gen_bool(0.5);
    } else if style < 70 {
        // (c) fully transparent flows
        let n = rng.gen_range(1..=3);
        q.tin = (0..n).map(|_| p2pkh_in(rng)).collect();
        let n = rng.gen_range(0..=3);
        q.tout = (0..n).map(|_| tex_out(rng)).collect();
        match rng.gen_range(0..10) {
            0 => q.eph = Some((true, lattice(rng, m, thr, ms))),
            1 => q.eph = Some((false, lattice(rng, m, thr, ms))),
            _ => {}
        }
        q.tpol = rng.gen_bool(0.85);
        if rng.gen_bool(0.8) { q.memo = false; }
    } else {
        // (d) transparent value mixed with shielded value
        q.tpol = rng.gen_bool(0.9);
        let n = rng.gen_range(0..=2);
        q.tin = (0..n).map(|_| p2pkh_in(rng)).collect();
        let n = rng.gen_range(0..=2);
        q.tout = (0..n).map(|_| tex_out(rng)).collect();
        let zero = rng.gen_bool(0.25); // zero-valued shielded notes: flows "fully transparent" by value
        let vals = |rng: &mut ChaCha8Rng, n: usize| if zero { vec![0u64; n] } else { gen_values(rng, n, m, thr, ms) };
        match rng.gen_range(0..6) {
            0 => q.sin = vals(rng, 1),
            1 => q.sout = vals(rng, 1),
            2 => q.oin = vals(rng, 1),
            3 => q.iin = vals(rng, 1),
            4 => q.iout = vals(rng, 1),
            _ => { q.sin = vals(rng, 1); q.sout = vals(rng, 1); }
        }
        if rng.gen_bool(0.15) { q.eph = Some((rng.gen_bool(0.5), lattice(rng, m, thr, ms))); }
    }
    if rng.gen_range(0..100) < 85 {
        tune(rng, &mut q, 7);
    }
    q
}

/// Deterministic boundary sweep of the transparent configuration: flow patterns x policies x (marginal fees, delta).
fn sweep_t(w: &mut NdjsonWriter, full: bool) {
    // (tin, tout, sin, sout, oin, oout, iin, iout, ephemeral: 0 none / 1 input / 2 output); the tuned input is the
    // first transparent input, else the ephemeral input, else the first shielded one
    let patterns: [[usize; 9]; 18] = [
        [1, 1, 0, 0, 0, 0, 0, 0, 0],
        [2, 3, 0, 0, 0, 0, 0, 0, 0],
        [1, 2, 0, 0, 0, 0, 0, 0, 0],
        [1, 0, 0, 0, 0, 0, 0, 0, 0],
        [3, 1, 0, 0, 0, 0, 0, 0, 0],
        [0, 1, 0, 0, 0, 0, 0, 0, 1],
        [0, 2, 0, 0, 0, 0, 0, 0, 1],
        [1, 1, 0, 0, 0, 0, 0, 0, 1],
        [1, 0, 0, 0, 0, 0, 0, 0, 2],
        [1, 1, 0, 0, 0, 0, 0, 0, 2],
        [0, 0, 1, 0, 0, 0, 0, 0, 2],
        [0, 0, 0, 0, 1, 0, 0, 0, 2],
        [0, 0, 0, 0, 0, 0, 1, 0, 2],
        [0, 0, 0, 0, 1, 0, 0, 1, 2],
        [0, 0, 1, 1, 0, 0, 0, 0, 2],
        [1, 0, 0, 1, 0, 0, 0, 0, 0],
        [1, 1, 1, 0, 0, 0, 0, 0, 0],
        [0, 1, 1, 0, 0, 0, 0, 0, 1],
    ];
    const EPH_V: u64 = 40_000;
    for (pi, pat) in patterns.iter().enumerate() {
        let shielded = pat[2..8].iter().sum::<usize>() > 0;
        for act in 0..3u8 {
            for (ti, thr) in [None, Some(12_000u64), Some(0)].into_iter().enumerate() {
                // quick: one threshold where the policy ignores it, the shielding policy on every other pattern of
                // purely transparent value
                if !full && (ti == 2 || (ti == 1 && act == 1)) { continue; }
                for tpol in [true, false] {
                    if !full && !tpol && !shielded && pi % 2 == 1 { continue; }
                    for (vi, (multi, target, min_split, notes)) in [(false, 1usize, 0u64, -1i64), (true, 3, 6_000, 0)].into_iter().enumerate() {
                        // quick: the multi-output strategy on every third pattern only
                        if !full && vi == 1 && pi % 3 != 1 { continue; }
                        for target_h in [250u32, 150] {
                            // the height matters for the shielded change pool only
                            if !full && target_h == 150 && !(shielded || !tpol) { continue; }
                            let nu63 = target_h >= 200;
                            for memo in [false, true] {
                                if memo && (act == 1 || multi || !(full || pi % 4 == 0)) { continue; }
                                let thr_eff = thr.unwrap_or(5000) as i128;
                                let a_range = if full { 0i128..=7 } else { 2..=5 };
                                for a in a_range {
                                    for (di, delta) in [-1i128, 0, 1, thr_eff - 1, thr_eff, thr_eff + 1, 100_000, 100_001].into_iter().enumerate() {
                                        if !full && di >= 6 { continue; }
                                        if di >= 3 && thr_eff == 0 && di < 6 { continue; }
                                        let out_each = if pat[7] > 0 { 1_000_000u64 } else { 30_000 };
                                        let mut q = Req {
                                            rule_kind: (pi % 2) as u8, m: 5000, g: 2, pin: 150, pout: 34,
                                            multi, split_single: false, target, min_split, notes, meta_var: pi as u8,
                                            act, thr, fallback: (pi % 3) as u8, memo,
                                            eph: match pat[8] { 1 => Some((true, EPH_V)), 2 => Some((false, EPH_V)), _ => None },
                                            target_h, nu5_h: 100, nu63_h: Some(200), anchor_h: if a % 2 == 0 { 144 } else { 145 },
                                            interval: 144, ov_kind: if nu63 { 2 } else { 1 }, sap_type: 0,
                                            tin: vec![(20_000, 1, 150); pat[0]],
                                            tout: vec![(out_each, 25); pat[1]],
                                            sin: vec![20_000; pat[2]], sout: vec![out_each; pat[3]],
                                            oin: vec![20_000; pat[4]], oout: vec![out_each; pat[5]],
                                            iin: vec![20_000; pat[6]], iout: vec![out_each; pat[7]],
                                            tpol,
                                        };
                                        let n_out = pat[1] + pat[3] + pat[5] + pat[7];
                                        let n_in = pat[0] + pat[2] + pat[4] + pat[6];
                                        let (eph_in, eph_out) = (if pat[8] == 1 { EPH_V as i128 } else { 0 }, if pat[8] == 2 { EPH_V as i128 } else { 0 });
                                        // value of the tuned input:  sum(in) = sum(out) + a*m + delta
                                        let target_in = out_each as i128 * n_out as i128 + eph_out + a * 5000 + delta;
                                        if pat[0] == 0 && pat[8] == 1 {
                                            let want = target_in - 20_000 * n_in as i128;
                                            if want < 0 { continue; }
                                            q.eph = Some((true, want as u64));
                                        } else {
                                            let want = target_in - eph_in - 20_000 * (n_in as i128 - 1);
                                            if want < 0 { continue; }
                                            let v = want as u64;
                                            if pat[0] > 0 { q.tin[0].0 = v } else if pat[2] > 0 { q.sin[0] = v } else if pat[4] > 0 { q.oin[0] = v } else { q.iin[0] = v }
                                        }
                                        w.emit(&record(&q));
                                    }
                                }
                            }
                        }
                    }
                }
            }
        }
    }
}

/// Deterministic boundary sweep: flow patterns x policies x (number of marginal fees, delta).
fn sweep(w: &mut NdjsonWriter, full: bool) {
    // (tin, tout, sin, sout, oin, oout, iin, iout) counts; the first listed input is the tuned one
    let patterns: [[usize; 8]; 12] = [
        [1, 1, 0, 0, 0, 0, 0, 0],
        [2, 0, 0, 1, 0, 0, 0, 0],
        [0, 0, 1, 1, 0, 0, 0, 0],
        [0, 0, 1, 2, 0, 0, 0, 0],
        [0, 1, 2, 0, 0, 0, 0, 0],
        [0, 0, 0, 0, 1, 1, 0, 0],
        [0, 0, 0, 0, 1, 0, 0, 1],
        [0, 0, 0, 0, 2, 0, 0, 1],
        [0, 0, 0, 0, 0, 0, 1, 1],
        [0, 0, 1, 0, 0, 1, 0, 0],
        [0, 0, 1, 0, 1, 0, 0, 1],
        [1, 0, 0, 0, 0, 0, 0, 0],
    ];
    // the documented call of known finding C07-orchard-outputs-after-nu63 (and its pre-NU6.3 twin)
    for target_h in [350u32, 150] {
        w.emit(&record(&Req {
            rule_kind: 0, m: 5000, g: 2, pin: 150, pout: 34, multi: false, split_single: false, target: 1, min_split: 0,
            notes: -1, meta_var: 0, act: 0, thr: None, fallback: 0, memo: false, eph: None, target_h, nu5_h: 100,
            nu63_h: Some(200), anchor_h: 143, interval: 144, ov_kind: if target_h >= 200 { 2 } else { 1 }, sap_type: 0,
            tin: vec![], tout: vec![], sin: vec![50_000], sout: vec![], oin: vec![100_000], oout: vec![60_000],
            iin: vec![], iout: vec![], tpol: false,
        }));
    }
    for (pi, pat) in patterns.iter().enumerate() {
        for act in 0..3u8 {
            for thr in [None, Some(12_000u64)] {
                for (vi, (multi, target, min_split, notes)) in [(false, 1usize, 0u64, -1i64), (true, 3, 6_000, 0), (true, 4, 0, 2)].into_iter().enumerate() {
                    if !full && vi == 2 { continue; }
                    for target_h in [150u32, 250] {
                        let nu63 = target_h >= 200;
                        for memo in [false, true] {
                            if memo && (act == 1 || multi) { continue; }
                            let thr_eff = thr.unwrap_or(5000) as i128;
                            for a in 0..=(if full { 8i128 } else { 6 }) {
                                for (di, delta) in [-1i128, 0, 1, thr_eff - 1, thr_eff, thr_eff + 1, 6_000 * 2 - 1, 6_000 * 3].into_iter().enumerate() {
                                    if !full && di >= 6 { continue; }
                                    let out_each = if pi == 6 || pi == 7 || pi == 10 { 1_000_000u64 } else { 30_000 };
                                    let mut q = Req {
                                        rule_kind: (pi % 2) as u8, m: 5000, g: 2, pin: 150, pout: 34,
                                        multi, split_single: false, target, min_split, notes, meta_var: pi as u8,
                                        act, thr, fallback: (pi % 3) as u8, memo, eph: None,
                                        target_h, nu5_h: 100, nu63_h: Some(200), anchor_h: if a % 2 == 0 { 144 } else { 145 },
                                        interval: 144, ov_kind: if nu63 { 2 } else { 1 }, sap_type: 0,
                                        tin: vec![(20_000, 1, 150); pat[0]],
                                        tout: vec![(out_each, 25); pat[1]],
                                        sin: vec![20_000; pat[2]], sout: vec![out_each; pat[3]],
                                        oin: vec![20_000; pat[4]], oout: vec![out_each; pat[5]],
                                        iin: vec![20_000; pat[6]], iout: vec![out_each; pat[7]],
                                        tpol: false,
                                    };
                                    let n_out = pat[1] + pat[3] + pat[5] + pat[7];
                                    let n_in = pat[0] + pat[2] + pat[4] + pat[6];
                                    let want = out_each as i128 * n_out as i128 + a * 5000 + delta - 20_000 * (n_in as i128 - 1);
                                    if want < 0 { continue; }
                                    let v = want as u64;
                                    if pat[0] > 0 { q.tin[0].0 = v } else if pat[2] > 0 { q.sin[0] = v } else if pat[4] > 0 { q.oin[0] = v } else { q.iin[0] = v }
                                    w.emit(&record(&q));
                                }
                            }
                        }
                    }
                }
            }
        }
    }
}

// ------------------------------------------------------------------------------------------------
// fee_required

fn split_sizes(total: usize, parts: usize) -> Vec<usize> {
    if parts <= 1 || total == 0 {
        return if total == 0 && parts == 0 { vec![] } else { vec![total] };
    }
    let first = total / 2;
    vec![first, total - first]
}

fn call_fee<R: FeeRule<Error = FeeError>>(rule: &R, tin: &[usize], tout: &[usize], ss: usize, so: usize, ao: usize, ai: usize)
    -> Result<Result<Zatoshis, FeeError>, String> {
    let params = LocalNetwork { overwinter: None, sapling: None, blossom: None, heartwood: None, canopy: None, nu5: None,
                                nu6: None, nu6_1: None, nu6_2: None, nu6_3: None };
    util::guarded(|| {
        rule.fee_required(&params, BlockHeight::from_u32(1000), tin.iter().map(|s| InputSize::Known(*s)),
                          tout.iter().copied(), ss, so, ao, ai)
    })
}

fn fee_replay(path: &str) {
    let cases = util::read_ndjson(path);
    let mut mismatches = vec![];
    let mut calls = 0usize;
    let mut distinct = std::collections::BTreeSet::new();
    for c in &cases {
        let r = &c["rule"];
        let (m, g, pin, pout) = (r["m"].as_u64().unwrap(), r["g"].as_u64().unwrap() as usize,
                                 r["pin"].as_u64().unwrap() as usize, r["pout"].as_u64().unwrap() as usize);
        let k = &c["c"];
        let f = |n: &str| k[n].as_u64().unwrap() as usize;
        let expected = c["fee"].as_u64().unwrap();
        let standard = (m, g, pin, pout) == (5000, 2, 150, 34);
        for parts in [1usize, 2] {
            let tin = split_sizes(f("tin"), parts);
            let tout = split_sizes(f("tout"), parts);
            let mut results: Vec<(&str, Result<Result<Zatoshis, FeeError>, String>)> = vec![];
            if standard {
                results.push(("zip317::FeeRule::standard", call_fee(&PrimRule::standard(), &tin, &tout, f("ss"), f("so"), f("ao"), f("ai"))));
                results.push(("StandardFeeRule::Zip317", call_fee(&StandardFeeRule::Zip317, &tin, &tout, f("ss"), f("so"), f("ao"), f("ai"))));
            }
            let ns = PrimRule::non_standard(zat(m), g, pin, pout).expect("sizes non-zero");
            results.push(("zip317::FeeRule::non_standard", call_fee(&ns, &tin, &tout, f("ss"), f("so"), f("ao"), f("ai"))));
            for (name, res) in results {
                calls += 1;
                let got = match &res {
                    Ok(Ok(z)) => format!("{}", z.into_u64()),
                    Ok(Err(e)) => format!("error {e:?}"),
                    Err(p) => format!("panic {p}"),
                };
                distinct.insert(got.clone());
                if got != format!("{expected}") {
                    if mismatches.len() < 20 {
                        mismatches.push(json!({"case": c, "rule_impl": name, "tin": tin, "tout": tout, "got": got}));
                    }
                }
            }
        }
    }
    println!("{}", json!({"cases": cases.len(), "calls": calls, "distinct_results": distinct.len(), "mismatches": mismatches}));
}

/// Executes one native-number fee case and logs it. `imp`: 0 non_standard(m, g, pin, pout), 1 StandardFeeRule::Zip317,
/// 2 zip317::FeeRule::standard().
fn fee_record_native(imp: u64, m: u64, g: usize, pin: usize, pout: usize, tin: &[usize], tout: &[usize], c: [usize; 4]) -> Value {
    let res = match imp {
        1 => call_fee(&StandardFeeRule::Zip317, tin, tout, c[0], c[1], c[2], c[3]),
        2 => call_fee(&PrimRule::standard(), tin, tout, c[0], c[1], c[2], c[3]),
        _ => call_fee(&PrimRule::non_standard(zat(m), g, pin, pout).unwrap(), tin, tout, c[0], c[1], c[2], c[3]),
    };
    let (cls, fee) = match res {
        Ok(Ok(z)) => ("ok".to_string(), z.into_u64()),
        Ok(Err(e)) => (format!("error {e:?}"), 0),
        Err(p) => (format!("panic {p}"), 0),
    };
    json!({"a": "fee", "imp": imp, "rule": {"m": m, "g": g, "pin": pin, "pout": pout},
           "tinL": tin, "toutL": tout,
           "tin": tin.iter().sum::<usize>(), "tout": tout.iter().sum::<usize>(), "ss": c[0], "so": c[1], "ao": c[2], "ai": c[3],
           "res": cls, "fee": fee})
}

/// Executes one fee case with MAX_MONEY-scale marginal fee / huge counts; numbers logged as digit arrays.
fn fee_record_big(m: u64, g: usize, pin: usize, pout: usize, tin: &[usize], tout: &[usize], c: [usize; 4]) -> Value {
    let res = call_fee(&PrimRule::non_standard(zat(m), g, pin, pout).unwrap(), tin, tout, c[0], c[1], c[2], c[3]);
    let (cls, fee) = match res {
        Ok(Ok(z)) => ("ok".to_string(), z.into_u64()),
        Ok(Err(FeeError::Balance(BalanceError::Overflow))) => ("overflow".to_string(), 0),
        Ok(Err(e)) => (format!("error {e:?}"), 0),
        Err(p) => (format!("panic {p}"), 0),
    };
    let (ti, to) = (tin.iter().map(|x| *x as u128).sum::<u128>(), tout.iter().map(|x| *x as u128).sum::<u128>());
    json!({"a": "feebig", "rule": {"m": digits(m as u128), "g": g, "pin": pin, "pout": pout},
           "tinL": tin, "toutL": tout,
           "tin": digits(ti), "tout": digits(to),
           "qin": digits(ti.div_ceil(pin as u128)), "qout": digits(to.div_ceil(pout as u128)),
           "ss": digits(c[0] as u128), "so": digits(c[1] as u128), "ao": digits(c[2] as u128), "ai": digits(c[3] as u128),
           "res": cls, "fee": digits(fee as u128)})
}

fn usizes(v: &Value) -> Vec<usize> {
    v.as_array().expect("array").iter().map(|x| x.as_u64().expect("usize") as usize).collect()
}

fn reexec_fee(r: &Value) -> Value {
    let rule = &r["rule"];
    let (g, pin, pout) = (rule["g"].as_u64().unwrap() as usize, rule["pin"].as_u64().unwrap() as usize, rule["pout"].as_u64().unwrap() as usize);
    let (tin, tout) = (usizes(&r["tinL"]), usizes(&r["toutL"]));
    if r["a"] == "fee" {
        let c = [r["ss"].as_u64().unwrap() as usize, r["so"].as_u64().unwrap() as usize, r["ao"].as_u64().unwrap() as usize, r["ai"].as_u64().unwrap() as usize];
        fee_record_native(r["imp"].as_u64().unwrap(), rule["m"].as_u64().unwrap(), g, pin, pout, &tin, &tout, c)
    } else {
        let c = [undigits(&r["ss"]) as usize, undigits(&r["so"]) as usize, undigits(&r["ao"]) as usize, undigits(&r["ai"]) as usize];
        fee_record_big(undigits(&rule["m"]) as u64, g, pin, pout, &tin, &tout, c)
    }
}

fn fee_records(rng: &mut ChaCha8Rng, w: &mut NdjsonWriter, n: usize) {
    for i in 0..n {
        let standard = rng.gen_bool(0.5);
        if i % 3 != 2 {
            // native numbers (product below 2^31)
            let (m, g, pin, pout) = if standard { (5000u64, 2usize, 150usize, 34usize) } else {
                (pick(rng, &[0u64, 1, 10, 999, 5000, 20_000]), pick(rng, &[0usize, 1, 2, 3, 10]), pick(rng, &[1usize, 100, 150, 151]), pick(rng, &[1usize, 30, 34, 35]))
            };
            let cap = if rng.gen_bool(0.5) { 12usize } else { 20_000 };
            let nt = rng.gen_range(0..3usize);
            let tin: Vec<usize> = (0..nt).map(|_| { let r = rng.gen_range(0..cap * 10 + 1); pick(rng, &[0usize, 1, pin - 1, pin, pin + 1, 2 * pin, 2 * pin + 1, r]) }).collect();
            let nt = rng.gen_range(0..3usize);
            let tout: Vec<usize> = (0..nt).map(|_| { let r = rng.gen_range(0..cap * 3 + 1); pick(rng, &[0usize, 1, pout - 1, pout, pout + 1, 2 * pout, 2 * pout + 1, r]) }).collect();
            let c = [rng.gen_range(0..=cap), rng.gen_range(0..=cap), rng.gen_range(0..=cap), rng.gen_range(0..=cap)];
            let imp = if standard { pick(rng, &[0u64, 1, 2]) } else { 0 };
            // crude magnitude bound (not the fee): TLC integers are 32-bit, larger cases travel as digit arrays
            let bound = (m as u128) * ((tin.iter().sum::<usize>() + tout.iter().sum::<usize>() + c.iter().sum::<usize>() + g) as u128);
            if bound < (1u128 << 30) {
                w.emit(&fee_record_native(imp, m, g, pin, pout, &tin, &tout, c));
            } else {
                w.emit(&fee_record_big(m, g, pin, pout, &tin, &tout, c));
            }
        } else {
            // huge counts / marginal fees: MAX_MONEY-scale products, overflow must be an error
            let r = rng.gen_range(1..=MAX_MONEY);
            let m = pick(rng, &[5000u64, 5000, 1, MAX_MONEY, MAX_MONEY / 2, MAX_MONEY / 2 + 1, MAX_MONEY / 3, 1_000_000_007, r]);
            let g = pick(rng, &[0usize, 1, 2, 3]);
            let (pin, pout) = (pick(rng, &[150usize, 100]), pick(rng, &[34usize, 30]));
            let big = |rng: &mut ChaCha8Rng| -> usize {
                match rng.gen_range(0..6) {
                    0 => 0,
                    1 => rng.gen_range(0..4),
                    2 => rng.gen_range(0..1_000_000),
                    3 => (MAX_MONEY / 5000) as usize + rng.gen_range(0..3) - 1,
                    4 => rng.gen_range(0..10_000_000_000_000usize),
                    _ => (MAX_MONEY / m.max(1)) as usize / pick(rng, &[1usize, 2, 3, 4]) + rng.gen_range(0..3),
                }
            };
            let tin = vec![big(rng).saturating_mul(pick(rng, &[1usize, 150])).min(1usize << 55), rng.gen_range(0..400)];
            let tout = vec![big(rng).saturating_mul(pick(rng, &[1usize, 34])).min(1usize << 55)];
            let c = [big(rng), big(rng), big(rng), big(rng)];
            w.emit(&fee_record_big(m, g, pin, pout, &tin, &tout, c));
        }
    }
}

// ------------------------------------------------------------------------------------------------

fn main() {
    util::quiet_panics();
    let args: Vec<String> = std::env::args().collect();
    let _ = std::marker::PhantomData::<Infallible>;
    match args.get(1).map(|s| s.as_str()) {
        Some("fee-replay") => fee_replay(&args[2]),
        Some("trace") => {
            let n: usize = args[3].parse().expect("n");
            let sweep_mode: u8 = args.get(4).and_then(|s| s.parse().ok()).unwrap_or(0);
            let seed = util::seed_from_env();
            let mut rng = ChaCha8Rng::seed_from_u64(seed ^ 0xC07C_07C0_7C07);
            let mut w = NdjsonWriter::create(&args[2]);
            fee_records(&mut rng, &mut w, (n / 8).max(30));
            if sweep_mode > 0 {
                sweep(&mut w, sweep_mode > 1);
            }
            let mut stats = std::collections::BTreeMap::<String, usize>::new();
            for _ in 0..n {
                let q = gen_request(&mut rng);
                let rec = record(&q);
                *stats.entry(rec["o"]["k"].as_str().unwrap().to_string()).or_default() += 1;
                w.emit(&rec);
            }
            let total = w.finish();
            println!("{}", json!({"records": total, "random_outcomes": stats}));
        }
        Some("trace-t") if TFEAT => {
            let n: usize = args[3].parse().expect("n");
            let sweep_mode: u8 = args.get(4).and_then(|s| s.parse().ok()).unwrap_or(0);
            let seed = util::seed_from_env();
            let mut rng = ChaCha8Rng::seed_from_u64(seed ^ 0x7C07_7C07_0320);
            let mut w = NdjsonWriter::create(&args[2]);
            if sweep_mode > 0 {
                sweep_t(&mut w, sweep_mode > 1);
            }
            let mut stats = std::collections::BTreeMap::<String, usize>::new();
            for _ in 0..n {
                let q = gen_request_t(&mut rng);
                let rec = record(&q);
                *stats.entry(rec["o"]["k"].as_str().unwrap().to_string()).or_default() += 1;
                w.emit(&rec);
            }
            let total = w.finish();
            println!("{}", json!({"records": total, "random_outcomes": stats}));
        }
        Some("exec") => {
            let reqs = util::read_ndjson(&args[2]);
            let mut w = NdjsonWriter::create(&args[3]);
            for r in &reqs {
                if r["a"] == "bal" {
                    w.emit(&record(&Req::from_json(&r["q"])));
                } else {
                    w.emit(&reexec_fee(r));
                }
            }
            println!("{}", json!({"records": w.finish()}));
        }
        _ => {
            eprintln!("usage: c07_driver fee-replay <cases> | trace <out> <n> <sweep> | exec <in> <out> | (c07_driver_t only) trace-t <out> <n> <sweep>");
            std::process::exit(2);
        }
    }
}
