fn main() { println!("h_tx ok"); }
