//! C13 — PCZT encoding, combination and roles preserve the transaction.
//!
//! Conformance harness for spec/Pczt/{PcztLattice,PcztRoles}.tla.
//!
//! Independent paths used here (none of them calls the code under test):
//!  * `wire`   — an own, schema-driven mirror of the v1/v2 postcard encodings (decoder + encoder),
//!               written from the struct documentation; PCZTs are observed through it and parties
//!               with arbitrary slot contents are made with it (`Pczt::parse(own_bytes)`).
//!  * `zip244` — an own ZIP 244 (v5) txid / transparent signature digest over the decoded effect
//!               slots with `blake2b_simd`.
//!
//! Sub-commands (all print one JSON object on the last stdout line):
//!   merge   <cases.ndjson> <tier>       spec -> code: TLC-enumerated merge cases on Combiner::combine
//!   roles   <trace.ndjson> <n> <tier>   code -> spec: n seeded random role sequences, logged as ndjson
//!   rerun   <replay.json>               re-executes one recorded merge case
//!   probe | probe_prove                 (development) dumps the bases' slots / times the provers
//!   probe_bsk | probe_lock              the two defects found on the pinned tree, through the public API
#![allow(clippy::too_many_arguments, clippy::type_complexity)]

use std::collections::{BTreeMap, BTreeSet};

use h_tx::util::{NdjsonWriter, guarded, quiet_panics, read_ndjson, seed_from_env};
use rand::{Rng, SeedableRng, seq::SliceRandom};
use rand_chacha::ChaCha20Rng;
use serde_json::{Value as J, json};

use pczt::{
    Pczt,
    roles::{
        combiner::Combiner, creator::Creator, io_finalizer::IoFinalizer, prover::Prover, redactor::Redactor,
        signer::Signer, spend_finalizer::SpendFinalizer, tx_extractor::TransactionExtractor, updater::Updater,
        verifier::Verifier,
    },
};
use zcash_pool_migration::pczt_txid::pczt_txid;

// =================================================================================================
// wire: own mirror of the postcard encodings
// =================================================================================================
mod wire {
    use std::fmt::Write as _;

    #[derive(Clone, Debug, PartialEq, Eq)]
    pub enum V {
        U(u64),
        I(i128),
        B(Vec<u8>),
        Opt(Option<Box<V>>),
        Seq(Vec<V>),
        Map(Vec<(V, V)>),
        Rec(Vec<V>),
        Enum(u32, Box<V>),
    }

    #[derive(Clone, Debug)]
    pub enum S {
        U8,
        U32,
        U64,
        I128,
        Bool,
        Fixed(usize),
        Var, // Vec<u8> / String
        Opt(Box<S>),
        Seq(Box<S>),
        Map(Box<S>, Box<S>),
        Rec(Vec<(&'static str, S)>),
        Enum(Vec<(&'static str, S)>),
    }

    pub fn opt(s: S) -> S {
        S::Opt(Box::new(s))
    }
    pub fn seq(s: S) -> S {
        S::Seq(Box::new(s))
    }
    pub fn map(k: S, v: S) -> S {
        S::Map(Box::new(k), Box::new(v))
    }

    fn varint(inp: &mut &[u8], max_bytes: usize) -> Result<u128, String> {
        let mut out: u128 = 0;
        for i in 0..max_bytes {
            let b = *inp.first().ok_or("eof in varint")?;
            *inp = &inp[1..];
            out |= ((b & 0x7f) as u128) << (7 * i);
            if b & 0x80 == 0 {
                return Ok(out);
            }
        }
        Err("varint too long".into())
    }

    fn put_varint(mut v: u128, out: &mut Vec<u8>) {
        loop {
            let b = (v & 0x7f) as u8;
            v >>= 7;
            if v == 0 {
                out.push(b);
                return;
            }
            out.push(b | 0x80);
        }
    }

    fn take<'a>(inp: &mut &'a [u8], n: usize) -> Result<&'a [u8], String> {
        if inp.len() < n {
            return Err("eof".into());
        }
        let (a, b) = inp.split_at(n);
        *inp = b;
        Ok(a)
    }

    pub fn decode(s: &S, inp: &mut &[u8]) -> Result<V, String> {
        Ok(match s {
            S::U8 => V::U(take(inp, 1)?[0] as u64),
            S::Bool => match take(inp, 1)?[0] {
                0 => V::U(0),
                1 => V::U(1),
                _ => return Err("bad bool".into()),
            },
            S::U32 => {
                let v = varint(inp, 5)?;
                if v > u32::MAX as u128 {
                    return Err("u32 overflow".into());
                }
                V::U(v as u64)
            }
            S::U64 => {
                let v = varint(inp, 10)?;
                if v > u64::MAX as u128 {
                    return Err("u64 overflow".into());
                }
                V::U(v as u64)
            }
            S::I128 => {
                let v = varint(inp, 19)?;
                let z = ((v >> 1) as i128) ^ (-((v & 1) as i128));
                V::I(z)
            }
            S::Fixed(n) => V::B(take(inp, *n)?.to_vec()),
            S::Var => {
                let n = varint(inp, 10)? as usize;
                V::B(take(inp, n)?.to_vec())
            }
            S::Opt(t) => match take(inp, 1)?[0] {
                0 => V::Opt(None),
                1 => V::Opt(Some(Box::new(decode(t, inp)?))),
                _ => return Err("bad option tag".into()),
            },
            S::Seq(t) => {
                let n = varint(inp, 10)? as usize;
                let mut v = Vec::new();
                for _ in 0..n {
                    v.push(decode(t, inp)?);
                }
                V::Seq(v)
            }
            S::Map(k, t) => {
                let n = varint(inp, 10)? as usize;
                let mut v = Vec::new();
                for _ in 0..n {
                    let kk = decode(k, inp)?;
                    let vv = decode(t, inp)?;
                    v.push((kk, vv));
                }
                V::Map(v)
            }
            S::Rec(fs) => {
                let mut v = Vec::new();
                for (_, t) in fs {
                    v.push(decode(t, inp)?);
                }
                V::Rec(v)
            }
            S::Enum(vs) => {
                let d = varint(inp, 5)? as usize;
                let (_, t) = vs.get(d).ok_or("bad enum discriminant")?;
                V::Enum(d as u32, Box::new(decode(t, inp)?))
            }
        })
    }

    pub fn encode(s: &S, v: &V, out: &mut Vec<u8>) {
        match (s, v) {
            (S::U8, V::U(x)) => out.push(*x as u8),
            (S::Bool, V::U(x)) => out.push(*x as u8),
            (S::U32, V::U(x)) | (S::U64, V::U(x)) => put_varint(*x as u128, out),
            (S::I128, V::I(x)) => {
                let z = ((*x << 1) ^ (*x >> 127)) as u128;
                put_varint(z, out)
            }
            (S::Fixed(n), V::B(b)) => {
                assert_eq!(*n, b.len(), "fixed length");
                out.extend_from_slice(b)
            }
            (S::Var, V::B(b)) => {
                put_varint(b.len() as u128, out);
                out.extend_from_slice(b)
            }
            (S::Opt(_), V::Opt(None)) => out.push(0),
            (S::Opt(t), V::Opt(Some(x))) => {
                out.push(1);
                encode(t, x, out)
            }
            (S::Seq(t), V::Seq(xs)) => {
                put_varint(xs.len() as u128, out);
                for x in xs {
                    encode(t, x, out)
                }
            }
            (S::Map(k, t), V::Map(xs)) => {
                put_varint(xs.len() as u128, out);
                for (a, b) in xs {
                    encode(k, a, out);
                    encode(t, b, out)
                }
            }
            (S::Rec(fs), V::Rec(xs)) => {
                assert_eq!(fs.len(), xs.len(), "record arity");
                for ((_, t), x) in fs.iter().zip(xs) {
                    encode(t, x, out)
                }
            }
            (S::Enum(vs), V::Enum(d, x)) => {
                put_varint(*d as u128, out);
                encode(&vs[*d as usize].1, x, out)
            }
            (s, v) => panic!("schema/value mismatch: {s:?} vs {v:?}"),
        }
    }

    pub fn hex(b: &[u8]) -> String {
        let mut s = String::with_capacity(b.len() * 2);
        for x in b {
            write!(s, "{x:02x}").unwrap();
        }
        s
    }

    impl V {
        pub fn field<'a>(&'a self, s: &S, name: &str) -> &'a V {
            match (s, self) {
                (S::Rec(fs), V::Rec(xs)) => {
                    let i = fs.iter().position(|(n, _)| *n == name).unwrap_or_else(|| panic!("no field {name}"));
                    &xs[i]
                }
                _ => panic!("field {name} of a non-record"),
            }
        }
        pub fn bytes(&self) -> &[u8] {
            match self {
                V::B(b) => b,
                _ => panic!("not bytes: {self:?}"),
            }
        }
        pub fn u(&self) -> u64 {
            match self {
                V::U(x) => *x,
                _ => panic!("not an integer: {self:?}"),
            }
        }
        pub fn seq(&self) -> &Vec<V> {
            match self {
                V::Seq(x) => x,
                _ => panic!("not a sequence"),
            }
        }
        pub fn opt(&self) -> Option<&V> {
            match self {
                V::Opt(x) => x.as_deref(),
                _ => panic!("not an option: {self:?}"),
            }
        }
    }
}

use wire::{S, V, hex};

// ---- the logical PCZT (the in-memory `pczt::Pczt`) and its two wire forms --------------------------

fn s_prop() -> S {
    wire::map(S::Var, S::Var)
}
fn s_zip32() -> S {
    S::Rec(vec![("seed_fingerprint", S::Fixed(32)), ("derivation_path", wire::seq(S::U32))])
}
fn s_witness() -> S {
    S::Rec(vec![("position", S::U32), ("path", S::Fixed(32 * 32))])
}

fn s_global() -> S {
    S::Rec(vec![
        ("tx_version", S::U32),
        ("version_group_id", S::U32),
        ("consensus_branch_id", S::U32),
        ("fallback_lock_time", wire::opt(S::U32)),
        ("expiry_height", S::U32),
        ("coin_type", S::U32),
        ("tx_modifiable", S::U8),
        ("proprietary", s_prop()),
    ])
}

fn s_tin() -> S {
    S::Rec(vec![
        ("prevout_txid", S::Fixed(32)),
        ("prevout_index", S::U32),
        ("sequence", wire::opt(S::U32)),
        ("required_time_lock_time", wire::opt(S::U32)),
        ("required_height_lock_time", wire::opt(S::U32)),
        ("script_sig", wire::opt(S::Var)),
        ("value", S::U64),
        ("script_pubkey", S::Var),
        ("redeem_script", wire::opt(S::Var)),
        ("partial_signatures", wire::map(S::Fixed(33), S::Var)),
        ("sighash_type", S::U8),
        ("bip32_derivation", wire::map(S::Fixed(33), s_zip32())),
        ("ripemd160_preimages", wire::map(S::Fixed(20), S::Var)),
        ("sha256_preimages", wire::map(S::Fixed(32), S::Var)),
        ("hash160_preimages", wire::map(S::Fixed(20), S::Var)),
        ("hash256_preimages", wire::map(S::Fixed(32), S::Var)),
        ("proprietary", s_prop()),
    ])
}

fn s_tout() -> S {
    S::Rec(vec![
        ("value", S::U64),
        ("script_pubkey", S::Var),
        ("redeem_script", wire::opt(S::Var)),
        ("bip32_derivation", wire::map(S::Fixed(33), s_zip32())),
        ("user_address", wire::opt(S::Var)),
        ("proprietary", s_prop()),
    ])
}

fn s_transparent() -> S {
    S::Rec(vec![("inputs", wire::seq(s_tin())), ("outputs", wire::seq(s_tout()))])
}

fn s_sspend() -> S {
    S::Rec(vec![
        ("cv", S::Fixed(32)),
        ("nullifier", S::Fixed(32)),
        ("rk", S::Fixed(32)),
        ("zkproof", wire::opt(S::Fixed(192))),
        ("spend_auth_sig", wire::opt(S::Fixed(64))),
        ("recipient", wire::opt(S::Fixed(43))),
        ("value", wire::opt(S::U64)),
        ("rcm", wire::opt(S::Fixed(32))),
        ("rseed", wire::opt(S::Fixed(32))),
        ("rcv", wire::opt(S::Fixed(32))),
        ("proof_generation_key", wire::opt(S::Fixed(64))),
        ("witness", wire::opt(s_witness())),
        ("alpha", wire::opt(S::Fixed(32))),
        ("zip32_derivation", wire::opt(s_zip32())),
        ("dummy_ask", wire::opt(S::Fixed(32))),
        ("proprietary", s_prop()),
    ])
}

fn s_soutput() -> S {
    S::Rec(vec![
        ("cv", S::Fixed(32)),
        ("cmu", S::Fixed(32)),
        ("ephemeral_key", S::Fixed(32)),
        ("enc_ciphertext", S::Var),
        ("out_ciphertext", S::Var),
        ("zkproof", wire::opt(S::Fixed(192))),
        ("recipient", wire::opt(S::Fixed(43))),
        ("value", wire::opt(S::U64)),
        ("rseed", wire::opt(S::Fixed(32))),
        ("rcv", wire::opt(S::Fixed(32))),
        ("ock", wire::opt(S::Fixed(32))),
        ("zip32_derivation", wire::opt(s_zip32())),
        ("user_address", wire::opt(S::Var)),
        ("proprietary", s_prop()),
    ])
}

/// `anchor_optional` = logical / v2 form; otherwise the v1 form with a mandatory anchor.
fn s_sapling(anchor_optional: bool) -> S {
    S::Rec(vec![
        ("spends", wire::seq(s_sspend())),
        ("outputs", wire::seq(s_soutput())),
        ("value_sum", S::I128),
        ("anchor", if anchor_optional { wire::opt(S::Fixed(32)) } else { S::Fixed(32) }),
        ("bsk", wire::opt(S::Fixed(32))),
    ])
}

#[derive(Clone, Copy, PartialEq, Eq, Debug)]
enum Form {
    Logical,
    V1,
    V2,
}

fn s_ospend(form: Form) -> S {
    let req = |n| if form == Form::V2 { wire::opt(S::Fixed(n)) } else { S::Fixed(n) };
    S::Rec(vec![
        ("nullifier", req(32)),
        ("rk", req(32)),
        ("spend_auth_sig", wire::opt(S::Fixed(64))),
        ("recipient", wire::opt(S::Fixed(43))),
        ("value", wire::opt(S::U64)),
        ("rho", wire::opt(S::Fixed(32))),
        ("rseed", wire::opt(S::Fixed(32))),
        ("fvk", wire::opt(S::Fixed(96))),
        ("witness", wire::opt(s_witness())),
        ("alpha", wire::opt(S::Fixed(32))),
        ("zip32_derivation", wire::opt(s_zip32())),
        ("dummy_sk", wire::opt(S::Fixed(32))),
        ("proprietary", s_prop()),
    ])
}

fn s_enc() -> S {
    S::Enum(vec![("Encrypted", S::Var), ("MemoPlaintext", S::Var)])
}

fn s_ooutput(form: Form) -> S {
    S::Rec(vec![
        ("cmx", if form == Form::V1 { S::Fixed(32) } else { wire::opt(S::Fixed(32)) }),
        ("ephemeral_key", S::Fixed(32)),
        ("enc_ciphertext", if form == Form::V1 { S::Var } else { s_enc() }),
        ("out_ciphertext", S::Var),
        ("recipient", wire::opt(S::Fixed(43))),
        ("value", wire::opt(S::U64)),
        ("rseed", wire::opt(S::Fixed(32))),
        ("ock", wire::opt(S::Fixed(32))),
        ("zip32_derivation", wire::opt(s_zip32())),
        ("user_address", wire::opt(S::Var)),
        ("proprietary", s_prop()),
    ])
}

fn s_action(form: Form) -> S {
    S::Rec(vec![
        ("cv_net", if form == Form::V1 { S::Fixed(32) } else { wire::opt(S::Fixed(32)) }),
        ("spend", s_ospend(form)),
        ("output", s_ooutput(form)),
        ("rcv", wire::opt(S::Fixed(32))),
    ])
}

fn s_orchard(form: Form) -> S {
    let mut f = vec![
        ("actions", wire::seq(s_action(form))),
        ("flags", S::U8),
        ("value_sum", S::Rec(vec![("magnitude", S::U64), ("negative", S::Bool)])),
        ("anchor", if form == Form::V1 { S::Fixed(32) } else { wire::opt(S::Fixed(32)) }),
    ];
    if form != Form::V1 {
        f.push(("note_version", S::Enum(vec![("V2", S::Rec(vec![])), ("V3", S::Rec(vec![]))])));
    }
    f.push(("zkproof", wire::opt(S::Var)));
    f.push(("bsk", wire::opt(S::Fixed(32))));
    S::Rec(f)
}

fn s_pczt(form: Form) -> S {
    match form {
        Form::Logical => S::Rec(vec![
            ("global", s_global()),
            ("transparent", s_transparent()),
            ("sapling", s_sapling(true)),
            ("orchard", s_orchard(Form::Logical)),
            ("ironwood", s_orchard(Form::Logical)),
        ]),
        Form::V1 => S::Rec(vec![
            ("global", s_global()),
            ("transparent", s_transparent()),
            ("sapling", s_sapling(false)),
            ("orchard", s_orchard(Form::V1)),
        ]),
        Form::V2 => S::Rec(vec![
            ("global", s_global()),
            ("transparent", wire::opt(s_transparent())),
            ("sapling", wire::opt(s_sapling(true))),
            ("orchard", wire::opt(s_orchard(Form::V2))),
            ("ironwood", wire::opt(s_orchard(Form::V2))),
        ]),
    }
}

fn some(v: V) -> V {
    V::Opt(Some(Box::new(v)))
}
fn none() -> V {
    V::Opt(None)
}

fn empty_orchard(ironwood: bool) -> V {
    V::Rec(vec![
        V::Seq(vec![]),
        V::U(if ironwood { 7 } else { 3 }),
        V::Rec(vec![V::U(0), V::U(0)]),
        none(),
        V::Enum(if ironwood { 1 } else { 0 }, Box::new(V::Rec(vec![]))),
        none(),
        none(),
    ])
}
fn empty_sapling() -> V {
    V::Rec(vec![V::Seq(vec![]), V::Seq(vec![]), V::I(0), none(), none()])
}
fn empty_transparent() -> V {
    V::Rec(vec![V::Seq(vec![]), V::Seq(vec![])])
}

const ZERO32: [u8; 32] = [0; 32];

/// Decodes PCZT bytes (either encoding) into the logical form. Returns (encoding version, value).
fn decode_pczt(bytes: &[u8]) -> Result<(u32, V), String> {
    if bytes.len() < 8 || &bytes[..4] != b"PCZT" {
        return Err("bad header".into());
    }
    let ver = u32::from_le_bytes(bytes[4..8].try_into().unwrap());
    let mut body = &bytes[8..];
    match ver {
        1 => {
            let w = wire::decode(&s_pczt(Form::V1), &mut body)?;
            if !body.is_empty() {
                return Err("trailing bytes".into());
            }
            let V::Rec(mut f) = w else { unreachable!() };
            let orchard = f.pop().unwrap();
            let sapling = f.pop().unwrap();
            let transparent = f.pop().unwrap();
            let global = f.pop().unwrap();
            // sapling: mandatory anchor -> Some(anchor)
            let V::Rec(mut sf) = sapling else { unreachable!() };
            sf[3] = some(sf[3].clone());
            // orchard: v1 has no note version; anchor of an empty bundle falls back to None
            let V::Rec(of) = orchard else { unreachable!() };
            let actions: Vec<V> = of[0]
                .seq()
                .iter()
                .map(|a| {
                    let V::Rec(af) = a else { unreachable!() };
                    let V::Rec(outf) = &af[2] else { unreachable!() };
                    let mut o = outf.clone();
                    o[0] = some(o[0].clone());
                    o[2] = V::Enum(0, Box::new(o[2].clone()));
                    V::Rec(vec![some(af[0].clone()), af[1].clone(), V::Rec(o), af[3].clone()])
                })
                .collect();
            let anchor = if actions.is_empty() && of[3].bytes() == ZERO32 { none() } else { some(of[3].clone()) };
            let orchard = V::Rec(vec![
                V::Seq(actions),
                of[1].clone(),
                of[2].clone(),
                anchor,
                V::Enum(0, Box::new(V::Rec(vec![]))),
                of[4].clone(),
                of[5].clone(),
            ]);
            Ok((1, V::Rec(vec![global, transparent, V::Rec(sf), orchard, empty_orchard(true)])))
        }
        2 => {
            let w = wire::decode(&s_pczt(Form::V2), &mut body)?;
            if !body.is_empty() {
                return Err("trailing bytes".into());
            }
            let V::Rec(f) = w else { unreachable!() };
            let unwrap_orch = |v: &V, iron: bool| -> Result<V, String> {
                match v.opt() {
                    None => Ok(empty_orchard(iron)),
                    Some(b) => {
                        let V::Rec(bf) = b else { unreachable!() };
                        let mut bf = bf.clone();
                        let mut acts = vec![];
                        for a in bf[0].seq() {
                            let V::Rec(af) = a else { unreachable!() };
                            let V::Rec(sp) = &af[1] else { unreachable!() };
                            let mut sp = sp.clone();
                            sp[0] = sp[0].opt().ok_or("missing nullifier")?.clone();
                            sp[1] = sp[1].opt().ok_or("missing rk")?.clone();
                            acts.push(V::Rec(vec![af[0].clone(), V::Rec(sp), af[2].clone(), af[3].clone()]));
                        }
                        bf[0] = V::Seq(acts);
                        Ok(V::Rec(bf))
                    }
                }
            };
            Ok((
                2,
                V::Rec(vec![
                    f[0].clone(),
                    f[1].opt().cloned().unwrap_or_else(empty_transparent),
                    f[2].opt().cloned().unwrap_or_else(empty_sapling),
                    unwrap_orch(&f[3], false)?,
                    unwrap_orch(&f[4], true)?,
                ]),
            ))
        }
        v => Err(format!("unknown version {v}")),
    }
}

fn is_default_empty(bundle: &V, empty: &V) -> bool {
    let V::Rec(f) = bundle else { unreachable!() };
    let mut f = f.clone();
    // anchor is field 3 in both the Sapling and the Orchard bundle
    if f[3] == some(V::B(ZERO32.to_vec())) {
        f[3] = none();
    }
    V::Rec(f) == *empty
}

/// The v1-representability predicate of PcztRoles.tla (`V1Rep`), evaluated on a logical value.
fn v1_representable(l: &V) -> bool {
    let sl = s_pczt(Form::Logical);
    let g = l.field(&sl, "global");
    if g.field(&s_global(), "tx_version").u() == 6 {
        return false;
    }
    if *l.field(&sl, "ironwood") != empty_orchard(true) {
        return false;
    }
    let so = s_orchard(Form::Logical);
    let o = l.field(&sl, "orchard");
    if *o.field(&so, "note_version") != V::Enum(0, Box::new(V::Rec(vec![]))) {
        return false;
    }
    let acts = o.field(&so, "actions").seq();
    if o.field(&so, "anchor").opt().is_none() && !acts.is_empty() {
        return false;
    }
    let sa = s_action(Form::Logical);
    for a in acts {
        if a.field(&sa, "cv_net").opt().is_none() {
            return false;
        }
        let out = a.field(&sa, "output");
        let sout = s_ooutput(Form::Logical);
        if out.field(&sout, "cmx").opt().is_none() {
            return false;
        }
        if !matches!(out.field(&sout, "enc_ciphertext"), V::Enum(0, _)) {
            return false;
        }
    }
    let ss = s_sapling(true);
    let s = l.field(&sl, "sapling");
    if s.field(&ss, "anchor").opt().is_none() && !s.field(&ss, "spends").seq().is_empty() {
        return false;
    }
    true
}

/// Own encoder. `ver` = 1 or 2; `omit` = apply the v2 empty-bundle elision (the canonical form).
fn encode_pczt(l: &V, ver: u32, omit: bool) -> Vec<u8> {
    let V::Rec(f) = l else { unreachable!() };
    let mut out = b"PCZT".to_vec();
    out.extend_from_slice(&ver.to_le_bytes());
    match ver {
        1 => {
            assert!(v1_representable(l));
            let V::Rec(sf) = &f[2] else { unreachable!() };
            let mut sf = sf.clone();
            sf[3] = sf[3].opt().cloned().unwrap_or(V::B(ZERO32.to_vec()));
            let V::Rec(of) = &f[3] else { unreachable!() };
            let actions: Vec<V> = of[0]
                .seq()
                .iter()
                .map(|a| {
                    let V::Rec(af) = a else { unreachable!() };
                    let V::Rec(outf) = &af[2] else { unreachable!() };
                    let mut o = outf.clone();
                    o[0] = o[0].opt().unwrap().clone();
                    o[2] = match &o[2] {
                        V::Enum(0, b) => (**b).clone(),
                        _ => unreachable!(),
                    };
                    V::Rec(vec![af[0].opt().unwrap().clone(), af[1].clone(), V::Rec(o), af[3].clone()])
                })
                .collect();
            let orchard = V::Rec(vec![
                V::Seq(actions),
                of[1].clone(),
                of[2].clone(),
                of[3].opt().cloned().unwrap_or(V::B(ZERO32.to_vec())),
                of[5].clone(),
                of[6].clone(),
            ]);
            wire::encode(&s_pczt(Form::V1), &V::Rec(vec![f[0].clone(), f[1].clone(), V::Rec(sf), orchard]), &mut out);
        }
        2 => {
            let wrap_orch = |b: &V, iron: bool| -> V {
                if omit && is_default_empty(b, &empty_orchard(iron)) {
                    return none();
                }
                let V::Rec(bf) = b else { unreachable!() };
                let mut bf = bf.clone();
                let acts: Vec<V> = bf[0]
                    .seq()
                    .iter()
                    .map(|a| {
                        let V::Rec(af) = a else { unreachable!() };
                        let V::Rec(sp) = &af[1] else { unreachable!() };
                        let mut sp = sp.clone();
                        sp[0] = some(sp[0].clone());
                        sp[1] = some(sp[1].clone());
                        V::Rec(vec![af[0].clone(), V::Rec(sp), af[2].clone(), af[3].clone()])
                    })
                    .collect();
                bf[0] = V::Seq(acts);
                some(V::Rec(bf))
            };
            let t = if omit && f[1] == empty_transparent() { none() } else { some(f[1].clone()) };
            let s = if omit && is_default_empty(&f[2], &empty_sapling()) { none() } else { some(f[2].clone()) };
            wire::encode(
                &s_pczt(Form::V2),
                &V::Rec(vec![f[0].clone(), t, s, wrap_orch(&f[3], false), wrap_orch(&f[4], true)]),
                &mut out,
            );
        }
        _ => unreachable!(),
    }
    out
}

/// The canonical serialisation the property describes: v1 whenever representable, else v2.
fn canonical_bytes(l: &V) -> Vec<u8> {
    if v1_representable(l) { encode_pczt(l, 1, true) } else { encode_pczt(l, 2, true) }
}

/// What `parse` of the canonical bytes yields, as a logical value (the documented normalisations of
/// the encodings: a v1 Sapling anchor is mandatory; an elided bundle comes back canonically empty).
fn normalised(l: &V) -> V {
    decode_pczt(&canonical_bytes(l)).expect("own bytes decode").1
}

// =================================================================================================
// slots: flattening a logical value into path -> value
// =================================================================================================

#[derive(Clone, Debug, PartialEq, Eq)]
enum Slot {
    Absent,          // an optional field holding None
    Val(String),     // hex of the own encoding of the value (or a digest of it when long)
}

fn short(b: &[u8]) -> String {
    if b.len() <= 40 {
        hex(b)
    } else {
        let h = blake2b_simd::Params::new().hash_length(16).hash(b);
        format!("#{}:{}", b.len(), hex(h.as_bytes()))
    }
}

fn leaf(s: &S, v: &V) -> String {
    let mut out = vec![];
    wire::encode(s, v, &mut out);
    short(&out)
}

/// Flattens into (path, class, slot). `class` is the path with indices and map keys erased.
fn flatten(s: &S, v: &V, path: &str, class: &str, out: &mut Vec<(String, String, Slot)>) {
    match (s, v) {
        (S::Rec(fs), V::Rec(xs)) if !fs.is_empty() => {
            for ((n, t), x) in fs.iter().zip(xs) {
                let p = if path.is_empty() { n.to_string() } else { format!("{path}.{n}") };
                let c = if class.is_empty() { n.to_string() } else { format!("{class}.{n}") };
                flatten(t, x, &p, &c, out);
            }
        }
        (S::Seq(t), V::Seq(xs)) => {
            out.push((format!("{path}.#len"), format!("{class}.#len"), Slot::Val(xs.len().to_string())));
            for (i, x) in xs.iter().enumerate() {
                flatten(t, x, &format!("{path}[{i}]"), &format!("{class}[]"), out);
            }
        }
        (S::Map(k, t), V::Map(xs)) => {
            for (a, b) in xs {
                let mut kb = vec![];
                wire::encode(k, a, &mut kb);
                out.push((format!("{path}{{{}}}", short(&kb)), format!("{class}{{}}"), Slot::Val(leaf(t, b))));
            }
        }
        (S::Opt(t), V::Opt(x)) => match x {
            None => out.push((path.to_string(), class.to_string(), Slot::Absent)),
            Some(x) => out.push((path.to_string(), class.to_string(), Slot::Val(leaf(t, x)))),
        },
        _ => out.push((path.to_string(), class.to_string(), Slot::Val(leaf(s, v)))),
    }
}

fn slots_of(l: &V) -> BTreeMap<String, (String, Slot)> {
    let mut v = vec![];
    flatten(&s_pczt(Form::Logical), l, "", "", &mut v);
    v.into_iter().map(|(p, c, s)| (p, (c, s))).collect()
}


// =================================================================================================
// bases: real PCZTs built exactly as pczt/tests/end_to_end.rs does
// =================================================================================================

use zcash_transparent::address::TransparentAddress;
use zcash_transparent::bundle as tbundle;
use zcash_primitives::transaction::{
    builder::{BuildConfig, Builder, BundlePadding, PcztResult},
    fees::zip317,
};
use zcash_protocol::{consensus::BlockHeight, local_consensus::LocalNetwork, memo::MemoBytes, value::Zatoshis};

fn network(nu6_3: bool) -> LocalNetwork {
    LocalNetwork {
        overwinter: Some(BlockHeight::from_u32(1)),
        sapling: Some(BlockHeight::from_u32(2)),
        blossom: Some(BlockHeight::from_u32(3)),
        heartwood: Some(BlockHeight::from_u32(4)),
        canopy: Some(BlockHeight::from_u32(5)),
        nu5: Some(BlockHeight::from_u32(6)),
        nu6: Some(BlockHeight::from_u32(7)),
        nu6_1: Some(BlockHeight::from_u32(8)),
        nu6_2: Some(BlockHeight::from_u32(9)),
        nu6_3: if nu6_3 { Some(BlockHeight::from_u32(10)) } else { None },
    }
}

fn tkey(i: u8) -> (secp256k1::SecretKey, secp256k1::PublicKey, TransparentAddress) {
    let secp = secp256k1::Secp256k1::signing_only();
    let sk = secp256k1::SecretKey::from_slice(&[0x40 + i; 32]).expect("valid key");
    let pk = sk.public_key(&secp);
    (sk, pk, TransparentAddress::from_pubkey(&pk))
}

struct Base {
    name: &'static str,
    /// the Creator's output
    pre: Pczt,
    /// io-finalised PCZT
    pczt: Pczt,
    /// v6: the real Orchard anchor, and the spend's action index and witness, installed at proving time
    deferred: Option<(orchard::Anchor, usize, orchard::tree::MerklePath)>,
    /// transparent spending keys by input index
    tkeys: Vec<secp256k1::SecretKey>,
    orchard_ask: Option<(usize, orchard::keys::SpendAuthorizingKey)>,
    ironwood_ask: Option<(usize, orchard::keys::SpendAuthorizingKey)>,
    sapling_ask: Option<(usize, sapling::keys::SpendAuthorizingKey)>,
}

fn standard_cfg(s: Option<sapling::Anchor>, o: Option<orchard::Anchor>, i: Option<orchard::Anchor>) -> BuildConfig {
    BuildConfig::Standard {
        sapling_anchor: s,
        orchard_anchor: o,
        ironwood_anchor: i,
        orchard_padding: BundlePadding::DEFAULT,
        ironwood_padding: BundlePadding::DEFAULT,
    }
}

/// 3 P2PKH inputs (three different keys) -> 3 P2PKH outputs, v5. No proofs needed: extractable.
fn base_transparent(seed: u64) -> Base {
    let mut builder = Builder::new(network(false), 10_000_000.into(), standard_cfg(None, None, None));
    let mut tkeys = vec![];
    for i in 0..3u8 {
        let (sk, pk, addr) = tkey(i);
        let utxo = tbundle::OutPoint::new([0x10 + i; 32], i as u32);
        let coin = tbundle::TxOut::new(Zatoshis::const_from_u64(1_000_000), addr.script().into());
        builder.add_transparent_p2pkh_input(pk, utxo, coin).expect("input");
        tkeys.push(sk);
    }
    for (i, v) in [(3u8, 1_500_000u64), (4, 1_000_000), (5, 485_000)] {
        builder.add_transparent_output(&tkey(i).2, Zatoshis::const_from_u64(v)).expect("output");
    }
    let PcztResult { pczt_parts, .. } =
        builder.build_for_pczt(ChaCha20Rng::seed_from_u64(seed), &zip317::FeeRule::standard()).expect("build_for_pczt");
    let pre = Creator::build_from_parts(pczt_parts).expect("creator");
    let pczt = IoFinalizer::new(pre.clone()).finalize_io().expect("io finalizer");
    Base { name: "transparent", pre, pczt, tkeys, orchard_ask: None, ironwood_ask: None, sapling_ask: None, deferred: None }
}

/// 2 P2PKH inputs -> 2 Orchard outputs, v5 (pczt/tests/end_to_end.rs::transparent_to_orchard).
fn base_t2o(seed: u64) -> Base {
    base_t2o_memo(seed, 5)
}

/// `memo_kind`: the outputs' memo (see `stripped_memo`; 5 = the ordinary empty memo)
fn base_t2o_memo(seed: u64, memo_kind: usize) -> Base {
    let memo = || MemoBytes::from_bytes(&full_memo(memo_kind)).expect("512 bytes");
    let orchard_sk = orchard::keys::SpendingKey::from_bytes([0; 32]).unwrap();
    let fvk = orchard::keys::FullViewingKey::from(&orchard_sk);
    let mut builder =
        Builder::new(network(false), 10_000_000.into(), standard_cfg(None, Some(orchard::Anchor::empty_tree()), None));
    let mut tkeys = vec![];
    for i in 0..2u8 {
        let (sk, pk, addr) = tkey(i);
        let utxo = tbundle::OutPoint::new([0x20 + i; 32], i as u32);
        let coin = tbundle::TxOut::new(Zatoshis::const_from_u64(1_000_000), addr.script().into());
        builder.add_transparent_p2pkh_input(pk, utxo, coin).expect("input");
        tkeys.push(sk);
    }
    builder
        .add_orchard_output::<zip317::FeeRule>(
            Some(fvk.to_ovk(orchard::keys::Scope::External)),
            fvk.address_at(0u32, orchard::keys::Scope::External),
            Zatoshis::const_from_u64(100_000),
            memo(),
        )
        .expect("orchard output");
    builder
        .add_orchard_output::<zip317::FeeRule>(
            Some(fvk.to_ovk(orchard::keys::Scope::Internal)),
            fvk.address_at(0u32, orchard::keys::Scope::Internal),
            Zatoshis::const_from_u64(1_880_000),
            memo(),
        )
        .expect("orchard change");
    let PcztResult { pczt_parts, .. } =
        builder.build_for_pczt(ChaCha20Rng::seed_from_u64(seed), &zip317::FeeRule::standard()).expect("build_for_pczt");
    let pre = Creator::build_from_parts(pczt_parts).expect("creator");
    let pczt = IoFinalizer::new(pre.clone()).finalize_io().expect("io finalizer");
    Base { name: "t2o", pre, pczt, tkeys, orchard_ask: None, ironwood_ask: None, sapling_ask: None, deferred: None }
}


// =================================================================================================
// targets: the concrete slots of a logical PCZT value, derived from the schema
// =================================================================================================

#[derive(Clone, Copy, Debug, PartialEq, Eq)]
enum Step {
    F(usize),
    I(usize),
}

fn at<'a>(v: &'a V, p: &[Step]) -> &'a V {
    let mut v = v;
    for st in p {
        v = match (st, v) {
            (Step::F(i), V::Rec(xs)) => &xs[*i],
            (Step::I(i), V::Seq(xs)) => &xs[*i],
            _ => panic!("bad path"),
        };
    }
    v
}
fn at_mut<'a>(v: &'a mut V, p: &[Step]) -> &'a mut V {
    let mut v = v;
    for st in p {
        v = match (st, v) {
            (Step::F(i), V::Rec(xs)) => &mut xs[*i],
            (Step::I(i), V::Seq(xs)) => &mut xs[*i],
            _ => panic!("bad path"),
        };
    }
    v
}

#[derive(Clone, Debug)]
enum Kind {
    /// an `Option` field
    Opt,
    /// one entry (with a key of the harness's choosing) of a map field
    Entry(V, S),
    /// a field every copy must agree on
    Eq,
}

#[derive(Clone, Debug)]
struct Target {
    name: String,
    class: String,
    path: Vec<Step>,
    kind: Kind,
    /// schema of the value (for `Opt`: of the inner value; for `Entry`: of the map value)
    schema: S,
}

fn gen_value(s: &S, tag: u8) -> V {
    match s {
        S::U8 => V::U(tag as u64),
        S::U32 | S::U64 => V::U(1000 + tag as u64),
        S::I128 => V::I(-(tag as i128)),
        S::Bool => V::U((tag & 1) as u64),
        S::Fixed(n) => V::B(vec![0x50 + tag; *n]),
        S::Var => V::B(vec![0x60 + tag; 3]),
        S::Opt(t) => some(gen_value(t, tag)),
        S::Seq(t) => V::Seq(vec![gen_value(t, tag)]),
        S::Map(k, t) => V::Map(vec![(gen_value(k, tag), gen_value(t, tag))]),
        S::Rec(fs) => V::Rec(fs.iter().map(|(_, t)| gen_value(t, tag)).collect()),
        S::Enum(vs) => V::Enum(0, Box::new(gen_value(&vs[0].1, tag))),
    }
}

const MAX_MONEY: u64 = 21_000_000 * 100_000_000;
/// beyond the two-byte length prefix of the encoding (2^14)
const LARGE: usize = 16_500;

/// Boundary values of the variable-length and numeric wire types. `variant` 1: the small end (empty
/// strings / lists, 0 against 1-element / 1); `variant` 2: the large end (type maxima, MAX_MONEY,
/// lengths that need a 2- and a 3-byte length prefix). `tag` 1 / 2 selects one of two different values
/// of the family. Fixed-size arrays have no boundary (and an all-zero anchor is the documented
/// stand-in for "absent"), so they keep their ordinary values. Strings stay ASCII.
fn gen_boundary(s: &S, tag: u8, variant: usize) -> V {
    let small = variant == 1;
    let first = tag == 1;
    match s {
        S::U8 | S::Bool | S::Fixed(_) => gen_value(s, tag),
        S::U32 => V::U(match (small, first) {
            (true, true) => 0,
            (true, false) => 1,
            (false, true) => u32::MAX as u64,
            (false, false) => u32::MAX as u64 - 1,
        }),
        S::U64 => V::U(match (small, first) {
            (true, true) => 0,
            (true, false) => 1,
            (false, true) => u64::MAX,
            (false, false) => MAX_MONEY,
        }),
        S::I128 => V::I(match (small, first) {
            (true, true) => 0,
            (true, false) => -1,
            (false, true) => i128::MAX,
            (false, false) => i128::MIN,
        }),
        S::Var => V::B(match (small, first) {
            (true, true) => vec![],
            (true, false) => vec![b'a'],
            (false, true) => vec![b'b'; 200],
            (false, false) => vec![b'c'; LARGE],
        }),
        S::Seq(t) => V::Seq(match (small, first) {
            (true, true) => vec![],
            (true, false) => vec![gen_boundary(t, 1, variant)],
            (false, true) => (0..130).map(|i| gen_boundary(t, 1 + (i % 2) as u8, variant)).collect(),
            (false, false) => (0..127).map(|i| gen_boundary(t, 1 + (i % 2) as u8, variant)).collect(),
        }),
        S::Opt(t) => some(gen_boundary(t, tag, variant)),
        S::Map(k, t) => V::Map(vec![(gen_value(k, tag), gen_boundary(t, tag, variant))]),
        S::Rec(fs) => V::Rec(fs.iter().map(|(_, t)| gen_boundary(t, tag, variant)).collect()),
        S::Enum(vs) => V::Enum(0, Box::new(gen_boundary(&vs[0].1, tag, variant))),
    }
}

fn has_boundary(s: &S) -> bool {
    match s {
        S::U8 | S::Bool | S::Fixed(_) => false,
        S::U32 | S::U64 | S::I128 | S::Var | S::Seq(_) => true,
        S::Opt(t) => has_boundary(t),
        S::Map(_, t) => has_boundary(t),
        S::Rec(fs) => fs.iter().any(|(_, t)| has_boundary(t)),
        S::Enum(vs) => vs.iter().any(|(_, t)| has_boundary(t)),
    }
}

/// A memo (512 bytes) with its trailing zero bytes stripped, by kind:
/// 0 all-zero memo (strips to nothing), 1 one byte, 2 511 bytes, 3 the full 512 bytes,
/// 4 only the last byte set (512 bytes, zeros inside), 5 the empty-memo marker 0xF6.
fn stripped_memo(kind: usize) -> Vec<u8> {
    let full = |n: usize| (0..n).map(|i| if i == 0 { 0xFF } else { (i % 251) as u8 + 1 }).collect::<Vec<u8>>();
    match kind {
        0 => vec![],
        1 => vec![0x41],
        2 => full(511),
        3 => full(512),
        4 => {
            let mut m = vec![0u8; 512];
            m[511] = 1;
            m
        }
        _ => vec![0xF6],
    }
}
const MEMO_KINDS: usize = 6;

fn full_memo(kind: usize) -> [u8; 512] {
    let mut m = [0u8; 512];
    let s = stripped_memo(kind);
    m[..s.len()].copy_from_slice(&s);
    m
}

fn is_orchard_enc(t: &Target) -> bool {
    matches!(t.schema, S::Enum(_)) && t.name.ends_with("output.enc_ciphertext")
}

/// Number of boundary variants of an agreed-on slot (besides the ordinary perturbation, variant 0).
fn eq_variants(t: &Target) -> usize {
    if is_orchard_enc(t) {
        MEMO_KINDS + 1
    } else if has_boundary(&t.schema) {
        2
    } else {
        0
    }
}

/// The "other" value (abstract 2) of an agreed-on slot under a boundary variant.
fn eq_boundary(t: &Target, base: &V, variant: usize) -> V {
    let v = if is_orchard_enc(t) {
        if variant <= MEMO_KINDS {
            // the memo plaintext form (v2 only), at the length boundaries
            V::Enum(1, Box::new(V::B(stripped_memo(variant - 1))))
        } else {
            V::Enum(0, Box::new(V::B(vec![]))) // an empty ciphertext
        }
    } else {
        gen_boundary(&t.schema, 1, variant)
    };
    if v == *base { gen_boundary(&t.schema, 2, variant.min(2)) } else { v }
}

fn perturb(s: &S, v: &V) -> V {
    match (s, v) {
        (S::U8, V::U(x)) => V::U(x ^ 1),
        (S::Bool, V::U(x)) => V::U(x ^ 1),
        (S::U32, V::U(x)) | (S::U64, V::U(x)) => V::U(x ^ 1),
        (S::I128, V::I(x)) => V::I(x + 1),
        (S::Fixed(_), V::B(b)) => {
            let mut b = b.clone();
            b[0] ^= 1;
            V::B(b)
        }
        (S::Var, V::B(b)) => {
            let mut b = b.clone();
            if b.is_empty() {
                b.push(1)
            } else {
                let n = b.len() - 1;
                b[n] ^= 1;
                if b[n] == 0 {
                    b[n] = 3 // keep a stripped memo plaintext stripped
                }
            }
            V::B(b)
        }
        (S::Rec(fs), V::Rec(xs)) if !fs.is_empty() => {
            let mut xs = xs.clone();
            xs[0] = perturb(&fs[0].1, &xs[0]);
            V::Rec(xs)
        }
        (S::Enum(vs), V::Enum(d, x)) => match &vs[*d as usize].1 {
            S::Rec(f) if f.is_empty() => V::Enum((*d + 1) % vs.len() as u32, Box::new(V::Rec(vec![]))),
            t => V::Enum(*d, Box::new(perturb(t, x))),
        },
        _ => panic!("cannot perturb {s:?}"),
    }
}

fn synthetic_key(k: &S, which: u8) -> V {
    match k {
        S::Fixed(n) => V::B(vec![0xA0 + which; *n]),
        S::Var => V::B(format!("verif.key{which}").into_bytes()),
        _ => panic!("unexpected map key schema"),
    }
}

/// Walks the logical value and lists its slots. `flat` = optional fields and map entries;
/// `eq` = everything every copy must agree on.
fn catalogue(l: &V) -> (Vec<Target>, Vec<Target>) {
    fn walk(s: &S, v: &V, path: &mut Vec<Step>, name: &str, class: &str, flat: &mut Vec<Target>, eq: &mut Vec<Target>) {
        match (s, v) {
            (S::Rec(fs), V::Rec(xs)) if !fs.is_empty() => {
                for (i, ((n, t), x)) in fs.iter().zip(xs).enumerate() {
                    path.push(Step::F(i));
                    let nm = if name.is_empty() { n.to_string() } else { format!("{name}.{n}") };
                    let cl = if class.is_empty() { n.to_string() } else { format!("{class}.{n}") };
                    walk(t, x, path, &nm, &cl, flat, eq);
                    path.pop();
                }
            }
            (S::Seq(t), V::Seq(xs)) => {
                for (i, x) in xs.iter().enumerate() {
                    path.push(Step::I(i));
                    walk(t, x, path, &format!("{name}[{i}]"), &format!("{class}[]"), flat, eq);
                    path.pop();
                }
            }
            (S::Map(k, t), V::Map(_)) => {
                for which in 0..2u8 {
                    flat.push(Target {
                        name: format!("{name}{{key{which}}}"),
                        class: format!("{class}{{}}"),
                        path: path.clone(),
                        kind: Kind::Entry(synthetic_key(k, which), (**k).clone()),
                        schema: (**t).clone(),
                    });
                }
            }
            (S::Opt(t), V::Opt(_)) => flat.push(Target {
                name: name.to_string(),
                class: class.to_string(),
                path: path.clone(),
                kind: Kind::Opt,
                schema: (**t).clone(),
            }),
            _ => eq.push(Target {
                name: name.to_string(),
                class: class.to_string(),
                path: path.clone(),
                kind: Kind::Eq,
                schema: s.clone(),
            }),
        }
    }
    let (mut flat, mut eq) = (vec![], vec![]);
    walk(&s_pczt(Form::Logical), l, &mut vec![], "", "", &mut flat, &mut eq);
    // specials handled by their own lattice components
    flat.retain(|t| t.name != "global.fallback_lock_time");
    eq.retain(|t| t.name != "global.tx_modifiable");
    // a bundle's value sum is only compared once the bundle is IO-finalised (bsk present)
    let sl = s_pczt(Form::Logical);
    for (b, sch) in [("sapling", s_sapling(true)), ("orchard", s_orchard(Form::Logical)), ("ironwood", s_orchard(Form::Logical))] {
        if l.field(&sl, b).field(&sch, "bsk").opt().is_none() {
            eq.retain(|t| !t.name.starts_with(&format!("{b}.value_sum")));
        }
    }
    (flat, eq)
}

fn map_key_bytes(k: &S, v: &V) -> Vec<u8> {
    // BTreeMap order of the key types in use ([u8; N] and String) is the order of the raw bytes
    let _ = k;
    v.bytes().to_vec()
}

/// Reads a flat slot.
fn read_flat(l: &V, t: &Target) -> Option<V> {
    match &t.kind {
        Kind::Opt => at(l, &t.path).opt().cloned(),
        Kind::Entry(key, _) => match at(l, &t.path) {
            V::Map(xs) => xs.iter().find(|(k, _)| k == key).map(|(_, v)| v.clone()),
            _ => panic!("not a map"),
        },
        Kind::Eq => panic!("not flat"),
    }
}

fn write_flat(l: &mut V, t: &Target, val: Option<V>) {
    match &t.kind {
        Kind::Opt => *at_mut(l, &t.path) = V::Opt(val.map(Box::new)),
        Kind::Entry(key, ks) => match at_mut(l, &t.path) {
            V::Map(xs) => {
                xs.retain(|(k, _)| k != key);
                if let Some(v) = val {
                    xs.push((key.clone(), v));
                    xs.sort_by(|a, b| map_key_bytes(ks, &a.0).cmp(&map_key_bytes(ks, &b.0)));
                }
            }
            _ => panic!("not a map"),
        },
        Kind::Eq => panic!("not flat"),
    }
}

/// The concrete value of abstract value `abs` (1 or 2) of flat slot `t`: 1 is the value the base
/// carries (or a first synthetic one), 2 a different one.
fn flat_value(base: &V, t: &Target, abs: u64, variant: usize) -> Option<V> {
    if variant > 0 && abs > 0 {
        // boundary family: two different values, whatever the base carries
        return Some(gen_boundary(&t.schema, abs as u8, variant));
    }
    match abs {
        0 => None,
        1 => Some(read_flat(base, t).unwrap_or_else(|| gen_value(&t.schema, 1))),
        2 => {
            let one = flat_value(base, t, 1, 0).unwrap();
            let two = gen_value(&t.schema, 2);
            Some(if two == one { gen_value(&t.schema, 3) } else { two })
        }
        _ => panic!("abstract value out of range"),
    }
}

fn write_eq(l: &mut V, base: &V, t: &Target, abs: u64, variant: usize) {
    let b = at(base, &t.path).clone();
    *at_mut(l, &t.path) = if abs == 1 {
        b
    } else if variant == 0 {
        perturb(&t.schema, &b)
    } else {
        eq_boundary(t, &b, variant)
    };
}

// =================================================================================================
// merge: executing TLC-enumerated cases on Combiner::combine
// =================================================================================================

#[derive(Clone, Default)]
struct Binding {
    opt: BTreeMap<String, Target>,
    eq: BTreeMap<String, Target>,
    /// 0: ordinary slot values; 1, 2, ..: boundary values (gen_boundary / eq_boundary)
    variant: usize,
}

impl Binding {
    fn describe(&self) -> J {
        json!({
            "opt": self.opt.iter().map(|(k, t)| (k.clone(), J::String(t.name.clone()))).collect::<serde_json::Map<_, _>>(),
            "eq": self.eq.iter().map(|(k, t)| (k.clone(), J::String(t.name.clone()))).collect::<serde_json::Map<_, _>>(),
            "variant": self.variant,
        })
    }
}

fn jmap(v: &J) -> Vec<(String, u64)> {
    match v {
        J::Object(m) => m.iter().map(|(k, x)| (k.clone(), x.as_u64().expect("int"))).collect(),
        J::Array(a) if a.is_empty() => vec![],
        _ => panic!("unexpected abstract function {v}"),
    }
}

fn truncate_list(l: &mut V, path: &[Step], abs: u64) {
    // abstract length 2 = the whole list, 1 = one item fewer
    if let V::Seq(xs) = at_mut(l, path) {
        let n = xs.len().saturating_sub((2 - abs) as usize);
        xs.truncate(n);
    } else {
        panic!("not a list")
    }
}

const P_TIN: [Step; 2] = [Step::F(1), Step::F(0)];
const P_TOUT: [Step; 2] = [Step::F(1), Step::F(1)];
const P_ACT: [Step; 2] = [Step::F(3), Step::F(0)];
const P_OVS: [Step; 2] = [Step::F(3), Step::F(2)];
const P_OBSK: [Step; 2] = [Step::F(3), Step::F(6)];
const P_FLAGS: [Step; 2] = [Step::F(0), Step::F(6)];
const P_LOCK: [Step; 2] = [Step::F(0), Step::F(3)];

/// Builds the concrete logical value of one abstract party (or of the predicted result).
/// `lists` = the case kind varies list lengths / bsk (otherwise those components keep the base's).
fn realise(base: &V, party: &J, b: &Binding, lists: bool, dummy_item: bool) -> V {
    let mut l = base.clone();
    for (slot, abs) in jmap(&party["opt"]) {
        let t = &b.opt[&slot];
        let v = flat_value(base, t, abs, b.variant);
        write_flat(&mut l, t, v);
    }
    for (slot, abs) in jmap(&party["eq"]) {
        let t = &b.eq[&slot];
        write_eq(&mut l, base, t, abs, b.variant);
    }
    let lock = party["lock"].as_u64().unwrap();
    if lock != 1 {
        *at_mut(&mut l, &P_LOCK) = if lock == 0 { none() } else { some(V::U(77_000)) };
    }
    *at_mut(&mut l, &P_FLAGS) = V::U(party["flags"].as_u64().unwrap());
    if lists {
        truncate_list(&mut l, &P_TIN, party["tin"].as_u64().unwrap());
        truncate_list(&mut l, &P_TOUT, party["tout"].as_u64().unwrap());
        let act = party["act"].as_u64().unwrap();
        truncate_list(&mut l, &P_ACT, act);
        if act != 2 && !dummy_item {
            // a shorter item list is an earlier stage with another value sum -- unless the item that
            // came later is a zero-valued dummy (`dummy_item`)
            *at_mut(&mut l, &P_OVS) = V::Rec(vec![V::U(12_345), V::U(0)]);
        }
        match party["bsk"].as_u64().unwrap() {
            0 => *at_mut(&mut l, &P_OBSK) = none(),
            1 => {
                if at(base, &P_OBSK).opt().is_none() {
                    *at_mut(&mut l, &P_OBSK) = some(V::B(vec![0x51; 32]))
                }
            }
            _ => *at_mut(&mut l, &P_OBSK) = some(V::B(vec![0x52; 32])),
        }
    }
    l
}

fn party_bytes(l: &V, alt: bool) -> Vec<u8> {
    // parties arrive in either encoding and with or without the elision of empty bundles; a value
    // the canonical encoding normalises (an absent Sapling anchor in v1) travels in the exact form
    if alt || normalised(l) != *l { encode_pczt(l, 2, false) } else { canonical_bytes(l) }
}

fn diff_slots(want: &V, got: &V) -> Vec<String> {
    let (a, b) = (slots_of(want), slots_of(got));
    let mut out = vec![];
    for k in a.keys().chain(b.keys()).collect::<BTreeSet<_>>() {
        let (x, y) = (a.get(k).map(|s| &s.1), b.get(k).map(|s| &s.1));
        if x != y {
            out.push(format!("{k}: expected {x:?} got {y:?}"));
        }
    }
    out
}

#[derive(Default)]
struct MergeStats {
    cases: usize,
    combines: usize,
    conflicts_predicted: usize,
    joins_predicted: usize,
    results: BTreeSet<[u8; 16]>,
    v1: usize,
    v2: usize,
    /// groupings predicted to be refused although another grouping of the same copies succeeds
    refused_groupings: usize,
}

fn digest16(b: &[u8]) -> [u8; 16] {
    blake2b_simd::Params::new().hash_length(16).hash(b).as_bytes().try_into().unwrap()
}

fn combine2(a: Pczt, b: Pczt) -> Result<Option<Pczt>, String> {
    guarded(|| Combiner::new(vec![a, b]).combine().ok())
}

/// Runs one case under one binding. Returns a description of the first disagreement.
fn run_case(base_l: &V, case: &J, b: &Binding, trees: &[Vec<u64>], alt_seed: usize, st: &mut MergeStats) -> Option<J> {
    let (parties, want) = match synthetic_parties(base_l, case, b, alt_seed, st) {
        Ok(x) => x,
        Err(m) => return Some(m),
    };
    execute_trees(&parties, &want, trees, st)
}

fn synthetic_parties(base_l: &V, case: &J, b: &Binding, alt_seed: usize, st: &mut MergeStats) -> Result<(Vec<Pczt>, Option<(V, Vec<u8>)>), J> {
    let lists = case["k"].as_str().unwrap().starts_with("lists");
    let ps = case["ps"].as_array().unwrap();
    let mut parties = vec![];
    for (i, p) in ps.iter().enumerate() {
        let l = realise(base_l, p, b, lists, alt_seed % 2 == 1);
        let bytes = party_bytes(&l, (alt_seed + i) % 3 == 0);
        match guarded(|| Pczt::parse(&bytes)) {
            Ok(Ok(p)) => parties.push(p),
            Ok(Err(e)) => {
                return Err(json!({"what": "parse rejected a well-formed encoding", "party": i, "error": format!("{e:?}"), "bytes": hex(&bytes)}));
            }
            Err(m) => return Err(json!({"what": "parse panicked", "party": i, "panic": m})),
        }
    }
    let want_ok = case["out"]["ok"].as_bool().unwrap();
    let want = if want_ok {
        let l = realise(base_l, &case["out"]["v"], b, lists, alt_seed % 2 == 1);
        let bytes = canonical_bytes(&l);
        st.joins_predicted += 1;
        st.results.insert(digest16(&bytes));
        if bytes[4] == 1 { st.v1 += 1 } else { st.v2 += 1 }
        Some((l, bytes))
    } else {
        st.conflicts_predicted += 1;
        None
    };
    st.cases += 1;
    Ok((parties, want))
}

/// Executes every grouping and order of the parties (plus the n-ary fold) and compares each outcome
/// with the predicted one. Returns a description of the first disagreement.
fn execute_trees(parties: &[Pczt], want: &Option<(V, Vec<u8>)>, trees: &[Vec<u64>], st: &mut MergeStats) -> Option<J> {
    execute_trees_with(parties, want, trees, st, &|_| want.is_none())
}

/// The n-ary `Combiner::new(vec![p1, .., pn])` is the left fold in index order: <<1, 2, 0, 3, 0, ..>>.
fn fold_tree(n: usize) -> Vec<u64> {
    let mut t = vec![1u64];
    for i in 2..=n as u64 {
        t.push(i);
        t.push(0);
    }
    t
}

/// As `execute_trees`, with a prediction per grouping: `refused(tree)` says the specification predicts a
/// conflict for that grouping / order; every other grouping must give `want`.
fn execute_trees_with(parties: &[Pczt], want_any: &Option<(V, Vec<u8>)>, trees: &[Vec<u64>], st: &mut MergeStats, refused: &dyn Fn(&[u64]) -> bool) -> Option<J> {
    let n = parties.len();
    let nothing: Option<(V, Vec<u8>)> = None;
    let fold = fold_tree(n);
    // every grouping and order, plus the n-ary left fold in index order
    let mut all: Vec<Vec<u64>> = trees.to_vec();
    all.push(vec![]);
    for t in &all {
        let got: Result<Option<Pczt>, String> = if t.is_empty() {
            st.combines += n - 1;
            let v = parties.to_vec();
            guarded(|| Combiner::new(v).combine().ok())
        } else {
            let mut stack: Vec<Option<Pczt>> = vec![];
            let mut err = None;
            for &x in t {
                if x == 0 {
                    let r = stack.pop().unwrap();
                    let l = stack.pop().unwrap();
                    match (l, r) {
                        (Some(l), Some(r)) => {
                            st.combines += 1;
                            match combine2(l, r) {
                                Ok(v) => stack.push(v),
                                Err(m) => {
                                    err = Some(m);
                                    break;
                                }
                            }
                        }
                        _ => stack.push(None),
                    }
                } else {
                    stack.push(Some(parties[x as usize - 1].clone()));
                }
            }
            match err {
                Some(m) => Err(m),
                None => Ok(stack.pop().unwrap()),
            }
        };
        let tree = if t.is_empty() { json!("fold") } else { json!(t) };
        let want = if refused(if t.is_empty() { &fold } else { t }) { &nothing } else { want_any };
        if !t.is_empty() && want.is_none() && want_any.is_some() {
            st.refused_groupings += 1;
        }
        match (got, want) {
            (Err(m), _) => return Some(json!({"what": "combine panicked", "tree": tree, "panic": m})),
            (Ok(None), None) => {}
            (Ok(None), Some(_)) => {
                return Some(json!({"what": "combine reported a conflict; the specification predicts the join", "tree": tree}));
            }
            (Ok(Some(p)), None) => {
                let bytes = p.serialize().map(|b| hex(&b)).unwrap_or_default();
                return Some(json!({"what": "combine succeeded; the specification predicts a conflict", "tree": tree, "got": bytes}));
            }
            (Ok(Some(p)), Some((l, bytes))) => match guarded(|| p.serialize()) {
                Ok(Ok(got)) => {
                    if t.is_empty() && got == *bytes {
                        // the combined PCZT parses back and re-serialises identically
                        match guarded(|| Pczt::parse(&got).map(|q| q.serialize())) {
                            Ok(Ok(Ok(again))) if again == got => {}
                            other => {
                                return Some(json!({"what": "the combined PCZT does not survive serialise / parse", "tree": tree,
                                                   "got": format!("{:?}", other.map(|r| r.map(|x| x.map(|b| b.len()))))}));
                            }
                        }
                    }
                    if got != *bytes {
                        let d = match decode_pczt(&got) {
                            Ok((ver, g)) => {
                                let mut d = diff_slots(&normalised(l), &g);
                                if ver != bytes[4] as u32 {
                                    d.insert(0, format!("encoding version: expected {} got {ver}", bytes[4]));
                                }
                                if d.is_empty() {
                                    d.push("same slots, different bytes (non-canonical encoding)".into());
                                }
                                d
                            }
                            Err(e) => vec![format!("result does not decode: {e}")],
                        };
                        return Some(json!({"what": "combined PCZT differs from the predicted join", "tree": tree, "diff": d.into_iter().take(8).collect::<Vec<_>>()}));
                    }
                }
                Ok(Err(e)) => return Some(json!({"what": "serialize failed", "tree": tree, "error": format!("{e:?}")})),
                Err(m) => return Some(json!({"what": "serialize panicked", "tree": tree, "panic": m})),
            },
        }
    }
    None
}



// ---- bases with a real shielded spend -----------------------------------------------------------

use orchard::tree::MerkleHashOrchard;
use shardtree::{ShardTree, store::memory::MemoryShardStore};
use zcash_note_encryption::try_note_decryption;
use zcash_primitives::transaction::builder::DeferredPcztBuilder;
use zcash_protocol::memo::Memo;

struct OrchardKeys {
    ask: orchard::keys::SpendAuthorizingKey,
    fvk: orchard::keys::FullViewingKey,
}

fn orchard_keys() -> OrchardKeys {
    let sk = orchard::keys::SpendingKey::from_bytes([0; 32]).unwrap();
    OrchardKeys { ask: orchard::keys::SpendAuthorizingKey::from(&sk), fvk: orchard::keys::FullViewingKey::from(&sk) }
}

/// A received Orchard-pool note of 1 000 000 zatoshis with the one-leaf tree that holds it.
fn orchard_note(k: &OrchardKeys, rng: &mut ChaCha20Rng) -> (orchard::Note, orchard::Anchor, orchard::tree::MerklePath) {
    let recipient = k.fvk.address_at(0u32, orchard::keys::Scope::External);
    let version = orchard::bundle::BundleVersion::orchard_v2();
    let mut b = orchard::builder::Builder::new(orchard::builder::BundleType::DEFAULT, version, version.default_flags(), orchard::Anchor::empty_tree())
        .unwrap();
    b.add_output(None, recipient, orchard::value::NoteValue::from_raw(1_000_000), Memo::Empty.encode().into_bytes()).unwrap();
    let (bundle, meta) = b.build::<i64>(&mut *rng).unwrap().unwrap();
    let action = bundle.actions().get(meta.output_action_index(0).unwrap()).unwrap();
    let domain = orchard::note_encryption::OrchardDomain::for_action(action);
    let (note, _, _) = try_note_decryption(&domain, &k.fvk.to_ivk(orchard::keys::Scope::External).prepare(), action).unwrap();
    let cmx: orchard::note::ExtractedNoteCommitment = note.commitment().into();
    let leaf = MerkleHashOrchard::from_cmx(&cmx);
    let mut tree = ShardTree::<_, 32, 16>::new(MemoryShardStore::<MerkleHashOrchard, u32>::empty(), 100);
    tree.append(leaf, incrementalmerkletree::Retention::Marked).unwrap();
    tree.checkpoint(9_999_999).unwrap();
    let path = tree.witness_at_checkpoint_depth(0.into(), 0).unwrap().unwrap();
    let anchor = path.root(leaf);
    (note, anchor.into(), path.into())
}

/// Orchard spend -> 2 Orchard outputs, v5 (pczt/tests/end_to_end.rs::orchard_to_orchard).
fn base_o2o(seed: u64) -> Base {
    base_o2o_memo(seed, 5)
}

/// `memo_kind`: the outputs' memo (see `stripped_memo`; 5 = the ordinary empty memo)
fn base_o2o_memo(seed: u64, memo_kind: usize) -> Base {
    let memo = || MemoBytes::from_bytes(&full_memo(memo_kind)).expect("512 bytes");
    let k = orchard_keys();
    let mut rng = ChaCha20Rng::seed_from_u64(seed ^ 0x0202);
    let (note, anchor, path) = orchard_note(&k, &mut rng);
    let mut builder = Builder::new(network(false), 10_000_000.into(), standard_cfg(None, Some(anchor), None));
    builder.add_orchard_spend::<zip317::FeeRule>(k.fvk.clone(), note, path).expect("orchard spend");
    builder
        .add_orchard_output::<zip317::FeeRule>(
            Some(k.fvk.to_ovk(orchard::keys::Scope::External)),
            k.fvk.address_at(0u32, orchard::keys::Scope::External),
            Zatoshis::const_from_u64(100_000),
            memo(),
        )
        .expect("output");
    builder
        .add_orchard_output::<zip317::FeeRule>(
            Some(k.fvk.to_ovk(orchard::keys::Scope::Internal)),
            k.fvk.address_at(0u32, orchard::keys::Scope::Internal),
            Zatoshis::const_from_u64(890_000),
            memo(),
        )
        .expect("change");
    let PcztResult { pczt_parts, orchard_meta, .. } = builder.build_for_pczt(rng, &zip317::FeeRule::standard()).expect("build_for_pczt");
    let idx = orchard_meta.spend_action_index(0).unwrap();
    let pre = Creator::build_from_parts(pczt_parts).expect("creator");
    let pczt = IoFinalizer::new(pre.clone()).finalize_io().expect("io finalizer");
    Base { name: "o2o", pre, pczt, tkeys: vec![], orchard_ask: Some((idx, k.ask)), ironwood_ask: None, sapling_ask: None, deferred: None }
}

/// Orchard spend -> Ironwood output, v6, anchors and the spend witness deferred to proving time
/// (pczt/tests/end_to_end.rs::builder_can_defer_anchors_until_proving).
fn base_o2i(seed: u64) -> Base {
    base_o2i_memo(seed, 5)
}

/// `memo_kind`: the outputs' memo (see `stripped_memo`; 5 = the ordinary empty memo)
fn base_o2i_memo(seed: u64, memo_kind: usize) -> Base {
    let memo = || MemoBytes::from_bytes(&full_memo(memo_kind)).expect("512 bytes");
    let k = orchard_keys();
    let mut rng = ChaCha20Rng::seed_from_u64(seed ^ 0x0606);
    let (note, anchor, path) = orchard_note(&k, &mut rng);
    let mut builder =
        DeferredPcztBuilder::new::<zip317::FeeRule>(network(true), 10_000_000.into(), BundlePadding::DEFAULT, BundlePadding::DEFAULT).expect("deferred builder");
    builder.add_orchard_spend::<zip317::FeeRule>(k.fvk.clone(), note).expect("orchard spend");
    builder
        .add_ironwood_output::<zip317::FeeRule>(
            Some(k.fvk.to_ovk(orchard::keys::Scope::External)),
            k.fvk.address_at(0u32, orchard::keys::Scope::External),
            Zatoshis::const_from_u64(980_000),
            memo(),
        )
        .expect("ironwood output");
    let PcztResult { pczt_parts, orchard_meta, .. } = builder.build_for_pczt(rng, &zip317::FeeRule::standard()).expect("build_for_pczt");
    let idx = orchard_meta.spend_action_index(0).unwrap();
    let pre = Creator::build_from_parts(pczt_parts).expect("creator");
    let pczt = IoFinalizer::new(pre.clone()).finalize_io().expect("io finalizer");
    Base {
        name: "o2i_v6",
        pre,
        pczt,
        tkeys: vec![],
        orchard_ask: Some((idx, k.ask)),
        ironwood_ask: None,
        sapling_ask: None,
        deferred: Some((anchor, idx, path)),
    }
}


/// Sapling spend -> 2 Sapling outputs, v5 (after pczt/tests/end_to_end.rs::sapling_to_orchard).
fn base_s2s(seed: u64) -> Base {
    let extsk = sapling::zip32::ExtendedSpendingKey::master(&[1; 32]);
    let dfvk = extsk.to_diversifiable_full_viewing_key();
    let internal = extsk.derive_internal().to_diversifiable_full_viewing_key();
    let recipient = dfvk.default_address().1;
    let note = sapling::Note::from_parts(recipient, sapling::value::NoteValue::from_raw(1_000_000), sapling::Rseed::AfterZip212([7; 32]));
    let leaf = sapling::Node::from_cmu(&note.cmu());
    let mut tree = ShardTree::<_, 32, 16>::new(MemoryShardStore::<sapling::Node, u32>::empty(), 100);
    tree.append(leaf, incrementalmerkletree::Retention::Marked).unwrap();
    tree.checkpoint(9_999_999).unwrap();
    let path = tree.witness_at_checkpoint_depth(0.into(), 0).unwrap().unwrap();
    let anchor: sapling::Anchor = path.root(leaf).into();
    let mut builder = Builder::new(network(false), 10_000_000.into(), standard_cfg(Some(anchor), None, None));
    builder.add_sapling_spend::<zip317::FeeRule>(dfvk.fvk().clone(), note, path).expect("sapling spend");
    builder
        .add_sapling_output::<zip317::FeeRule>(Some(dfvk.to_ovk(zip32::Scope::External)), recipient, Zatoshis::const_from_u64(100_000), MemoBytes::empty())
        .expect("sapling output");
    builder
        .add_sapling_output::<zip317::FeeRule>(
            Some(dfvk.to_ovk(zip32::Scope::Internal)),
            internal.find_address(0u32.into()).unwrap().1,
            Zatoshis::const_from_u64(890_000),
            MemoBytes::empty(),
        )
        .expect("sapling change");
    let PcztResult { pczt_parts, sapling_meta, .. } =
        builder.build_for_pczt(ChaCha20Rng::seed_from_u64(seed ^ 0x0505), &zip317::FeeRule::standard()).expect("build_for_pczt");
    let idx = sapling_meta.spend_index(0).unwrap();
    let pre = Creator::build_from_parts(pczt_parts).expect("creator");
    // the spend's proof generation key (needed by Signer and Prover) is the Updater's to add
    let pgk = extsk.expsk.proof_generation_key();
    let pre = Updater::new(pre)
        .update_sapling_with(|mut u| u.update_spend_with(idx, |mut s| s.set_proof_generation_key(pgk.clone())))
        .expect("updater")
        .finish();
    let pczt = IoFinalizer::new(pre.clone()).finalize_io().expect("io finalizer");
    Base { name: "s2s", pre, pczt, tkeys: vec![], orchard_ask: None, ironwood_ask: None, sapling_ask: Some((idx, extsk.expsk.ask)), deferred: None }
}


/// The documented acceptance boundary of the memo plaintext form (orchard.rs, `MemoPlaintext`:
/// "Returns an error if `bytes` is longer than MEMO_SIZE, or if it contains any trailing zero bytes"):
/// every stripped memo of 0..=512 bytes without a trailing zero parses, re-serialises to the same
/// bytes and is what the getter shows; 513 bytes or a trailing zero byte is refused.
fn codec_checks(base: &Base, base_l: &V) -> Vec<J> {
    let mut out = vec![];
    let (_, eq) = catalogue(base_l);
    for t in eq.iter().filter(|t| is_orchard_enc(t)) {
        let mut accept: Vec<(String, Vec<u8>)> = (0..MEMO_KINDS).map(|k| (format!("stripped memo kind {k}"), stripped_memo(k))).collect();
        for n in [2usize, 127, 128, 255, 256, 510] {
            accept.push((format!("stripped memo of {n} bytes"), (0..n).map(|i| (i % 251) as u8 + 1).collect()));
        }
        let reject: Vec<(String, Vec<u8>)> = vec![
            ("513 bytes".into(), vec![7u8; 513]),
            ("a trailing zero byte".into(), vec![7, 0]),
            ("a single zero byte".into(), vec![0]),
            ("512 bytes ending in zero".into(), {
                let mut m = vec![7u8; 512];
                m[511] = 0;
                m
            }),
        ];
        for (what, memo, want_ok) in accept.iter().map(|(w, m)| (w, m, true)).chain(reject.iter().map(|(w, m)| (w, m, false))) {
            let mut l = base_l.clone();
            *at_mut(&mut l, &t.path) = V::Enum(1, Box::new(V::B(memo.clone())));
            let bytes = encode_pczt(&l, 2, true);
            let got = guarded(|| Pczt::parse(&bytes));
            let problem = match (got, want_ok) {
                (Err(m), _) => Some(format!("parse panicked: {m}")),
                (Ok(Err(e)), true) => Some(format!("parse refuses a well-formed v2 encoding: {e:?}")),
                (Ok(Ok(_)), false) => Some("parse accepts a memo plaintext the encoding excludes".to_string()),
                (Ok(Err(_)), false) => None,
                (Ok(Ok(p)), true) => match guarded(|| p.serialize()) {
                    Ok(Ok(b)) if b == bytes => None,
                    Ok(Ok(b)) => Some(format!("re-serialisation differs ({} vs {} bytes)", b.len(), bytes.len())),
                    other => Some(format!("serialize failed: {:?}", other.map(|r| r.map(|b| b.len())))),
                },
            };
            if let Some(p) = problem {
                out.push(json!({"kind": "codec", "base": base.name, "slot": t.name, "memo": what, "memo_len": memo.len(), "what": p}));
            }
        }
    }
    out
}

// =================================================================================================
// growth: copies of a shielded bundle whose item lists are still growing (spec/Pczt/PcztGrowth.tla)
// =================================================================================================

/// 2 Sapling spends -> 2 Sapling outputs, v5 (built as `base_s2s`, with a two-leaf note commitment
/// tree). Both lists can be shortened independently, so every pair of lengths in (0..2) x (0..2)
/// is a stage of this transaction's construction.
fn base_s2s2(seed: u64) -> Base {
    let extsk = sapling::zip32::ExtendedSpendingKey::master(&[1; 32]);
    let dfvk = extsk.to_diversifiable_full_viewing_key();
    let internal = extsk.derive_internal().to_diversifiable_full_viewing_key();
    let recipient = dfvk.default_address().1;
    let notes = [
        sapling::Note::from_parts(recipient, sapling::value::NoteValue::from_raw(1_000_000), sapling::Rseed::AfterZip212([7; 32])),
        sapling::Note::from_parts(recipient, sapling::value::NoteValue::from_raw(640_000), sapling::Rseed::AfterZip212([8; 32])),
    ];
    let leaves: Vec<sapling::Node> = notes.iter().map(|n| sapling::Node::from_cmu(&n.cmu())).collect();
    let mut tree = ShardTree::<_, 32, 16>::new(MemoryShardStore::<sapling::Node, u32>::empty(), 100);
    for leaf in &leaves {
        tree.append(*leaf, incrementalmerkletree::Retention::Marked).unwrap();
    }
    tree.checkpoint(9_999_999).unwrap();
    let paths: Vec<_> = (0..2u64).map(|i| tree.witness_at_checkpoint_depth(i.into(), 0).unwrap().unwrap()).collect();
    let anchor: sapling::Anchor = paths[0].root(leaves[0]).into();
    let mut builder = Builder::new(network(false), 10_000_000.into(), standard_cfg(Some(anchor), None, None));
    for (note, path) in notes.iter().zip(paths) {
        builder.add_sapling_spend::<zip317::FeeRule>(dfvk.fvk().clone(), note.clone(), path).expect("sapling spend");
    }
    builder
        .add_sapling_output::<zip317::FeeRule>(Some(dfvk.to_ovk(zip32::Scope::External)), recipient, Zatoshis::const_from_u64(130_000), MemoBytes::empty())
        .expect("sapling output");
    builder
        .add_sapling_output::<zip317::FeeRule>(
            Some(dfvk.to_ovk(zip32::Scope::Internal)),
            internal.find_address(0u32.into()).unwrap().1,
            Zatoshis::const_from_u64(1_500_000),
            MemoBytes::empty(),
        )
        .expect("sapling change");
    let PcztResult { pczt_parts, .. } =
        builder.build_for_pczt(ChaCha20Rng::seed_from_u64(seed ^ 0x0522), &zip317::FeeRule::standard()).expect("build_for_pczt");
    let pre = Creator::build_from_parts(pczt_parts).expect("creator");
    let pczt = IoFinalizer::new(pre.clone()).finalize_io().expect("io finalizer");
    Base { name: "s2s2", pre, pczt, tkeys: vec![], orchard_ask: None, ironwood_ask: None, sapling_ask: None, deferred: None }
}

/// Sapling spend -> 1 Sapling output; the builder pads the bundle with a zero-valued dummy output, so two
/// stages of this bundle's construction have different lengths and the SAME value balance.
fn base_s2s_dummy(seed: u64) -> Base {
    let extsk = sapling::zip32::ExtendedSpendingKey::master(&[1; 32]);
    let dfvk = extsk.to_diversifiable_full_viewing_key();
    let recipient = dfvk.default_address().1;
    let note = sapling::Note::from_parts(recipient, sapling::value::NoteValue::from_raw(1_000_000), sapling::Rseed::AfterZip212([7; 32]));
    let leaf = sapling::Node::from_cmu(&note.cmu());
    let mut tree = ShardTree::<_, 32, 16>::new(MemoryShardStore::<sapling::Node, u32>::empty(), 100);
    tree.append(leaf, incrementalmerkletree::Retention::Marked).unwrap();
    tree.checkpoint(9_999_999).unwrap();
    let path = tree.witness_at_checkpoint_depth(0.into(), 0).unwrap().unwrap();
    let anchor: sapling::Anchor = path.root(leaf).into();
    let mut builder = Builder::new(network(false), 10_000_000.into(), standard_cfg(Some(anchor), None, None));
    builder.add_sapling_spend::<zip317::FeeRule>(dfvk.fvk().clone(), note, path).expect("sapling spend");
    builder
        .add_sapling_output::<zip317::FeeRule>(Some(dfvk.to_ovk(zip32::Scope::External)), recipient, Zatoshis::const_from_u64(990_000), MemoBytes::empty())
        .expect("sapling output");
    let PcztResult { pczt_parts, .. } =
        builder.build_for_pczt(ChaCha20Rng::seed_from_u64(seed ^ 0x0511), &zip317::FeeRule::standard()).expect("build_for_pczt");
    let pre = Creator::build_from_parts(pczt_parts).expect("creator");
    let pczt = IoFinalizer::new(pre.clone()).finalize_io().expect("io finalizer");
    Base { name: "s2s_dummy", pre, pczt, tkeys: vec![], orchard_ask: None, ironwood_ask: None, sapling_ask: None, deferred: None }
}

#[derive(Clone, Copy, PartialEq, Eq, Debug)]
enum GrowPool {
    Sapling,
    Orchard,
    Ironwood,
}

/// A real PCZT that has NOT been IO-finalised, seen as the last stage of a growing bundle: every
/// shorter stage is the same PCZT with the pool's item lists cut to a prefix and `value_sum` set to
/// the balance of the items that remain (computed here from the items' own `value` fields).
struct GrowBase {
    name: String,
    pool: GrowPool,
    l: V,
    /// Sapling: value of spend i / of output j.  Orchard, Ironwood: value spent / received by action i.
    spend_vals: Vec<u64>,
    out_vals: Vec<u64>,
    /// no two stages within the abstract grid share a value balance (the binding of VS is injective)
    injective: bool,
}

impl GrowBase {
    fn bundle(&self) -> usize {
        match self.pool {
            GrowPool::Sapling => 2,
            GrowPool::Orchard => 3,
            GrowPool::Ironwood => 4,
        }
    }
    /// how many items of the (first, second) list the base holds; Orchard has one list
    fn lens(&self) -> (usize, usize) {
        match self.pool {
            GrowPool::Sapling => (self.spend_vals.len(), self.out_vals.len()),
            _ => (self.spend_vals.len(), 0),
        }
    }
    /// The concrete value balance bound to the specification's VS(i, j).
    fn value_sum(&self, i: usize, j: usize) -> i128 {
        let sp = |k: usize| self.spend_vals[k] as i128;
        let out = |k: usize| self.out_vals[k] as i128;
        match self.pool {
            GrowPool::Sapling => (0..i).map(sp).sum::<i128>() - (0..j).map(out).sum::<i128>(),
            _ => (0..i).map(|k| sp(k) - out(k)).sum::<i128>(),
        }
    }
    fn value_sum_v(&self, i: usize, j: usize) -> V {
        let x = self.value_sum(i, j);
        match self.pool {
            GrowPool::Sapling => V::I(x),
            _ => V::Rec(vec![V::U(x.unsigned_abs() as u64), V::U((x < 0) as u64)]),
        }
    }

    fn new(base: &Base, pool: GrowPool) -> Option<GrowBase> {
        let mut l = logical_of(&base.pre);
        let sl = s_pczt(Form::Logical);
        let val = |v: &V| v.opt().unwrap_or_else(|| panic!("growth base {}: an item carries no value", base.name)).u();
        let (b, spend_vals, out_vals): (usize, Vec<u64>, Vec<u64>) = match pool {
            GrowPool::Sapling => {
                let sb = l.field(&sl, "sapling");
                let ss = s_sapling(true);
                (
                    2,
                    sb.field(&ss, "spends").seq().iter().map(|x| val(x.field(&s_sspend(), "value"))).collect(),
                    sb.field(&ss, "outputs").seq().iter().map(|x| val(x.field(&s_soutput(), "value"))).collect(),
                )
            }
            GrowPool::Orchard | GrowPool::Ironwood => {
                let ob = l.field(&sl, if pool == GrowPool::Orchard { "orchard" } else { "ironwood" });
                let sa = s_action(Form::Logical);
                let acts = ob.field(&s_orchard(Form::Logical), "actions").seq();
                (
                    if pool == GrowPool::Orchard { 3 } else { 4 },
                    acts.iter().map(|a| val(a.field(&sa, "spend").field(&s_ospend(Form::Logical), "value"))).collect(),
                    acts.iter().map(|a| val(a.field(&sa, "output").field(&s_ooutput(Form::Logical), "value"))).collect(),
                )
            }
        };
        if spend_vals.is_empty() && out_vals.is_empty() {
            return None;
        }
        // never IO-finalised: no bsk
        let bsk_field = if pool == GrowPool::Sapling { 4 } else { 6 };
        *at_mut(&mut l, &[Step::F(b), Step::F(bsk_field)]) = none();
        let mut g = GrowBase { name: format!("{}/{:?}", base.name, pool).to_lowercase(), pool, l, spend_vals, out_vals, injective: true };
        // the binding of VS is sound: the whole lists give the value balance the real builder wrote, and
        // no two stages within the abstract grid share a balance
        let (ns, no) = g.lens();
        let own = g.value_sum_v(ns, no);
        let real = at(&g.l, &[Step::F(b), Step::F(2)]);
        assert_eq!(&own, real, "growth base {}: value_sum is not the balance of the items' values", g.name);
        let mut seen = BTreeSet::new();
        for i in 0..=ns.min(2) {
            for j in 0..=no.min(2) {
                // (a zero-valued dummy item makes two stages share a balance: the comparison stays sound,
                // it only cannot tell those two stages' balances apart)
                g.injective &= seen.insert(g.value_sum(i, j));
            }
        }
        Some(g)
    }

    /// The concrete logical value of one abstract copy [flags, ns, no, vs, bsk] (or of the predicted result).
    fn realise(&self, party: &J) -> V {
        let mut l = self.l.clone();
        let b = self.bundle();
        let n = |k: &str| party[k].as_u64().unwrap_or_else(|| panic!("growth copy without {k}")) as usize;
        *at_mut(&mut l, &P_FLAGS) = V::U(n("flags") as u64);
        let cut = |l: &mut V, field: usize, len: usize| match at_mut(l, &[Step::F(b), Step::F(field)]) {
            V::Seq(xs) => {
                assert!(len <= xs.len(), "case does not apply to this base");
                xs.truncate(len)
            }
            _ => panic!("not a list"),
        };
        cut(&mut l, 0, n("ns"));
        if self.pool == GrowPool::Sapling {
            cut(&mut l, 1, n("no"));
        } else {
            assert_eq!(n("no"), 0, "a one-axis bundle has no second list");
        }
        let vs = party["vs"].as_array().expect("vs");
        *at_mut(&mut l, &[Step::F(b), Step::F(2)]) = self.value_sum_v(vs[0].as_u64().unwrap() as usize, vs[1].as_u64().unwrap() as usize);
        let bsk_field = if self.pool == GrowPool::Sapling { 4 } else { 6 };
        *at_mut(&mut l, &[Step::F(b), Step::F(bsk_field)]) = match n("bsk") {
            0 => none(),
            1 => some(V::B(vec![0x51; 32])),
            _ => some(V::B(vec![0x52; 32])),
        };
        l
    }

    fn applies(&self, case: &J) -> bool {
        let (ns, no) = self.lens();
        let sapling_kind = case["k"].as_str().unwrap().starts_with("growS");
        sapling_kind == (self.pool == GrowPool::Sapling)
            && case["ps"].as_array().unwrap().iter().all(|p| {
                let vs = p["vs"].as_array().unwrap();
                p["ns"].as_u64().unwrap() as usize <= ns
                    && p["no"].as_u64().unwrap() as usize <= no
                    && vs[0].as_u64().unwrap() as usize <= ns
                    && vs[1].as_u64().unwrap() as usize <= no
            })
    }
}

fn grow_bases_for(seed: u64) -> Vec<GrowBase> {
    let mut v = vec![];
    for (base, pools) in [
        (base_s2s2(seed), vec![GrowPool::Sapling]),
        (base_s2s(seed), vec![GrowPool::Sapling]),
        (base_s2s_dummy(seed), vec![GrowPool::Sapling]),
        (base_t2o(seed), vec![GrowPool::Orchard]),
        (base_o2o(seed), vec![GrowPool::Orchard]),
        (base_o2i(seed), vec![GrowPool::Orchard, GrowPool::Ironwood]),
    ] {
        for pool in pools {
            if let Some(g) = GrowBase::new(&base, pool) {
                v.push(g);
            }
        }
    }
    v
}

#[derive(Default)]
struct GrowStats {
    cases: usize,
    /// cases with two copies of which one is longer on exactly ONE axis, and some grouping succeeds
    one_axis: usize,
    /// two-copy cases of that shape that combine
    one_axis_pairs_joined: usize,
    /// cases with two copies that each grew on a different axis (no copy holds the join's value balance)
    incomparable: usize,
    /// cases in which some groupings succeed and others are refused
    order_dependent: usize,
    /// cases with copies from both sides of IO finalisation and different lengths
    cross_stage: usize,
    cases_non_injective: usize,
    per_base: BTreeMap<String, usize>,
}

fn grow_classify(case: &J, gs: &mut GrowStats) {
    let ps = case["ps"].as_array().unwrap();
    let g = |p: &J, k: &str| p[k].as_u64().unwrap();
    let any = case["any"].as_bool().unwrap();
    let (mut one, mut inc, mut cross) = (false, false, false);
    for a in ps {
        for b in ps {
            let (ds, dout) = (g(a, "ns").cmp(&g(b, "ns")), g(a, "no").cmp(&g(b, "no")));
            use std::cmp::Ordering::*;
            if g(a, "bsk") == 0 && g(b, "bsk") == 0 && matches!((ds, dout), (Less, Equal) | (Equal, Less)) {
                one = true;
            }
            if matches!((ds, dout), (Less, Greater)) {
                inc = true;
            }
            if (g(a, "bsk") != 0) != (g(b, "bsk") != 0) && (ds != Equal || dout != Equal) {
                cross = true;
            }
        }
    }
    gs.cases += 1;
    if one && any {
        gs.one_axis += 1;
        if ps.len() == 2 && case["out"]["ok"].as_bool().unwrap() {
            gs.one_axis_pairs_joined += 1;
        }
    }
    gs.incomparable += inc as usize;
    gs.cross_stage += cross as usize;
    let nbad = case["bad"].as_array().unwrap().len();
    if any && nbad > 0 {
        gs.order_dependent += 1;
    }
}

/// Runs one growth case on one base: every copy is made with the own encoder and parsed by the real
/// `Pczt::parse`; every grouping and order is executed on the real Combiner and compared with the
/// prediction for THAT grouping (refused, or the one predicted result, byte for byte).
fn run_grow_case(gb: &GrowBase, case: &J, trees: &[Vec<u64>], alt_seed: usize, st: &mut MergeStats) -> Option<J> {
    let ps = case["ps"].as_array().unwrap();
    let mut parties = vec![];
    for (i, p) in ps.iter().enumerate() {
        let l = gb.realise(p);
        let bytes = party_bytes(&l, (alt_seed + i) % 3 == 0);
        match guarded(|| Pczt::parse(&bytes)) {
            Ok(Ok(p)) => parties.push(p),
            Ok(Err(e)) => {
                return Some(json!({"what": "parse rejected a well-formed encoding", "party": i, "error": format!("{e:?}"), "bytes": hex(&bytes)}));
            }
            Err(m) => return Some(json!({"what": "parse panicked", "party": i, "panic": m})),
        }
    }
    let want = if case["any"].as_bool().unwrap() {
        let l = gb.realise(&case["v"]);
        let bytes = canonical_bytes(&l);
        st.joins_predicted += 1;
        st.results.insert(digest16(&bytes));
        if bytes[4] == 1 { st.v1 += 1 } else { st.v2 += 1 }
        Some((l, bytes))
    } else {
        st.conflicts_predicted += 1;
        None
    };
    st.cases += 1;
    let bad: BTreeSet<Vec<u64>> =
        case["bad"].as_array().unwrap().iter().map(|t| t.as_array().unwrap().iter().map(|x| x.as_u64().unwrap()).collect()).collect();
    execute_trees_with(&parties, &want, trees, st, &|t| bad.contains(t))
}

struct MergeInput {
    trees: BTreeMap<usize, Vec<Vec<u64>>>,
    cases: Vec<J>,
}

fn read_cases(path: &str) -> MergeInput {
    let mut trees = BTreeMap::new();
    let mut cases = vec![];
    for rec in read_ndjson(path) {
        if let Some(t) = rec.get("trees") {
            let n = t["n"].as_u64().unwrap() as usize;
            let ts: Vec<Vec<u64>> =
                t["trees"].as_array().unwrap().iter().map(|x| x.as_array().unwrap().iter().map(|y| y.as_u64().unwrap()).collect()).collect();
            trees.insert(n, ts);
        } else {
            cases.push(rec);
        }
    }
    MergeInput { trees, cases }
}

fn logical_of(p: &Pczt) -> V {
    let bytes = p.clone().serialize().expect("base serialises");
    decode_pczt(&bytes).expect("base decodes").1
}

fn bases_for(tier: &str, seed: u64) -> Vec<Base> {
    let mut v = vec![base_transparent(seed), base_t2o(seed), base_o2o(seed), base_o2i(seed), base_s2s(seed)];
    if tier == "thorough" {
        let _ = &mut v;
    }
    v
}

/// Chooses the bindings under which a case of kind `k` is executed on a base.
fn bindings_for(k: &str, idx: usize, base_name: &str, flat: &[Target], eq: &[Target], order: &[usize]) -> Vec<Binding> {
    let pick = |j: usize| flat[order[j % flat.len()]].clone();
    let one = |name: &str, t: Target| {
        let mut b = Binding::default();
        b.opt.insert(name.to_string(), t);
        b
    };
    match k {
        "opt1" => {
            let mut v: Vec<Binding> = flat.iter().map(|t| one("o1", t.clone())).collect();
            // boundary values of the variable-length / numeric slots, on a quarter of the assignments
            if idx % 4 == 1 {
                for t in flat.iter().filter(|t| has_boundary(&t.schema)) {
                    for variant in 1..=2 {
                        let mut b = one("o1", t.clone());
                        b.variant = variant;
                        v.push(b);
                    }
                }
            }
            v
        }
        "opt2" => {
            let m = flat.len();
            let a = idx % m;
            let mut c = (idx + 1 + idx / m) % m;
            if c == a {
                c = (c + 1) % m
            }
            let mut b = one("o1", pick(a));
            b.opt.insert("o2".into(), pick(c));
            vec![b]
        }
        "eq1" => eq
            .iter()
            .flat_map(|t| {
                (0..=eq_variants(t)).map(move |variant| {
                    let mut b = Binding::default();
                    b.eq.insert("e1".into(), t.clone());
                    b.variant = variant;
                    b
                })
            })
            .collect(),
        "lock" | "four" => vec![one("o1", pick(idx))],
        "flags2" => {
            if base_name == "transparent" || idx % 61 == 0 { vec![Binding::default()] } else { vec![] }
        }
        "flags3" | "listsT" => {
            if base_name == "transparent" { vec![Binding::default()] } else { vec![] }
        }
        "listsO" | "listsO2" => {
            if matches!(base_name, "t2o" | "o2o" | "o2i_v6") { vec![Binding::default()] } else { vec![] }
        }
        _ => panic!("unknown case kind {k}"),
    }
}

fn cmd_merge(cases_path: &str, tier: &str) {
    let seed = seed_from_env();
    let inp = read_cases(cases_path);
    let bases = bases_for(tier, seed);
    let mut st = MergeStats::default();
    let mut mismatches: Vec<J> = vec![];
    let mut per_kind: BTreeMap<String, usize> = BTreeMap::new();
    let mut classes: BTreeSet<String> = BTreeSet::new();
    let mut kind_idx: BTreeMap<String, usize> = BTreeMap::new();
    let mut mismatch_keys: BTreeSet<String> = BTreeSet::new();
    let mut codec_n = 0usize;
    for base in &bases {
        let base_l = logical_of(&base.pczt);
        for m in codec_checks(base, &base_l) {
            if mismatches.len() < 40 {
                mismatches.push(json!({"kind": "codec", "base": base.name, "case": {"k": "codec", "ps": [], "out": {"ok": true, "v": {}}}, "binding": {"slot": m["slot"], "memo": m["memo"]},
                                       "idx": 0, "detail": m, "trees": [], "seed": seed, "tier": tier}));
            }
        }
        codec_n += 1;
        let (flat, eq) = catalogue(&base_l);
        let mut order: Vec<usize> = (0..flat.len()).collect();
        order.shuffle(&mut ChaCha20Rng::seed_from_u64(seed ^ 0xC13));
        kind_idx.clear();
        for case in &inp.cases {
            let k = case["k"].as_str().unwrap();
            if k.starts_with("grow") {
                continue;
            }
            let idx = {
                let e = kind_idx.entry(k.to_string()).or_insert(0);
                *e += 1;
                *e - 1
            };
            let n = case["ps"].as_array().unwrap().len();
            let trees = &inp.trees[&n];
            for b in bindings_for(k, idx, base.name, &flat, &eq, &order) {
                for t in b.opt.values().chain(b.eq.values()) {
                    classes.insert(t.class.clone());
                }
                *per_kind.entry(k.to_string()).or_insert(0) += 1;
                if let Some(m) = run_case(&base_l, case, &b, trees, idx, &mut st) {
                    let key = format!("{}|{}|{}", b.describe(), m["what"], base.name);
                    if mismatch_keys.insert(key) && mismatches.len() < 40 {
                        mismatches.push(json!({"kind": "merge", "base": base.name, "case": case, "binding": b.describe(), "idx": idx, "detail": m,
                                               "trees": trees, "seed": seed, "tier": tier}));
                    }
                }
            }
        }
    }
    // growing shielded bundles (PcztGrowth): every case on every base whose lists are long enough
    let mut gs = GrowStats::default();
    if inp.cases.iter().any(|c| c["k"].as_str().unwrap().starts_with("grow")) {
        let grow_bases = grow_bases_for(seed);
        kind_idx.clear();
        for case in &inp.cases {
            let k = case["k"].as_str().unwrap();
            if !k.starts_with("grow") {
                continue;
            }
            let idx = {
                let e = kind_idx.entry(k.to_string()).or_insert(0);
                *e += 1;
                *e - 1
            };
            let n = case["ps"].as_array().unwrap().len();
            let trees = &inp.trees[&n];
            for (bi, gb) in grow_bases.iter().enumerate() {
                if !gb.applies(case) {
                    continue;
                }
                *per_kind.entry(k.to_string()).or_insert(0) += 1;
                *gs.per_base.entry(format!("{}{}", gb.name, if gb.injective { "" } else { " (two stages share a balance)" })).or_insert(0) += 1;
                if !gb.injective {
                    // counted, executed and compared, but not part of the vacuity guard's numbers
                    gs.cases_non_injective += 1;
                } else {
                    grow_classify(case, &mut gs);
                }
                if let Some(m) = run_grow_case(gb, case, trees, idx + bi, &mut st) {
                    let key = format!("grow|{}|{}|{}", k, m["what"], gb.name);
                    if mismatch_keys.insert(key) && mismatches.len() < 40 {
                        mismatches.push(json!({"kind": "grow", "base": gb.name, "case": case, "binding": {"pool": format!("{:?}", gb.pool)}, "idx": idx + bi,
                                               "detail": m, "trees": trees, "seed": seed, "tier": tier}));
                    }
                }
            }
        }
    }
    // the same cases with parties made by real role applications
    let reds = redactions();
    let mut role_cases = 0usize;
    let mut role_skipped = 0usize;
    let mut role_classes: BTreeSet<String> = BTreeSet::new();
    for base in &bases {
        let base_l = logical_of(&base.pczt);
        let base_txid = pczt_txid(&base.pczt).map(|t| t.to_string()).unwrap_or_default();
        let slots = role_slots(base, &base_l, &reds);
        let mut order: Vec<usize> = (0..slots.len()).collect();
        order.shuffle(&mut ChaCha20Rng::seed_from_u64(seed ^ 0x0C13));
        kind_idx.clear();
        for case in &inp.cases {
            let k = case["k"].as_str().unwrap();
            if !matches!(k, "opt1" | "opt2" | "four") {
                continue;
            }
            let idx = {
                let e = kind_idx.entry(k.to_string()).or_insert(0);
                *e += 1;
                *e - 1
            };
            let n = case["ps"].as_array().unwrap().len();
            let trees = &inp.trees[&n];
            let m = slots.len();
            let bounds: Vec<BTreeMap<String, &RoleSlot>> = match k {
                "opt1" => slots.iter().map(|s| BTreeMap::from([("o1".to_string(), s)])).collect(),
                "opt2" => {
                    let a = idx % m;
                    let mut c = (idx + 1 + idx / m) % m;
                    if c == a {
                        c = (c + 1) % m
                    }
                    vec![BTreeMap::from([("o1".to_string(), &slots[order[a]]), ("o2".to_string(), &slots[order[c]])])]
                }
                _ => vec![BTreeMap::from([("o1".to_string(), &slots[order[idx % m]])])],
            };
            for bound in bounds {
                let desc = json!({"roles": bound.iter().map(|(k, s)| (k.clone(), J::String(s.target.name.clone()))).collect::<serde_json::Map<_, _>>()});
                let res = match role_parties(base, &base_l, &reds, case, &bound, &mut st) {
                    Ok(None) => {
                        role_skipped += 1;
                        continue;
                    }
                    Ok(Some((parties, want))) => {
                        role_cases += 1;
                        for s in bound.values() {
                            role_classes.insert(s.target.class.clone());
                        }
                        let mut r = execute_trees(&parties, &want, trees, &mut st);
                        if r.is_none() {
                            if let Some((_, bytes)) = &want {
                                // the combined PCZT still implies the base's identifier
                                let t = guarded(|| Pczt::parse(bytes).ok().and_then(|p| pczt_txid(&p).ok()).map(|t| t.to_string()));
                                if t != Ok(Some(base_txid.clone())) {
                                    r = Some(json!({"what": "the combined PCZT implies another transaction identifier", "got": format!("{t:?}"), "base": base_txid}));
                                }
                            }
                        }
                        r
                    }
                    Err(m) => Some(m),
                };
                if let Some(m) = res {
                    let key = format!("{}|{}|{}", desc, m["what"], base.name);
                    if mismatch_keys.insert(key) && mismatches.len() < 40 {
                        mismatches.push(json!({"kind": "merge_roles", "base": base.name, "case": case, "binding": desc, "idx": idx, "detail": m,
                                               "trees": trees, "seed": seed, "tier": tier}));
                    }
                }
            }
        }
    }
    println!(
        "{}",
        json!({"codec_checked_bases": codec_n, "role_cases": role_cases, "role_cases_skipped": role_skipped, "role_classes": role_classes,
               "cases": st.cases, "combines": st.combines, "conflicts_predicted": st.conflicts_predicted,
               "joins_predicted": st.joins_predicted, "distinct_results": st.results.len(), "v1_results": st.v1, "v2_results": st.v2,
               "grow": {"cases": gs.cases, "cases_on_bases_with_shared_balances": gs.cases_non_injective, "one_axis": gs.one_axis, "one_axis_pairs_joined": gs.one_axis_pairs_joined, "incomparable": gs.incomparable,
                        "order_dependent": gs.order_dependent, "cross_stage": gs.cross_stage, "refused_groupings": st.refused_groupings,
                        "per_base": gs.per_base},
               "per_kind": per_kind, "slot_classes": classes.len(), "classes": classes, "bases": bases.iter().map(|b| b.name).collect::<Vec<_>>(),
               "mismatches": mismatches})
    );
}


// =================================================================================================
// zip244: own v5 transaction identifier and transparent signature digest over decoded effect slots
// =================================================================================================
mod zip244 {
    use super::{Form, S, V, s_action, s_global, s_ooutput, s_orchard, s_ospend, s_pczt, s_sapling, s_soutput, s_sspend, s_tin, s_tout, s_transparent};

    fn h(personal: &[u8], data: &[u8]) -> [u8; 32] {
        let mut p = [0u8; 16];
        p[..personal.len()].copy_from_slice(personal);
        blake2b_simd::Params::new().hash_length(32).personal(&p).hash(data).as_bytes().try_into().unwrap()
    }

    fn compact_size(n: usize, out: &mut Vec<u8>) {
        if n < 253 {
            out.push(n as u8)
        } else if n <= 0xffff {
            out.push(253);
            out.extend_from_slice(&(n as u16).to_le_bytes())
        } else {
            out.push(254);
            out.extend_from_slice(&(n as u32).to_le_bytes())
        }
    }

    pub struct Tx<'a> {
        l: &'a V,
    }

    pub const SIGHASH_NONE: u8 = 2;
    pub const SIGHASH_SINGLE: u8 = 3;
    pub const SIGHASH_ACP: u8 = 0x80;

    impl<'a> Tx<'a> {
        pub fn new(l: &'a V) -> Self {
            Tx { l }
        }
        fn g(&self, f: &str) -> &V {
            self.l.field(&s_pczt(Form::Logical), "global").field(&s_global(), f)
        }
        fn tins(&self) -> &Vec<V> {
            self.l.field(&s_pczt(Form::Logical), "transparent").field(&s_transparent(), "inputs").seq()
        }
        fn touts(&self) -> &Vec<V> {
            self.l.field(&s_pczt(Form::Logical), "transparent").field(&s_transparent(), "outputs").seq()
        }
        pub fn version(&self) -> u64 {
            self.g("tx_version").u()
        }
        /// BIP 370 "Determining Lock Time"
        pub fn lock_time(&self) -> Option<u32> {
            let st = s_tin();
            let times: Vec<Option<u64>> = self.tins().iter().map(|i| i.field(&st, "required_time_lock_time").opt().map(|v| v.u())).collect();
            let heights: Vec<Option<u64>> = self.tins().iter().map(|i| i.field(&st, "required_height_lock_time").opt().map(|v| v.u())).collect();
            let any = times.iter().any(|t| t.is_some()) || heights.iter().any(|t| t.is_some());
            if !any {
                return Some(self.g("fallback_lock_time").opt().map(|v| v.u()).unwrap_or(0) as u32);
            }
            // an input that names only one kind of lock time supports only that kind
            let height_ok = times.iter().zip(&heights).all(|(t, h)| !(t.is_some() && h.is_none()));
            let time_ok = times.iter().zip(&heights).all(|(t, h)| !(h.is_some() && t.is_none()));
            if height_ok {
                heights.iter().flatten().max().map(|v| *v as u32)
            } else if time_ok {
                times.iter().flatten().max().map(|v| *v as u32)
            } else {
                None
            }
        }
        fn header_digest(&self) -> Option<[u8; 32]> {
            let mut d = vec![];
            d.extend_from_slice(&((self.version() as u32) | (1 << 31)).to_le_bytes());
            d.extend_from_slice(&(self.g("version_group_id").u() as u32).to_le_bytes());
            d.extend_from_slice(&(self.g("consensus_branch_id").u() as u32).to_le_bytes());
            d.extend_from_slice(&self.lock_time()?.to_le_bytes());
            d.extend_from_slice(&(self.g("expiry_height").u() as u32).to_le_bytes());
            Some(h(b"ZTxIdHeadersHash", &d))
        }
        fn prevout(&self, i: &V) -> Vec<u8> {
            let st = s_tin();
            let mut d = i.field(&st, "prevout_txid").bytes().to_vec();
            d.extend_from_slice(&(i.field(&st, "prevout_index").u() as u32).to_le_bytes());
            d
        }
        fn sequence(&self, i: &V) -> [u8; 4] {
            (i.field(&s_tin(), "sequence").opt().map(|v| v.u()).unwrap_or(0xffff_ffff) as u32).to_le_bytes()
        }
        fn txout(value: u64, script: &[u8]) -> Vec<u8> {
            let mut d = value.to_le_bytes().to_vec();
            compact_size(script.len(), &mut d);
            d.extend_from_slice(script);
            d
        }
        fn prevouts_digest(&self) -> [u8; 32] {
            h(b"ZTxIdPrevoutHash", &self.tins().iter().flat_map(|i| self.prevout(i)).collect::<Vec<u8>>())
        }
        fn sequence_digest(&self) -> [u8; 32] {
            h(b"ZTxIdSequencHash", &self.tins().iter().flat_map(|i| self.sequence(i)).collect::<Vec<u8>>())
        }
        fn output_bytes(&self, o: &V) -> Vec<u8> {
            let st = s_tout();
            Self::txout(o.field(&st, "value").u(), o.field(&st, "script_pubkey").bytes())
        }
        fn outputs_digest(&self) -> [u8; 32] {
            h(b"ZTxIdOutputsHash", &self.touts().iter().flat_map(|o| self.output_bytes(o)).collect::<Vec<u8>>())
        }
        fn transparent_digest(&self) -> [u8; 32] {
            if self.tins().is_empty() && self.touts().is_empty() {
                return h(b"ZTxIdTranspaHash", &[]);
            }
            let mut d = self.prevouts_digest().to_vec();
            d.extend_from_slice(&self.sequence_digest());
            d.extend_from_slice(&self.outputs_digest());
            h(b"ZTxIdTranspaHash", &d)
        }
        fn sapling_digest(&self) -> Option<[u8; 32]> {
            let ss = s_sapling(true);
            let b = self.l.field(&s_pczt(Form::Logical), "sapling");
            let spends = b.field(&ss, "spends").seq();
            let outputs = b.field(&ss, "outputs").seq();
            if spends.is_empty() && outputs.is_empty() {
                return Some(h(b"ZTxIdSaplingHash", &[]));
            }
            let sd = if spends.is_empty() {
                h(b"ZTxIdSSpendsHash", &[])
            } else {
                let anchor = b.field(&ss, "anchor").opt()?.bytes().to_vec();
                let sp = s_sspend();
                let (mut c, mut n) = (vec![], vec![]);
                for s in spends {
                    c.extend_from_slice(s.field(&sp, "nullifier").bytes());
                    n.extend_from_slice(s.field(&sp, "cv").bytes());
                    n.extend_from_slice(&anchor);
                    n.extend_from_slice(s.field(&sp, "rk").bytes());
                }
                let mut d = h(b"ZTxIdSSpendCHash", &c).to_vec();
                d.extend_from_slice(&h(b"ZTxIdSSpendNHash", &n));
                h(b"ZTxIdSSpendsHash", &d)
            };
            let od = if outputs.is_empty() {
                h(b"ZTxIdSOutputHash", &[])
            } else {
                let so = s_soutput();
                let (mut c, mut m, mut n) = (vec![], vec![], vec![]);
                for o in outputs {
                    let enc = o.field(&so, "enc_ciphertext").bytes();
                    if enc.len() != 580 {
                        return None;
                    }
                    c.extend_from_slice(o.field(&so, "cmu").bytes());
                    c.extend_from_slice(o.field(&so, "ephemeral_key").bytes());
                    c.extend_from_slice(&enc[..52]);
                    m.extend_from_slice(&enc[52..564]);
                    n.extend_from_slice(o.field(&so, "cv").bytes());
                    n.extend_from_slice(&enc[564..]);
                    n.extend_from_slice(o.field(&so, "out_ciphertext").bytes());
                }
                let mut d = h(b"ZTxIdSOutC__Hash", &c).to_vec();
                d.extend_from_slice(&h(b"ZTxIdSOutM__Hash", &m));
                d.extend_from_slice(&h(b"ZTxIdSOutN__Hash", &n));
                h(b"ZTxIdSOutputHash", &d)
            };
            let V::I(vs) = b.field(&ss, "value_sum") else { return None };
            let mut d = sd.to_vec();
            d.extend_from_slice(&od);
            d.extend_from_slice(&(*vs as i64).to_le_bytes());
            Some(h(b"ZTxIdSaplingHash", &d))
        }
        fn orchard_digest(&self) -> Option<[u8; 32]> {
            let so = s_orchard(Form::Logical);
            let b = self.l.field(&s_pczt(Form::Logical), "orchard");
            let acts = b.field(&so, "actions").seq();
            if acts.is_empty() {
                return Some(h(b"ZTxIdOrchardHash", &[]));
            }
            let (sa, sp, sout) = (s_action(Form::Logical), s_ospend(Form::Logical), s_ooutput(Form::Logical));
            let (mut c, mut m, mut n) = (vec![], vec![], vec![]);
            for a in acts {
                let (spend, out) = (a.field(&sa, "spend"), a.field(&sa, "output"));
                let enc = match out.field(&sout, "enc_ciphertext") {
                    V::Enum(0, e) => e.bytes(),
                    _ => return None, // compact form: needs resolution, not judged here
                };
                if enc.len() != 580 {
                    return None;
                }
                c.extend_from_slice(spend.field(&sp, "nullifier").bytes());
                c.extend_from_slice(out.field(&sout, "cmx").opt()?.bytes());
                c.extend_from_slice(out.field(&sout, "ephemeral_key").bytes());
                c.extend_from_slice(&enc[..52]);
                m.extend_from_slice(&enc[52..564]);
                n.extend_from_slice(a.field(&sa, "cv_net").opt()?.bytes());
                n.extend_from_slice(spend.field(&sp, "rk").bytes());
                n.extend_from_slice(&enc[564..]);
                n.extend_from_slice(out.field(&sout, "out_ciphertext").bytes());
            }
            let mut d = h(b"ZTxIdOrcActCHash", &c).to_vec();
            d.extend_from_slice(&h(b"ZTxIdOrcActMHash", &m));
            d.extend_from_slice(&h(b"ZTxIdOrcActNHash", &n));
            d.push(b.field(&so, "flags").u() as u8);
            let V::Rec(vs) = b.field(&so, "value_sum") else { return None };
            let bal = if vs[1].u() == 1 { -(vs[0].u() as i64) } else { vs[0].u() as i64 };
            d.extend_from_slice(&bal.to_le_bytes());
            d.extend_from_slice(b.field(&so, "anchor").opt()?.bytes());
            Some(h(b"ZTxIdOrchardHash", &d))
        }
        fn root(&self, transparent: [u8; 32]) -> Option<[u8; 32]> {
            let mut personal = b"ZcashTxHash_".to_vec();
            personal.extend_from_slice(&(self.g("consensus_branch_id").u() as u32).to_le_bytes());
            let mut d = self.header_digest()?.to_vec();
            d.extend_from_slice(&transparent);
            d.extend_from_slice(&self.sapling_digest()?);
            d.extend_from_slice(&self.orchard_digest()?);
            Some(h(&personal, &d))
        }
        /// ZIP 244 T: the transaction identifier of a v5 transaction (None: not a v5 transaction, or
        /// the value is in a compact form this oracle does not expand).
        pub fn txid(&self) -> Option<[u8; 32]> {
            if self.version() != 5 {
                return None;
            }
            self.root(self.transparent_digest())
        }
        /// ZIP 244 S.2: the digest a signature of transparent input `idx` with `hash_type` commits to.
        pub fn transparent_sighash(&self, idx: usize, hash_type: u8) -> Option<[u8; 32]> {
            if self.version() != 5 {
                return None;
            }
            let st = s_tin();
            let acp = hash_type & SIGHASH_ACP != 0;
            let base = hash_type & !SIGHASH_ACP;
            let ins = self.tins();
            let mut d = vec![hash_type];
            d.extend_from_slice(&if acp { h(b"ZTxIdPrevoutHash", &[]) } else { self.prevouts_digest() });
            d.extend_from_slice(&if acp {
                h(b"ZTxTrAmountsHash", &[])
            } else {
                h(b"ZTxTrAmountsHash", &ins.iter().flat_map(|i| i.field(&st, "value").u().to_le_bytes()).collect::<Vec<u8>>())
            });
            d.extend_from_slice(&if acp {
                h(b"ZTxTrScriptsHash", &[])
            } else {
                let mut x = vec![];
                for i in ins {
                    let sc = i.field(&st, "script_pubkey").bytes();
                    compact_size(sc.len(), &mut x);
                    x.extend_from_slice(sc);
                }
                h(b"ZTxTrScriptsHash", &x)
            });
            d.extend_from_slice(&if acp { h(b"ZTxIdSequencHash", &[]) } else { self.sequence_digest() });
            d.extend_from_slice(&if base == SIGHASH_SINGLE {
                match self.touts().get(idx) {
                    Some(o) => h(b"ZTxIdOutputsHash", &self.output_bytes(o)),
                    None => h(b"ZTxIdOutputsHash", &[]),
                }
            } else if base == SIGHASH_NONE {
                h(b"ZTxIdOutputsHash", &[])
            } else {
                self.outputs_digest()
            });
            let i = ins.get(idx)?;
            let mut x = self.prevout(i);
            x.extend_from_slice(&i.field(&st, "value").u().to_le_bytes());
            let sc = i.field(&st, "redeem_script").opt().map(|v| v.bytes()).unwrap_or(i.field(&st, "script_pubkey").bytes());
            let _ = sc; // ZIP 244 commits to the scriptPubKey of the coin being spent
            let spk = i.field(&st, "script_pubkey").bytes();
            compact_size(spk.len(), &mut x);
            x.extend_from_slice(spk);
            x.extend_from_slice(&self.sequence(i));
            d.extend_from_slice(&h(b"Zcash___TxInHash", &x));
            self.root(h(b"ZTxIdTranspaHash", &d))
        }
    }
    #[allow(dead_code)]
    fn _unused(_: &S) {}
}


// =================================================================================================
// roles: seeded random sequences of real role applications, logged for Trace_PcztRoles.tla
// =================================================================================================

#[derive(Clone, Copy, Debug, PartialEq, Eq)]
enum Pool {
    Orchard,
    Ironwood,
}
impl Pool {
    fn name(self) -> &'static str {
        match self {
            Pool::Orchard => "orchard",
            Pool::Ironwood => "ironwood",
        }
    }
}

struct RedactDef {
    class: String,
    /// which list the optional index refers to: "tin", "tout", "orchard", "ironwood", "sspend", "soutput", "" (no index)
    list: &'static str,
    apply: fn(Redactor, Option<usize>) -> Redactor,
    /// the cleared field is an input of the resolution of compact fields
    note_field: bool,
}

macro_rules! red_tin {
    ($v:ident, $m:ident, $c:literal) => {
        $v.push(RedactDef {
            class: format!("transparent.inputs[].{}", $c),
            list: "tin",
            apply: |r, idx| {
                r.redact_transparent_with(|mut t| match idx {
                    Some(i) => t.redact_input(i, |mut x| x.$m()),
                    None => t.redact_inputs(|mut x| x.$m()),
                })
            },
            note_field: false,
        })
    };
}
macro_rules! red_tout {
    ($v:ident, $m:ident, $c:literal) => {
        $v.push(RedactDef {
            class: format!("transparent.outputs[].{}", $c),
            list: "tout",
            apply: |r, idx| {
                r.redact_transparent_with(|mut t| match idx {
                    Some(i) => t.redact_output(i, |mut x| x.$m()),
                    None => t.redact_outputs(|mut x| x.$m()),
                })
            },
            note_field: false,
        })
    };
}
macro_rules! red_act {
    ($v:ident, $m:ident, $c:literal, $note:expr) => {
        $v.push(RedactDef {
            class: format!("orchard.actions[].{}", $c),
            list: "orchard",
            apply: |r, idx| {
                r.redact_orchard_with(|mut o| match idx {
                    Some(i) => o.redact_action(i, |mut x| x.$m()),
                    None => o.redact_actions(|mut x| x.$m()),
                })
            },
            note_field: $note,
        });
        $v.push(RedactDef {
            class: format!("ironwood.actions[].{}", $c),
            list: "ironwood",
            apply: |r, idx| {
                r.redact_ironwood_with(|mut o| match idx {
                    Some(i) => o.redact_action(i, |mut x| x.$m()),
                    None => o.redact_actions(|mut x| x.$m()),
                })
            },
            note_field: $note,
        })
    };
}
macro_rules! red_sspend {
    ($v:ident, $m:ident, $c:literal) => {
        $v.push(RedactDef {
            class: format!("sapling.spends[].{}", $c),
            list: "sspend",
            apply: |r, idx| {
                r.redact_sapling_with(|mut o| match idx {
                    Some(i) => o.redact_spend(i, |mut x| x.$m()),
                    None => o.redact_spends(|mut x| x.$m()),
                })
            },
            note_field: false,
        })
    };
}
macro_rules! red_soutput {
    ($v:ident, $m:ident, $c:literal) => {
        $v.push(RedactDef {
            class: format!("sapling.outputs[].{}", $c),
            list: "soutput",
            apply: |r, idx| {
                r.redact_sapling_with(|mut o| match idx {
                    Some(i) => o.redact_output(i, |mut x| x.$m()),
                    None => o.redact_outputs(|mut x| x.$m()),
                })
            },
            note_field: false,
        })
    };
}

fn redactions() -> Vec<RedactDef> {
    let mut v = vec![];
    v.push(RedactDef {
        class: "global.proprietary{}".into(),
        list: "",
        apply: |r, _| r.redact_global_with(|mut g| g.clear_proprietary()),
        note_field: false,
    });
    red_tin!(v, clear_script_sig, "script_sig");
    red_tin!(v, clear_redeem_script, "redeem_script");
    red_tin!(v, clear_partial_signatures, "partial_signatures{}");
    red_tin!(v, clear_bip32_derivation, "bip32_derivation{}");
    red_tin!(v, clear_ripemd160_preimages, "ripemd160_preimages{}");
    red_tin!(v, clear_sha256_preimages, "sha256_preimages{}");
    red_tin!(v, clear_hash160_preimages, "hash160_preimages{}");
    red_tin!(v, clear_hash256_preimages, "hash256_preimages{}");
    red_tin!(v, clear_proprietary, "proprietary{}");
    red_tout!(v, clear_redeem_script, "redeem_script");
    red_tout!(v, clear_bip32_derivation, "bip32_derivation{}");
    red_tout!(v, clear_user_address, "user_address");
    red_tout!(v, clear_proprietary, "proprietary{}");
    red_act!(v, clear_spend_auth_sig, "spend.spend_auth_sig", false);
    red_act!(v, clear_spend_recipient, "spend.recipient", true);
    red_act!(v, clear_spend_value, "spend.value", true);
    red_act!(v, clear_spend_rho, "spend.rho", true);
    red_act!(v, clear_spend_rseed, "spend.rseed", true);
    red_act!(v, clear_spend_fvk, "spend.fvk", true);
    red_act!(v, clear_spend_witness, "spend.witness", false);
    red_act!(v, clear_spend_alpha, "spend.alpha", false);
    red_act!(v, clear_spend_zip32_derivation, "spend.zip32_derivation", false);
    red_act!(v, clear_spend_dummy_sk, "spend.dummy_sk", false);
    red_act!(v, clear_spend_proprietary, "spend.proprietary{}", false);
    red_act!(v, clear_output_recipient, "output.recipient", true);
    red_act!(v, clear_output_value, "output.value", true);
    red_act!(v, clear_output_rseed, "output.rseed", true);
    red_act!(v, clear_output_ock, "output.ock", false);
    red_act!(v, clear_output_zip32_derivation, "output.zip32_derivation", false);
    red_act!(v, clear_output_user_address, "output.user_address", false);
    red_act!(v, clear_output_proprietary, "output.proprietary{}", false);
    red_act!(v, clear_rcv, "rcv", true);
    red_sspend!(v, clear_zkproof, "zkproof");
    red_sspend!(v, clear_spend_auth_sig, "spend_auth_sig");
    red_sspend!(v, clear_recipient, "recipient");
    red_sspend!(v, clear_value, "value");
    red_sspend!(v, clear_rcm, "rcm");
    red_sspend!(v, clear_rseed, "rseed");
    red_sspend!(v, clear_rcv, "rcv");
    red_sspend!(v, clear_proof_generation_key, "proof_generation_key");
    red_sspend!(v, clear_witness, "witness");
    red_sspend!(v, clear_alpha, "alpha");
    red_sspend!(v, clear_zip32_derivation, "zip32_derivation");
    red_sspend!(v, clear_dummy_ask, "dummy_ask");
    red_sspend!(v, clear_proprietary, "proprietary{}");
    red_soutput!(v, clear_zkproof, "zkproof");
    red_soutput!(v, clear_recipient, "recipient");
    red_soutput!(v, clear_value, "value");
    red_soutput!(v, clear_rseed, "rseed");
    red_soutput!(v, clear_rcv, "rcv");
    red_soutput!(v, clear_ock, "ock");
    red_soutput!(v, clear_zip32_derivation, "zip32_derivation");
    red_soutput!(v, clear_user_address, "user_address");
    red_soutput!(v, clear_proprietary, "proprietary{}");
    for (cl, f) in [
        ("orchard.zkproof", (|r, _| r.redact_orchard_with(|mut o| o.clear_zkproof())) as fn(Redactor, Option<usize>) -> Redactor),
        ("orchard.bsk", |r, _| r.redact_orchard_with(|mut o| o.clear_bsk())),
        ("orchard.anchor", |r, _| r.redact_orchard_with(|mut o| o.clear_anchor())),
        ("ironwood.zkproof", |r, _| r.redact_ironwood_with(|mut o| o.clear_zkproof())),
        ("ironwood.bsk", |r, _| r.redact_ironwood_with(|mut o| o.clear_bsk())),
        ("ironwood.anchor", |r, _| r.redact_ironwood_with(|mut o| o.clear_anchor())),
        ("sapling.bsk", |r, _| r.redact_sapling_with(|mut o| o.clear_bsk())),
        ("sapling.anchor", |r, _| r.redact_sapling_with(|mut o| o.clear_anchor())),
    ] {
        v.push(RedactDef { class: cl.into(), list: "", apply: f, note_field: false });
    }
    v
}

#[derive(Clone, Debug)]
enum Op {
    UpdGlobal { tag: u8 },
    /// f: 0 proprietary, 1 bip32 derivation, 2..5 ripemd160 / sha256 / hash160 / hash256 preimage
    UpdTin { i: usize, f: u8, tag: u8 },
    /// f: 0 proprietary, 1 user address, 2 bip32 derivation
    UpdTout { j: usize, f: u8, tag: u8 },
    /// f: 0 spend proprietary, 1 output proprietary, 2 output user address, 3 spend zip32, 4 output zip32
    UpdAct { pool: Pool, i: usize, f: u8, tag: u8 },
    /// spend: f 0 proprietary, 1 zip32; output: f 0 proprietary, 1 zip32, 2 user address
    UpdSap { spend: bool, i: usize, f: u8, tag: u8 },
    SignT { i: usize },
    SignAct { pool: Pool },
    SignSap,
    Redact { r: usize, idx: Option<usize> },
    Compact { pool: Pool },
    Resolve,
    Verify { which: u8 },
    Finalize,
    Combine { from: usize },
    Reparse,
    SetAnchor { pool: Pool },
    SetWitness,
    Prove { pool: Pool },
    ProveSap,
}

fn tin_class(f: u8) -> &'static str {
    ["transparent.inputs[].proprietary{}", "transparent.inputs[].bip32_derivation{}", "transparent.inputs[].ripemd160_preimages{}",
     "transparent.inputs[].sha256_preimages{}", "transparent.inputs[].hash160_preimages{}", "transparent.inputs[].hash256_preimages{}"][f as usize]
}
fn tout_class(f: u8) -> &'static str {
    ["transparent.outputs[].proprietary{}", "transparent.outputs[].user_address", "transparent.outputs[].bip32_derivation{}"][f as usize]
}
fn sap_class(spend: bool, f: u8) -> &'static str {
    if spend {
        ["sapling.spends[].proprietary{}", "sapling.spends[].zip32_derivation"][f as usize]
    } else {
        ["sapling.outputs[].proprietary{}", "sapling.outputs[].zip32_derivation", "sapling.outputs[].user_address"][f as usize]
    }
}
fn act_class(pool: Pool, f: u8) -> String {
    format!(
        "{}.actions[].{}",
        pool.name(),
        ["spend.proprietary{}", "output.proprietary{}", "output.user_address", "spend.zip32_derivation", "output.zip32_derivation"][f as usize]
    )
}

fn have_proof_keys(keys: &ProvingKeys) -> bool {
    keys.orchard_v5.is_some() && keys.orchard_v6.is_some() && keys.sapling.is_some()
}

struct ProvingKeys {
    orchard_v5: Option<orchard::circuit::ProvingKey>,
    orchard_v6: Option<orchard::circuit::ProvingKey>,
    vk5: Option<orchard::circuit::VerifyingKey>,
    vk6: Option<orchard::circuit::VerifyingKey>,
    sapling: Option<zcash_proofs::prover::LocalTxProver>,
}

impl ProvingKeys {
    fn none() -> Self {
        ProvingKeys { orchard_v5: None, orchard_v6: None, vk5: None, vk6: None, sapling: None }
    }
    fn build() -> Self {
        use orchard::circuit::{OrchardCircuitVersion as Ver, ProvingKey, VerifyingKey};
        let (a, b) = std::thread::scope(|sc| {
            let a = sc.spawn(|| (ProvingKey::build(Ver::FixedPostNu6_2), VerifyingKey::build(Ver::FixedPostNu6_2)));
            let b = sc.spawn(|| (ProvingKey::build(Ver::PostNu6_3), VerifyingKey::build(Ver::PostNu6_3)));
            (a.join().expect("key build"), b.join().expect("key build"))
        });
        ProvingKeys { orchard_v5: Some(a.0), vk5: Some(a.1), orchard_v6: Some(b.0), vk6: Some(b.1), sapling: Some(zcash_proofs::prover::LocalTxProver::bundled()) }
    }
}

impl Op {
    /// (role, argument) as Trace_PcztRoles names them
    fn role(&self, reds: &[RedactDef]) -> (&'static str, String) {
        match self {
            Op::UpdGlobal { .. } => ("update", "global.proprietary{}".into()),
            Op::UpdTin { f, .. } => ("update", tin_class(*f).into()),
            Op::UpdTout { f, .. } => ("update", tout_class(*f).into()),
            Op::UpdAct { pool, f, .. } => ("update", act_class(*pool, *f)),
            Op::UpdSap { spend, f, .. } => ("update", sap_class(*spend, *f).into()),
            Op::SignT { .. } => ("sign_t", "".into()),
            Op::SignAct { pool } => ("sign_s", pool.name().into()),
            Op::SignSap => ("sign_s", "sapling".into()),
            Op::Redact { r, .. } => ("redact", reds[*r].class.clone()),
            Op::Compact { pool } => ("compact", pool.name().into()),
            Op::Resolve => ("resolve", "".into()),
            Op::Verify { .. } => ("verify", "".into()),
            Op::Finalize => ("finalize", "".into()),
            Op::Combine { .. } => ("combine", "".into()),
            Op::Reparse => ("reparse", "".into()),
            Op::SetAnchor { pool } => ("set_anchor", pool.name().into()),
            Op::SetWitness => ("set_witness", "orchard".into()),
            Op::Prove { pool } => ("prove", pool.name().into()),
            Op::ProveSap => ("prove", "sapling".into()),
        }
    }

    fn describe(&self) -> J {
        json!(format!("{self:?}"))
    }

    /// Applies the real role. Err = the role refused.
    fn apply(&self, base: &Base, reds: &[RedactDef], keys: &ProvingKeys, p: Pczt, others: &[Pczt]) -> Result<Pczt, String> {
        let e = |x: &dyn std::fmt::Debug| format!("{x:?}");
        match self {
            Op::UpdGlobal { tag } => Ok(Updater::new(p).update_global_with(|mut g| g.set_proprietary("verif.key0".into(), vec![*tag])).finish()),
            Op::UpdTin { i, f, tag } => Updater::new(p)
                .update_transparent_with(|mut u| {
                    u.update_input_with(*i, |mut x| {
                        match f {
                            0 => x.set_proprietary("verif.key0".into(), vec![*tag]),
                            1 => x.set_bip32_derivation(
                                [0xA0; 33],
                                zcash_transparent::pczt::Bip32Derivation::parse([*tag; 32], vec![44 | (1 << 31), *tag as u32]).expect("derivation"),
                            ),
                            2 => x.set_ripemd160_preimage(vec![*tag; 5]),
                            3 => x.set_sha256_preimage(vec![*tag; 5]),
                            4 => x.set_hash160_preimage(vec![*tag; 5]),
                            _ => x.set_hash256_preimage(vec![*tag; 5]),
                        }
                        Ok(())
                    })
                })
                .map(|u| u.finish())
                .map_err(|x| e(&x)),
            Op::UpdTout { j, f, tag } => Updater::new(p)
                .update_transparent_with(|mut u| {
                    u.update_output_with(*j, |mut x| {
                        match f {
                            0 => x.set_proprietary("verif.key0".into(), vec![*tag]),
                            1 => x.set_user_address(format!("verif-address-{tag}")),
                            _ => x.set_bip32_derivation(
                                [0xA1; 33],
                                zcash_transparent::pczt::Bip32Derivation::parse([*tag; 32], vec![44 | (1 << 31), *tag as u32]).expect("derivation"),
                            ),
                        }
                        Ok(())
                    })
                })
                .map(|u| u.finish())
                .map_err(|x| e(&x)),
            Op::UpdAct { pool, i, f, tag } => {
                let upd = |mut u: orchard::pczt::Updater<'_>| {
                    u.update_action_with(*i, |mut x| {
                        let z = || orchard::pczt::Zip32Derivation::parse([*tag; 32], vec![32 | (1 << 31), 133 | (1 << 31), (*tag as u32) | (1 << 31)]).expect("zip32");
                        match f {
                            0 => x.set_spend_proprietary("verif.key0".into(), vec![*tag]),
                            1 => x.set_output_proprietary("verif.key0".into(), vec![*tag]),
                            2 => x.set_output_user_address(format!("verif-address-{tag}")),
                            3 => x.set_spend_zip32_derivation(z()),
                            _ => x.set_output_zip32_derivation(z()),
                        }
                        Ok(())
                    })
                };
                match pool {
                    Pool::Orchard => Updater::new(p).update_orchard_with(upd).map(|u| u.finish()).map_err(|x| e(&x)),
                    Pool::Ironwood => Updater::new(p).update_ironwood_with(upd).map(|u| u.finish()).map_err(|x| e(&x)),
                }
            }
            Op::UpdSap { spend, i, f, tag } => Updater::new(p)
                .update_sapling_with(|mut u| {
                    let z = || sapling::pczt::Zip32Derivation::parse([*tag; 32], vec![32 | (1 << 31), 133 | (1 << 31), (*tag as u32) | (1 << 31)]).expect("zip32");
                    if *spend {
                        u.update_spend_with(*i, |mut x| {
                            match f {
                                0 => x.set_proprietary("verif.key0".into(), vec![*tag]),
                                _ => x.set_zip32_derivation(z()),
                            }
                            Ok(())
                        })
                    } else {
                        u.update_output_with(*i, |mut x| {
                            match f {
                                0 => x.set_proprietary("verif.key0".into(), vec![*tag]),
                                1 => x.set_zip32_derivation(z()),
                                _ => x.set_user_address(format!("verif-address-{tag}")),
                            }
                            Ok(())
                        })
                    }
                })
                .map(|u| u.finish())
                .map_err(|x| e(&x)),
            Op::SignT { i } => {
                let mut s = Signer::new(p).map_err(|x| e(&x))?;
                s.sign_transparent(*i, &base.tkeys[*i]).map_err(|x| e(&x))?;
                Ok(s.finish())
            }
            Op::SignSap => {
                let mut s = Signer::new(p).map_err(|x| e(&x))?;
                let (i, ask) = base.sapling_ask.as_ref().ok_or("no sapling spend")?;
                s.sign_sapling(*i, ask).map_err(|x| e(&x))?;
                Ok(s.finish())
            }
            Op::SignAct { pool } => {
                let mut s = Signer::new(p).map_err(|x| e(&x))?;
                match pool {
                    Pool::Orchard => {
                        let (i, ask) = base.orchard_ask.as_ref().ok_or("no orchard spend")?;
                        s.sign_orchard(*i, ask).map_err(|x| e(&x))?
                    }
                    Pool::Ironwood => {
                        let (i, ask) = base.ironwood_ask.as_ref().ok_or("no ironwood spend")?;
                        s.sign_ironwood(*i, ask).map_err(|x| e(&x))?
                    }
                }
                Ok(s.finish())
            }
            Op::Redact { r, idx } => Ok((reds[*r].apply)(Redactor::new(p), *idx).finish()),
            Op::Compact { pool } => Ok(match pool {
                Pool::Orchard => Redactor::new(p).redact_orchard_with(|mut o| o.compact_resolvable_fields()).finish(),
                Pool::Ironwood => Redactor::new(p).redact_ironwood_with(|mut o| o.compact_resolvable_fields()).finish(),
            }),
            Op::Resolve => {
                let mut p = p;
                p.resolve_fields().map_err(|x| e(&x))?;
                Ok(p)
            }
            Op::Verify { which } => match which {
                0 => Verifier::new(p).with_transparent::<(), _>(|_| Ok(())).map(|v| v.finish()).map_err(|_| "verifier".to_string()),
                1 => Verifier::new(p).with_orchard::<(), _>(|_| Ok(())).map(|v| v.finish()).map_err(|_| "verifier".to_string()),
                2 => Verifier::new(p).with_ironwood::<(), _>(|_| Ok(())).map(|v| v.finish()).map_err(|_| "verifier".to_string()),
                _ => Verifier::new(p).with_sapling::<(), _>(|_| Ok(())).map(|v| v.finish()).map_err(|_| "verifier".to_string()),
            },
            Op::Finalize => SpendFinalizer::new(p).finalize_spends().map_err(|x| e(&x)),
            Op::Combine { from } => Combiner::new(vec![p, others[*from].clone()]).combine().map_err(|_| "conflict".to_string()),
            Op::Reparse => {
                let b = p.serialize().map_err(|x| e(&x))?;
                Pczt::parse(&b).map_err(|x| e(&x))
            }
            Op::SetAnchor { pool } => {
                let (anchor, _, _) = base.deferred.as_ref().ok_or("no deferred anchor")?;
                match pool {
                    Pool::Orchard => Updater::new(p).set_orchard_anchor(*anchor).map(|u| u.finish()).map_err(|x| e(&x)),
                    Pool::Ironwood => Updater::new(p).set_ironwood_anchor(orchard::Anchor::empty_tree()).map(|u| u.finish()).map_err(|x| e(&x)),
                }
            }
            Op::SetWitness => {
                let (_, i, path) = base.deferred.as_ref().ok_or("no deferred witness")?;
                Updater::new(p).set_orchard_spend_witnesses([(*i, path.clone())]).map(|u| u.finish()).map_err(|x| e(&x))
            }
            Op::ProveSap => {
                let prover = keys.sapling.as_ref().ok_or("no sapling prover in this sequence")?;
                Prover::new(p).create_sapling_proofs(prover, prover).map(|x| x.finish()).map_err(|x| e(&x))
            }
            Op::Prove { pool } => {
                let v6 = *p.global().tx_version() == 6;
                let pk = if v6 { keys.orchard_v6.as_ref() } else { keys.orchard_v5.as_ref() }.ok_or("no proving key in this sequence")?;
                match pool {
                    Pool::Orchard => Prover::new(p).create_orchard_proof(pk).map(|x| x.finish()).map_err(|x| e(&x)),
                    Pool::Ironwood => Prover::new(p).create_ironwood_proof(pk).map(|x| x.finish()).map_err(|x| e(&x)),
                }
            }
        }
    }
}

/// The projection of a PCZT that Trace_PcztRoles judges, and its decoded logical value.
fn project(p: &Pczt) -> Result<(J, V), String> {
    let bytes = guarded(|| p.clone().serialize()).map_err(|m| format!("serialize panicked: {m}"))?.map_err(|x| format!("serialize failed: {x:?}"))?;
    let (enc, l) = decode_pczt(&bytes).map_err(|x| format!("own decoder rejects the serialisation: {x}"))?;
    let own = canonical_bytes(&l) == bytes;
    let rt = match guarded(|| Pczt::parse(&bytes).ok().and_then(|q| q.serialize().ok())) {
        Ok(Some(b2)) => b2 == bytes,
        _ => false,
    };
    let txid = match guarded(|| pczt_txid(p)) {
        Ok(Ok(t)) => t.to_string(),
        Ok(Err(_)) => "err".into(),
        Err(_) => "panic".into(),
    };
    let tx = zip244::Tx::new(&l);
    let z244 = match tx.txid() {
        Some(mut t) => {
            t.reverse();
            hex(&t) == txid
        }
        None => true,
    };
    let sl = s_pczt(Form::Logical);
    let g = l.field(&sl, "global");
    let flags = g.field(&s_global(), "tx_modifiable").u();
    // public getters against the decoded value
    let gg = p.global();
    let get = *gg.tx_version() as u64 == g.field(&s_global(), "tx_version").u()
        && *gg.expiry_height() as u64 == g.field(&s_global(), "expiry_height").u()
        && gg.inputs_modifiable() == (flags & 1 != 0)
        && gg.outputs_modifiable() == (flags & 2 != 0)
        && gg.has_sighash_single() == (flags & 4 != 0)
        && gg.shielded_modifiable() == (flags & 128 != 0)
        && p.transparent().inputs().len() == at(&l, &P_TIN).seq().len()
        && p.transparent().outputs().len() == at(&l, &P_TOUT).seq().len()
        && p.orchard().actions().len() == at(&l, &P_ACT).seq().len()
        && gg.proprietary().len() == match g.field(&s_global(), "proprietary") { V::Map(m) => m.len(), _ => 0 }
        && p.orchard().anchor().map(|a| a.to_vec()) == l.field(&sl, "orchard").field(&s_orchard(Form::Logical), "anchor").opt().map(|v| v.bytes().to_vec())
        && p.ironwood().anchor().map(|a| a.to_vec()) == l.field(&sl, "ironwood").field(&s_orchard(Form::Logical), "anchor").opt().map(|v| v.bytes().to_vec())
        && p.ironwood().actions().len() == at(&l, &[Step::F(4), Step::F(0)]).seq().len()
        && p.sapling().spends().len() == at(&l, &[Step::F(2), Step::F(0)]).seq().len()
        && p.sapling().outputs().len() == at(&l, &[Step::F(2), Step::F(1)]).seq().len();
    // v1-representability through the public getters (not through the serialisation)
    let iw = p.ironwood();
    let iron = !(iw.actions().is_empty() && iw.anchor().is_none() && iw.zkproof().is_none() && *iw.flags() == 7 && *iw.value_sum() == (0, false))
        || *l.field(&sl, "ironwood") != empty_orchard(true);
    let o = p.orchard();
    let nv2 = *l.field(&sl, "orchard").field(&s_orchard(Form::Logical), "note_version") == V::Enum(0, Box::new(V::Rec(vec![])));
    let oanchor = o.anchor().is_some() || o.actions().is_empty();
    let sanchor = p.sapling().anchor().is_some() || p.sapling().spends().is_empty();
    let cvcmx = o.actions().iter().all(|a| a.cv_net().is_some() && a.output().cmx().is_some());
    let memo = o.actions().iter().all(|a| matches!(a.output().enc_ciphertext(), pczt::orchard::EncCiphertext::Encrypted(_)));
    // transparent signatures: present ones must verify under the own ZIP 244 digest
    let st = s_tin();
    let secp = secp256k1::Secp256k1::verification_only();
    let mut sigs = vec![];
    let mut sigok = true;
    let nin = at(&l, &P_TIN).seq().len();
    let nss = at(&l, &P_TIN).seq().iter().filter(|i| i.field(&st, "script_sig").opt().is_some()).count();
    for (i, inp) in at(&l, &P_TIN).seq().iter().enumerate() {
        if let V::Map(m) = inp.field(&st, "partial_signatures") {
            if !m.is_empty() {
                sigs.push(i as u64 + 1);
            }
            for (k, v) in m {
                let sig = v.bytes();
                let ht = inp.field(&st, "sighash_type").u() as u8;
                if let Some(d) = tx.transparent_sighash(i, ht) {
                    let ok = !sig.is_empty()
                        && sig[sig.len() - 1] == ht
                        && secp256k1::PublicKey::from_slice(k.bytes())
                            .ok()
                            .zip(secp256k1::ecdsa::Signature::from_der(&sig[..sig.len() - 1]).ok())
                            .is_some_and(|(pk, s)| secp.verify_ecdsa(&secp256k1::Message::from_digest(d), &s, &pk).is_ok());
                    sigok &= ok;
                }
            }
        }
    }
    let v6 = g.field(&s_global(), "tx_version").u() == 6;
    let mut mlens: Vec<u64> = vec![];
    for path in [P_ACT.to_vec(), vec![Step::F(4), Step::F(0)]] {
        for a in at(&l, &path).seq() {
            if let V::Enum(1, m) = a.field(&s_action(Form::Logical), "output").field(&s_ooutput(Form::Logical), "enc_ciphertext") {
                mlens.push(m.bytes().len() as u64);
            }
        }
    }
    Ok((
        json!({"flags": flags, "txid": txid, "enc": enc, "txv6": v6, "iron": iron, "nv2": nv2, "oanchor": oanchor, "sanchor": sanchor,
               "cvcmx": cvcmx, "memo": memo, "rt": rt, "own": own, "get": get, "z244": z244, "sigok": sigok, "sigs": sigs, "nin": nin, "nss": nss, "mlens": mlens}),
        l,
    ))
}

/// The v1 encoding has no absent Sapling anchor: on a bundle without spends the all-zero anchor and
/// the absent one are the same value (sapling.rs, `DEFAULT_ANCHOR`). Observed through the
/// serialisation they must not show up as a write.
fn observed_slots(l: &V) -> BTreeMap<String, (String, Slot)> {
    let mut m = slots_of(l);
    let no_spends = at(l, &[Step::F(2), Step::F(0)]).seq().is_empty();
    if let Some(e) = m.get_mut("sapling.anchor") {
        if no_spends && e.1 == Slot::Val(hex(&ZERO32)) {
            e.1 = Slot::Absent;
        }
    }
    m
}

fn changes(pre: &V, post: &V) -> Vec<J> {
    let (a, b) = (observed_slots(pre), observed_slots(post));
    let mut out: BTreeSet<(String, &'static str)> = BTreeSet::new();
    for k in a.keys().chain(b.keys()).collect::<BTreeSet<_>>() {
        let x = a.get(k);
        let y = b.get(k);
        let present = |s: Option<&(String, Slot)>| matches!(s, Some((_, Slot::Val(_))));
        let class = x.or(y).unwrap().0.clone();
        match (present(x), present(y)) {
            (false, true) => {
                out.insert((class, "add"));
            }
            (true, false) => {
                out.insert((class, "del"));
            }
            (true, true) if x.unwrap().1 != y.unwrap().1 => {
                out.insert((class, "mod"));
            }
            _ => {}
        }
    }
    out.into_iter().map(|(c, d)| json!({"c": c, "d": d})).collect()
}

/// Own count of the slots on which two copies have no upper bound (flat slots both present and
/// different, or an agreed-on slot that differs). `tx_modifiable` is judged by the trace spec.
fn conflicts(a: &V, b: &V) -> usize {
    let (x, y) = (observed_slots(a), observed_slots(b));
    let mut n = 0;
    for (k, (c, sa)) in &x {
        if c == "global.tx_modifiable" {
            continue;
        }
        match (sa, y.get(k).map(|s| &s.1)) {
            (Slot::Val(p), Some(Slot::Val(q))) if p != q => n += 1,
            _ => {}
        }
    }
    // an optional effect the other side lacks (fallback_lock_time: None vs Some) is a conflict too
    let lock = |l: &V| at(l, &P_LOCK).clone();
    if lock(a) != lock(b) && (lock(a) == none() || lock(b) == none()) {
        n += 1;
    }
    n
}

fn list_len(l: &V, list: &str) -> usize {
    match list {
        "tin" => at(l, &P_TIN).seq().len(),
        "tout" => at(l, &P_TOUT).seq().len(),
        "orchard" => at(l, &P_ACT).seq().len(),
        "ironwood" => at(l, &[Step::F(4), Step::F(0)]).seq().len(),
        "sspend" => at(l, &[Step::F(2), Step::F(0)]).seq().len(),
        "soutput" => at(l, &[Step::F(2), Step::F(1)]).seq().len(),
        _ => 0,
    }
}

/// A variant of the transparent base: per-input sighash types, an input that requires a lock time,
/// modifiable flags -- set through the encoding on the Creator's output, before IO finalisation.
fn vary_transparent(base: &Base, rng: &mut ChaCha20Rng) -> Base {
    let mut l = logical_of(&base.pre);
    let st = s_tin();
    let S::Rec(names) = &st else { unreachable!() };
    let pos = |n: &str| names.iter().position(|(x, _)| *x == n).unwrap();
    let n_in = at(&l, &P_TIN).seq().len();
    for i in 0..n_in {
        let ht = *[1u8, 1, 2, 3, 0x81, 0x82, 0x83].choose(rng).unwrap();
        let V::Rec(fs) = at_mut(&mut l, &[Step::F(1), Step::F(0), Step::I(i)]) else { unreachable!() };
        fs[pos("sighash_type")] = V::U(ht as u64);
        if rng.gen_bool(0.4) {
            fs[pos("sequence")] = some(V::U(0xffff_fffe));
            if rng.gen_bool(0.5) {
                fs[pos("required_height_lock_time")] = some(V::U(rng.gen_range(1..400_000_000)));
            } else {
                fs[pos("required_time_lock_time")] = some(V::U(rng.gen_range(500_000_000..1_700_000_000)));
            }
        }
    }
    // the Creator of a PCZT that is still being constructed sets the modifiable bits
    let any_single = at(&l, &P_TIN).seq().iter().any(|i| i.field(&st, "sighash_type").u() & 0x7f == 3);
    *at_mut(&mut l, &P_FLAGS) = V::U(*[0x83u64, 0x83, 0x03, 0x81, 0x00].choose(rng).unwrap() | if any_single { 4 } else { 0 });
    if rng.gen_bool(0.3) {
        *at_mut(&mut l, &P_LOCK) = if rng.gen_bool(0.5) { none() } else { some(V::U(rng.gen_range(1..1000))) };
    }
    // inputs that name different kinds of lock time cannot be combined in one transaction
    if zip244::Tx::new(&l).lock_time().is_none() {
        return vary_transparent(base, rng);
    }
    let pre = Pczt::parse(&canonical_bytes(&l)).expect("variant parses");
    let pczt = IoFinalizer::new(pre.clone()).finalize_io().expect("io finalizer");
    Base { name: base.name, pre, pczt, tkeys: base.tkeys.clone(), orchard_ask: None, ironwood_ask: None, sapling_ask: None, deferred: None }
}

fn pick_op(rng: &mut ChaCha20Rng, base: &Base, reds: &[RedactDef], l: &V, ncopies: usize, me: usize, keys: &ProvingKeys) -> Op {
    let n_in = list_len(l, "tin");
    let n_out = list_len(l, "tout");
    let n_act = list_len(l, "orchard");
    let n_iw = list_len(l, "ironwood");
    let (n_ss, n_so) = (list_len(l, "sspend"), list_len(l, "soutput"));
    let compact = {
        let (sa, so) = (s_action(Form::Logical), s_ooutput(Form::Logical));
        [P_ACT.to_vec(), vec![Step::F(4), Step::F(0)]].iter().any(|p| {
            at(l, p).seq().iter().any(|a| {
                a.field(&sa, "cv_net").opt().is_none()
                    || a.field(&sa, "output").field(&so, "cmx").opt().is_none()
                    || !matches!(a.field(&sa, "output").field(&so, "enc_ciphertext"), V::Enum(0, _))
            })
        })
    };
    let v6 = at(l, &[Step::F(0), Step::F(0)]).u() == 6;
    loop {
        let tag = rng.gen_range(1..=2u8);
        let op = match rng.gen_range(0..20) {
            0 => Op::UpdGlobal { tag },
            1 | 2 if n_in > 0 => Op::UpdTin { i: rng.gen_range(0..n_in), f: rng.gen_range(0..6), tag },
            3 if n_out > 0 => Op::UpdTout { j: rng.gen_range(0..n_out), f: rng.gen_range(0..3), tag },
            4 if n_act > 0 => Op::UpdAct { pool: Pool::Orchard, i: rng.gen_range(0..n_act), f: rng.gen_range(0..5), tag },
            4 | 5 if n_iw > 0 => Op::UpdAct { pool: Pool::Ironwood, i: rng.gen_range(0..n_iw), f: rng.gen_range(0..5), tag },
            5..=8 if n_in > 0 => Op::SignT { i: rng.gen_range(0..n_in) },
            6 | 7 if base.orchard_ask.is_some() => Op::SignAct { pool: Pool::Orchard },
            6 | 7 if base.sapling_ask.is_some() => Op::SignSap,
            1 | 2 if n_ss > 0 => Op::UpdSap { spend: true, i: rng.gen_range(0..n_ss), f: rng.gen_range(0..2), tag },
            3 | 4 if n_so > 0 => Op::UpdSap { spend: false, i: rng.gen_range(0..n_so), f: rng.gen_range(0..3), tag },
            9..=11 => {
                // a redaction that applies to this PCZT
                let applicable: Vec<usize> = (0..reds.len())
                    .filter(|r| {
                        let d = &reds[*r];
                        if !d.list.is_empty() && list_len(l, d.list) == 0 {
                            return false;
                        }
                        // (documented preconditions) a compact field can only be re-derived while its note
                        // fields are there; anchors are authorising data only in a v6 transaction
                        if (d.note_field && compact) || (d.class.ends_with(".anchor") && !v6) {
                            return false;
                        }
                        // "`rho` must be provided whenever `rseed` is provided" (orchard crate): rho goes
                        // only after rseed
                        if d.class.ends_with("spend.rho") {
                            let pool_path: Vec<Step> = if d.list == "orchard" { P_ACT.to_vec() } else { vec![Step::F(4), Step::F(0)] };
                            let (sa, sp) = (s_action(Form::Logical), s_ospend(Form::Logical));
                            if at(l, &pool_path).seq().iter().any(|a| a.field(&sa, "spend").field(&sp, "rseed").opt().is_some()) {
                                return false;
                            }
                        }
                        true
                    })
                    .collect();
                let r = *applicable.choose(rng).expect("some redaction applies");
                let d = &reds[r];
                let n = list_len(l, d.list);
                Op::Redact { r, idx: if d.list.is_empty() || rng.gen_bool(0.3) { None } else { Some(rng.gen_range(0..n)) } }
            }
            12 if n_act > 0 => Op::Compact { pool: Pool::Orchard },
            12 if n_iw > 0 => Op::Compact { pool: Pool::Ironwood },
            13 if n_act + n_iw > 0 => Op::Resolve,
            14 => Op::Verify { which: rng.gen_range(0..4) },
            15 if n_in > 0 => Op::Finalize,
            16 | 17 if ncopies > 1 => {
                let from = (me + rng.gen_range(1..ncopies)) % ncopies;
                Op::Combine { from }
            }
            18 => Op::Reparse,
            19 if base.deferred.is_some() => match rng.gen_range(0..3) {
                0 => Op::SetAnchor { pool: Pool::Orchard },
                1 => Op::SetAnchor { pool: Pool::Ironwood },
                _ => Op::SetWitness,
            },
            19 if have_proof_keys(keys) && n_act > 0 && !v6 => Op::Prove { pool: Pool::Orchard },
            19 if have_proof_keys(keys) && n_ss > 0 => Op::ProveSap,
            _ => continue,
        };
        return op;
    }
}

fn event(a: &str, cp: usize, arg: &str, oc: &str, pre: &J, post: &J, ch: Vec<J>) -> J {
    json!({"a": a, "cp": cp, "arg": arg, "i": 0, "ht": 0, "oc": oc, "pre": pre, "post": post, "ch": ch,
           "oflags": 0, "ncf": 0, "noop": false, "txid_tx": "", "fields": true, "op": ""})
}

/// Own comparison of an extracted transaction with the effect slots of the PCZT it came from.
fn tx_matches_effects(tx: &zcash_primitives::transaction::Transaction, l: &V) -> bool {
    let z = zip244::Tx::new(l);
    let st = s_tin();
    let so = s_tout();
    let mut ok = Some(tx.lock_time()) == z.lock_time()
        && u32::from(tx.expiry_height()) as u64 == at(l, &[Step::F(0), Step::F(4)]).u();
    let (ins, outs) = (at(l, &P_TIN).seq(), at(l, &P_TOUT).seq());
    match tx.transparent_bundle() {
        None => ok &= ins.is_empty() && outs.is_empty(),
        Some(b) => {
            ok &= b.vin.len() == ins.len() && b.vout.len() == outs.len();
            for (txin, i) in b.vin.iter().zip(ins) {
                ok &= txin.prevout().hash()[..] == *i.field(&st, "prevout_txid").bytes()
                    && txin.prevout().n() as u64 == i.field(&st, "prevout_index").u()
                    && txin.sequence() as u64 == i.field(&st, "sequence").opt().map(|v| v.u()).unwrap_or(0xffff_ffff);
            }
            for (txout, o) in b.vout.iter().zip(outs) {
                ok &= u64::from(txout.value()) == o.field(&so, "value").u()
                    && txout.script_pubkey().0.0 == o.field(&so, "script_pubkey").bytes();
            }
        }
    }
    ok &= tx.orchard_bundle().map(|b| b.actions().len()).unwrap_or(0) == at(l, &P_ACT).seq().len();
    ok
}

/// One sequence: io-finalise, fork, random roles on the copies, final combine + sign + finalise + extract.
fn run_sequence(w: &mut NdjsonWriter, rng: &mut ChaCha20Rng, base: &Base, reds: &[RedactDef], keys: &ProvingKeys, steps: usize, memo_variant: bool, ops_log: &mut Vec<J>, stats: &mut BTreeMap<String, usize>) -> Result<(), String> {
    let ncopies = 3;
    let (pre_j, pre_l) = project(&base.pre)?;
    let (post_j, post_l) = project(&base.pczt)?;
    let mut ev = event("io_finalize", 0, base.name, "ok", &pre_j, &post_j, changes(&pre_l, &post_l));
    let shielded = list_len(&pre_l, "orchard") + list_len(&pre_l, "ironwood") + list_len(&pre_l, "sspend") + list_len(&pre_l, "soutput") > 0;
    ev["i"] = json!(if shielded { 1 } else { 0 });
    ev["ht"] = json!(ncopies);
    w.emit(&ev);
    let mut copies: Vec<Pczt> = vec![base.pczt.clone(); ncopies];
    let mut proj: Vec<(J, V)> = vec![(post_j, post_l); ncopies];
    // copy 0 is the coordinator's: it is never redacted, so the final combination has everything
    // every other shielded sequence compacts one of the other copies at some point, and expands it later
    // (the memos the caller chose are on the Ironwood outputs where there are any)
    let shielded_pool = if list_len(&proj[0].1, "ironwood") > 0 { Some(Pool::Ironwood) } else if list_len(&proj[0].1, "orchard") > 0 { Some(Pool::Orchard) } else { None };
    let forced = if shielded_pool.is_some() && (memo_variant || rng.gen_bool(0.5)) {
        // a base built with a boundary memo is compacted right away (before any redaction can take the
        // note fields the compaction needs), so that the memo plaintext form of that length is exercised
        Some((if memo_variant { 0 } else { rng.gen_range(0..steps) }, rng.gen_range(1..ncopies)))
    } else {
        None
    };
    for step in 0..steps {
        if let Some((at_step, c)) = forced {
            if step == at_step {
                apply_logged(w, base, reds, keys, &mut copies, &mut proj, c, &Op::Compact { pool: shielded_pool.unwrap() }, ops_log, stats)?;
            }
        }
        let me = rng.gen_range(0..ncopies);
        let mut op = pick_op(rng, base, reds, &proj[me].1, ncopies, me, keys);
        if me == 0 && matches!(op, Op::Redact { .. } | Op::Compact { .. }) {
            op = Op::Reparse;
        }
        apply_logged(w, base, reds, keys, &mut copies, &mut proj, me, &op, ops_log, stats)?;
    }
    if let Some((_, c)) = forced {
        apply_logged(w, base, reds, keys, &mut copies, &mut proj, c, &Op::Resolve, ops_log, stats)?;
    }
    // closing: bring everything into copy 0, complete the signatures, finalise, extract
    let mut closing: Vec<Op> = (1..ncopies).map(|c| Op::Combine { from: c }).collect();
    if base.deferred.is_some() {
        closing.extend([Op::SetAnchor { pool: Pool::Orchard }, Op::SetAnchor { pool: Pool::Ironwood }, Op::SetWitness]);
    }
    closing.push(Op::Resolve);
    for i in 0..base.tkeys.len() {
        closing.push(Op::SignT { i });
    }
    if base.orchard_ask.is_some() {
        closing.push(Op::SignAct { pool: Pool::Orchard });
    }
    if base.sapling_ask.is_some() {
        closing.push(Op::SignSap);
    }
    if have_proof_keys(keys) {
        // (a proof already brought in by a Combine is kept: the Prover is run only where one is missing)
        let missing = |l: &V, b: usize| at(l, &[Step::F(b), Step::F(0)]).seq().len() > 0 && at(l, &[Step::F(b), Step::F(5)]).opt().is_none();
        if missing(&proj[0].1, 3) {
            closing.push(Op::Prove { pool: Pool::Orchard });
        }
        if missing(&proj[0].1, 4) {
            closing.push(Op::Prove { pool: Pool::Ironwood });
        }
        let (ssp, sso) = (s_sspend(), s_soutput());
        if at(&proj[0].1, &[Step::F(2), Step::F(0)]).seq().iter().any(|x| x.field(&ssp, "zkproof").opt().is_none())
            || at(&proj[0].1, &[Step::F(2), Step::F(1)]).seq().iter().any(|x| x.field(&sso, "zkproof").opt().is_none())
        {
            closing.push(Op::ProveSap);
        }
    }
    if !base.tkeys.is_empty() {
        closing.push(Op::Finalize);
    }
    // (a copy that conflicts is left out: copy 0 is completed by the remaining steps on its own)
    let mut all_ok = true;
    for op in closing {
        let ok = apply_logged(w, base, reds, keys, &mut copies, &mut proj, 0, &op, ops_log, stats)?;
        if !matches!(op, Op::Combine { .. }) {
            all_ok &= ok;
        }
    }
    let needs_proof = list_len(&proj[0].1, "orchard") + list_len(&proj[0].1, "ironwood") + list_len(&proj[0].1, "sspend") + list_len(&proj[0].1, "soutput") > 0;
    let have_proof = have_proof_keys(keys);
    if all_ok && (!needs_proof || have_proof) {
        let p = copies[0].clone();
        let (pj, pl) = (&proj[0].0, &proj[0].1);
        let mut ev = event("extract", 1, "", "ok", pj, pj, vec![]);
        let svk = keys.sapling.as_ref().map(|s| s.verifying_keys());
        let v6 = *p.global().tx_version() == 6;
        match guarded(|| {
            let mut ex = TransactionExtractor::new(p);
            if let Some(vk) = if v6 { keys.vk6.as_ref() } else { keys.vk5.as_ref() } {
                ex = ex.with_orchard(vk);
            }
            if let Some((a, b)) = svk.as_ref() {
                ex = ex.with_sapling(a, b);
            }
            ex.extract()
        }) {
            Ok(Ok(tx)) => {
                ev["txid_tx"] = json!(tx.txid().to_string());
                let own = zip244::Tx::new(pl).txid().map(|mut t| {
                    t.reverse();
                    hex(&t)
                });
                ev["fields"] = json!(tx_matches_effects(&tx, pl) && own.map(|o| o == tx.txid().to_string()).unwrap_or(true));
                *stats.entry("extracted".into()).or_insert(0) += 1;
            }
            Ok(Err(e)) => {
                ev["oc"] = json!("err");
                ev["op"] = json!(format!("{e:?}"));
                *stats.entry("extract_refused".into()).or_insert(0) += 1;
            }
            Err(m) => {
                ev["oc"] = json!("panic");
                ev["op"] = json!(m);
            }
        }
        w.emit(&ev);
    } else {
        *stats.entry("not_extractable".into()).or_insert(0) += 1;
    }
    Ok(())
}

/// Applies one op to copy `me`, logs the event. Returns whether the role succeeded.
fn apply_logged(w: &mut NdjsonWriter, base: &Base, reds: &[RedactDef], keys: &ProvingKeys, copies: &mut [Pczt], proj: &mut [(J, V)], me: usize, op: &Op, ops_log: &mut Vec<J>, stats: &mut BTreeMap<String, usize>) -> Result<bool, String> {
    let (role, arg) = op.role(reds);
    ops_log.push(json!({"cp": me, "op": op.describe()}));
    let p = copies[me].clone();
    let others: Vec<Pczt> = copies.to_vec();
    let res = guarded(|| op.apply(base, reds, keys, p, &others));
    let (pre_j, pre_l) = proj[me].clone();
    let mut ev = event(role, me + 1, &arg, "ok", &pre_j, &pre_j, vec![]);
    ev["op"] = op.describe();
    if let Op::SignT { i } = op {
        ev["i"] = json!(*i + 1);
        ev["ht"] = json!(at(&pre_l, &[Step::F(1), Step::F(0), Step::I(*i)]).field(&s_tin(), "sighash_type").u());
    }
    if let Op::Combine { from } = op {
        ev["oflags"] = json!(proj[*from].0["flags"]);
        ev["ncf"] = json!(conflicts(&pre_l, &proj[*from].1));
    }
    *stats.entry(format!("{role}")).or_insert(0) += 1;
    let ok = match res {
        Ok(Ok(q)) => {
            let (post_j, post_l) = project(&q)?;
            ev["post"] = post_j.clone();
            let ch = changes(&pre_l, &post_l);
            ev["noop"] = json!(ch.is_empty());
            ev["ch"] = json!(ch);
            copies[me] = q;
            proj[me] = (post_j, post_l);
            true
        }
        Ok(Err(e)) => {
            ev["oc"] = json!(if e == "conflict" { "conflict" } else { "err" });
            *stats.entry(format!("{role}:{}", if e == "conflict" { "conflict" } else { "err" })).or_insert(0) += 1;
            false
        }
        Err(m) => {
            ev["oc"] = json!("panic");
            ev["op"] = json!(format!("{op:?}: {m}"));
            false
        }
    };
    w.emit(&ev);
    Ok(ok)
}


// ---- merge cases with parties made by REAL role applications --------------------------------------

enum Realise {
    /// Updater: abstract value v (1 or 2) -> the op that writes it
    Upd(Box<dyn Fn(u8) -> Op>),
    /// Signer on a transparent input: one value (ECDSA, RFC 6979)
    SignT(usize),
    /// Signer on a shielded spend: every signing event yields another value; a value is carried to
    /// another copy with Signer::apply_orchard_spend_auth_signature
    SignRandom(Pool, usize),
    /// a slot the base carries: 0 = cleared by the Redactor, 1 = kept
    RedactOnly(usize, Option<usize>),
}

struct RoleSlot {
    target: Target,
    how: Realise,
    /// the Redactor call (definition, item index) that clears this slot again
    undo: Option<(usize, Option<usize>)>,
}

fn role_slots(base: &Base, base_l: &V, reds: &[RedactDef]) -> Vec<RoleSlot> {
    let (flat, _) = catalogue(base_l);
    let find = |name: &str| flat.iter().find(|t| t.name == name).cloned();
    let mut v: Vec<RoleSlot> = vec![];
    let mut upd = |name: String, f: Box<dyn Fn(u8) -> Op>| {
        if let Some(t) = find(&name) {
            // the redaction of the same class, at the item the slot belongs to
            let idx = name.find('[').and_then(|a| name[a + 1..].find(']').map(|b| name[a + 1..a + 1 + b].parse::<usize>().expect("index")));
            let undo = reds.iter().position(|d| d.class == t.class).map(|r| (r, idx));
            v.push(RoleSlot { target: t, how: Realise::Upd(f), undo })
        } else {
            panic!("no target {name}")
        }
    };
    upd("global.proprietary{key0}".into(), Box::new(|tag| Op::UpdGlobal { tag }));
    for i in 0..list_len(base_l, "tin") {
        upd(format!("transparent.inputs[{i}].proprietary{{key0}}"), Box::new(move |tag| Op::UpdTin { i, f: 0, tag }));
        upd(format!("transparent.inputs[{i}].bip32_derivation{{key0}}"), Box::new(move |tag| Op::UpdTin { i, f: 1, tag }));
    }
    for j in 0..list_len(base_l, "tout") {
        upd(format!("transparent.outputs[{j}].proprietary{{key0}}"), Box::new(move |tag| Op::UpdTout { j, f: 0, tag }));
        upd(format!("transparent.outputs[{j}].user_address"), Box::new(move |tag| Op::UpdTout { j, f: 1, tag }));
        upd(format!("transparent.outputs[{j}].bip32_derivation{{key1}}"), Box::new(move |tag| Op::UpdTout { j, f: 2, tag }));
    }
    for (pool, list) in [(Pool::Orchard, "orchard"), (Pool::Ironwood, "ironwood")] {
        for i in 0..list_len(base_l, list).min(1) {
            for (f, field) in [(0u8, "spend.proprietary{key0}"), (1, "output.proprietary{key0}"), (2, "output.user_address"), (3, "spend.zip32_derivation"), (4, "output.zip32_derivation")] {
                upd(format!("{list}.actions[{i}].{field}"), Box::new(move |tag| Op::UpdAct { pool, i, f, tag }));
            }
        }
    }
    for i in 0..list_len(base_l, "sspend").min(1) {
        upd(format!("sapling.spends[{i}].proprietary{{key0}}"), Box::new(move |tag| Op::UpdSap { spend: true, i, f: 0, tag }));
        upd(format!("sapling.spends[{i}].zip32_derivation"), Box::new(move |tag| Op::UpdSap { spend: true, i, f: 1, tag }));
    }
    for i in 0..list_len(base_l, "soutput").min(1) {
        upd(format!("sapling.outputs[{i}].proprietary{{key0}}"), Box::new(move |tag| Op::UpdSap { spend: false, i, f: 0, tag }));
        upd(format!("sapling.outputs[{i}].zip32_derivation"), Box::new(move |tag| Op::UpdSap { spend: false, i, f: 1, tag }));
        upd(format!("sapling.outputs[{i}].user_address"), Box::new(move |tag| Op::UpdSap { spend: false, i, f: 2, tag }));
    }
    // transparent signatures: the entry of the input's own public key
    let st = s_tin();
    let S::Rec(names) = &st else { unreachable!() };
    let ps = names.iter().position(|(n, _)| *n == "partial_signatures").unwrap();
    let secp = secp256k1::Secp256k1::signing_only();
    for (i, sk) in base.tkeys.iter().enumerate() {
        v.push(RoleSlot {
            target: Target {
                name: format!("transparent.inputs[{i}].partial_signatures{{own key}}"),
                class: "transparent.inputs[].partial_signatures{}".into(),
                path: vec![Step::F(1), Step::F(0), Step::I(i), Step::F(ps)],
                kind: Kind::Entry(V::B(sk.public_key(&secp).serialize().to_vec()), S::Fixed(33)),
                schema: S::Var,
            },
            how: Realise::SignT(i),
            undo: None,
        });
    }
    if let Some((i, _)) = &base.orchard_ask {
        v.push(RoleSlot { target: find(&format!("orchard.actions[{i}].spend.spend_auth_sig")).expect("sig slot"), how: Realise::SignRandom(Pool::Orchard, *i), undo: None });
    }
    // everything the Redactor can clear and the base carries (optional fields; one item at a time)
    for (r, d) in reds.iter().enumerate() {
        // (anchors: effecting data of a v5 transaction; and the v1 encoding cannot show an absent
        // Sapling anchor)
        // (and "`rho` must be provided whenever `rseed` is provided", orchard crate: rho is not cleared alone)
        if d.class.ends_with("{}") || d.class == "sapling.anchor" || d.class.ends_with("spend.rho") || (d.class.ends_with(".anchor") && base.deferred.is_none()) {
            continue;
        }
        if d.list.is_empty() {
            if let Some(t) = find(&d.class) {
                if read_flat(base_l, &t).is_some() {
                    v.push(RoleSlot { target: t, how: Realise::RedactOnly(r, None), undo: None });
                }
            }
        } else {
            // one item per list: the real spend's action where there is one, else the first
            let n = list_len(base_l, d.list);
            let pick = if d.list == "orchard" { base.orchard_ask.as_ref().map(|(k, _)| *k).unwrap_or(0) } else { 0 };
            for i in (0..n).filter(|i| *i == pick) {
                let name = d.class.replacen("[]", &format!("[{i}]"), 1);
                if let Some(t) = find(&name) {
                    if read_flat(base_l, &t).is_some() && !(name.ends_with("spend_auth_sig") && base.orchard_ask.as_ref().is_some_and(|(k, _)| *k == i)) {
                        v.push(RoleSlot { target: t, how: Realise::RedactOnly(r, Some(i)), undo: None });
                    }
                }
            }
        }
    }
    v
}

/// Builds the parties of a case with real roles. Ok(None): some abstract value cannot be produced by
/// a role (the case is skipped under this binding).
fn role_parties(base: &Base, base_l: &V, reds: &[RedactDef], case: &J, bound: &BTreeMap<String, &RoleSlot>, st: &mut MergeStats) -> Result<Option<(Vec<Pczt>, Option<(V, Vec<u8>)>)>, J> {
    let keys = ProvingKeys::none();
    let ps = case["ps"].as_array().unwrap();
    // realisability
    for p in ps {
        for (slot, abs) in jmap(&p["opt"]) {
            let ok = match (&bound[&slot].how, abs) {
                (Realise::Upd(_), _) => true,
                (Realise::SignT(_), a) => a <= 1,
                (Realise::SignRandom(..), _) => true,
                (Realise::RedactOnly(..), a) => a <= 1,
            };
            if !ok {
                return Ok(None);
            }
        }
    }
    // donors of randomised signatures, one signing event per abstract value
    let mut donors: BTreeMap<(String, u64), pczt::roles::signer::SpendAuthSignature> = BTreeMap::new();
    let fail = |what: String| json!({"what": "a role refused while the parties were made", "error": what});
    let mut parties = vec![];
    let mut logical = vec![];
    for (pi, p) in ps.iter().enumerate() {
        let mut q = base.pczt.clone();
        let mut later: Vec<Op> = vec![];
        for (slot, abs) in jmap(&p["opt"]) {
            let rs = bound[&slot];
            match (&rs.how, abs) {
                (Realise::Upd(f), a) if a > 0 => q = guarded(|| f(a as u8).apply(base, reds, &keys, q, &[])).map_err(|m| fail(m))?.map_err(fail)?,
                // an empty slot: never written -- or (every other party) written and redacted again
                (Realise::Upd(f), 0) if rs.undo.is_some() && pi % 2 == 1 => {
                    q = guarded(|| f(1).apply(base, reds, &keys, q, &[])).map_err(|m| fail(m))?.map_err(fail)?;
                    let (r, idx) = rs.undo.unwrap();
                    later.push(Op::Redact { r, idx });
                }
                (Realise::SignT(i), 1) => q = guarded(|| Op::SignT { i: *i }.apply(base, reds, &keys, q, &[])).map_err(|m| fail(m))?.map_err(fail)?,
                (Realise::SignRandom(pool, i), a) if a > 0 => {
                    let key = (slot.clone(), a);
                    if !donors.contains_key(&key) {
                        let d = Op::SignAct { pool: *pool }.apply(base, reds, &keys, base.pczt.clone(), &[]).map_err(fail)?;
                        let sig = pczt::roles::signer::extract_orchard_spend_auth_signatures(&d)
                            .into_iter()
                            .find(|s| s.action_index() == *i && s.value_pool() == match pool { Pool::Orchard => orchard::ValuePool::Orchard, Pool::Ironwood => orchard::ValuePool::Ironwood })
                            .ok_or_else(|| fail("signature not found in the signed copy".into()))?;
                        donors.insert(key.clone(), sig);
                    }
                    let sig = donors[&key].clone();
                    q = guarded(|| {
                        let mut s = Signer::new(q).map_err(|e| format!("{e:?}"))?;
                        s.apply_orchard_spend_auth_signature(&sig).map_err(|e| format!("{e:?}"))?;
                        Ok::<_, String>(s.finish())
                    })
                    .map_err(|m| fail(m))?
                    .map_err(fail)?;
                }
                (Realise::RedactOnly(r, idx), 0) => later.push(Op::Redact { r: *r, idx: *idx }),
                _ => {}
            }
        }
        for op in later {
            q = op.apply(base, reds, &keys, q, &[]).map_err(fail)?;
        }
        logical.push(logical_of(&q));
        parties.push(q);
    }
    // the concrete value behind each abstract value: whatever the role wrote (the same for every party)
    let mut concrete: BTreeMap<(String, u64), V> = BTreeMap::new();
    for (p, l) in ps.iter().zip(&logical) {
        for (slot, abs) in jmap(&p["opt"]) {
            let got = read_flat(l, &bound[&slot].target);
            match (abs, got) {
                (0, None) => {}
                (a, Some(v)) if a > 0 => {
                    if let Some(prev) = concrete.insert((slot.clone(), a), v.clone()) {
                        if prev != v {
                            return Err(json!({"what": "one role application, two different values (determinism expected)", "slot": bound[&slot].target.name}));
                        }
                    }
                }
                (a, g) => {
                    return Err(json!({"what": "the role did not leave the slot as intended", "slot": bound[&slot].target.name, "abstract": a, "present": g.is_some()}));
                }
            }
        }
    }
    let want = if case["out"]["ok"].as_bool().unwrap() {
        let mut l = base_l.clone();
        for (slot, abs) in jmap(&case["out"]["v"]["opt"]) {
            let v = if abs == 0 {
                None
            } else {
                match concrete.get(&(slot.clone(), abs)) {
                    Some(v) => Some(v.clone()),
                    None => return Err(json!({"what": "the predicted join carries a value no party has", "slot": bound[&slot].target.name})),
                }
            };
            write_flat(&mut l, &bound[&slot].target, v);
        }
        let bytes = canonical_bytes(&l);
        st.joins_predicted += 1;
        st.results.insert(digest16(&bytes));
        if bytes[4] == 1 { st.v1 += 1 } else { st.v2 += 1 }
        Some((l, bytes))
    } else {
        st.conflicts_predicted += 1;
        None
    };
    st.cases += 1;
    Ok(Some((parties, want)))
}


/// Re-executes one recorded merge case (replay file written by checks/c13.py).
fn cmd_rerun(path: &str) {
    let rep: J = serde_json::from_str(&std::fs::read_to_string(path).expect("read replay")).expect("json");
    let seed = rep["seed"].as_u64().unwrap_or(1);
    if rep["kind"] == "grow" {
        let trees: Vec<Vec<u64>> = rep["trees"].as_array().unwrap().iter().map(|x| x.as_array().unwrap().iter().map(|y| y.as_u64().unwrap()).collect()).collect();
        let bases = grow_bases_for(seed);
        let gb = bases.iter().find(|b| b.name == rep["base"].as_str().unwrap()).expect("growth base");
        let mut st = MergeStats::default();
        let res = run_grow_case(gb, &rep["case"], &trees, rep["idx"].as_u64().unwrap_or(0) as usize, &mut st);
        println!("{}", json!({"mismatch": res}));
        return;
    }
    let bases = bases_for(rep["tier"].as_str().unwrap_or("quick"), seed);
    let base = bases.iter().find(|b| b.name == rep["base"].as_str().unwrap()).expect("base");
    let base_l = logical_of(&base.pczt);
    let case = &rep["case"];
    let trees: Vec<Vec<u64>> = rep["trees"].as_array().unwrap().iter().map(|x| x.as_array().unwrap().iter().map(|y| y.as_u64().unwrap()).collect()).collect();
    let mut st = MergeStats::default();
    let res = if rep["kind"] == "codec" {
        codec_checks(base, &base_l).into_iter().next()
    } else if rep["kind"] == "merge" {
        let (flat, eq) = catalogue(&base_l);
        let mut b = Binding::default();
        for (k, v) in rep["binding"]["opt"].as_object().unwrap() {
            b.opt.insert(k.clone(), flat.iter().find(|t| t.name == v.as_str().unwrap()).expect("target").clone());
        }
        for (k, v) in rep["binding"]["eq"].as_object().unwrap() {
            b.eq.insert(k.clone(), eq.iter().find(|t| t.name == v.as_str().unwrap()).expect("target").clone());
        }
        b.variant = rep["binding"]["variant"].as_u64().unwrap_or(0) as usize;
        run_case(&base_l, case, &b, &trees, rep["idx"].as_u64().unwrap_or(0) as usize, &mut st)
    } else {
        let reds = redactions();
        let slots = role_slots(base, &base_l, &reds);
        let mut bound: BTreeMap<String, &RoleSlot> = BTreeMap::new();
        for (k, v) in rep["binding"]["roles"].as_object().unwrap() {
            bound.insert(k.clone(), slots.iter().find(|t| t.target.name == v.as_str().unwrap()).expect("role slot"));
        }
        match role_parties(base, &base_l, &reds, case, &bound, &mut st) {
            Ok(Some((parties, want))) => execute_trees(&parties, &want, &trees, &mut st),
            Ok(None) => None,
            Err(m) => Some(m),
        }
    };
    println!("{}", json!({"mismatch": res}));
}

fn cmd_roles(trace_path: &str, nseq: usize, tier: &str) {
    let seed = seed_from_env();
    let mut rng = ChaCha20Rng::seed_from_u64(seed.wrapping_mul(0x9E37_79B9).wrapping_add(13));
    let reds = redactions();
    let keys = ProvingKeys::build();
    let no_keys = ProvingKeys::none();
    // proofs: every shielded sequence in the thorough tier, the first one per shielded base otherwise
    let mut proven: BTreeMap<&'static str, usize> = BTreeMap::new();
    let mut memo_rot: BTreeMap<usize, usize> = BTreeMap::new();
    let bases = bases_for(tier, seed);
    let mut w = NdjsonWriter::create(trace_path);
    let mut stats: BTreeMap<String, usize> = BTreeMap::new();
    let mut seqs = vec![];
    let mut failure: Option<J> = None;
    for sidx in 0..nseq {
        // mostly the transparent base (extractable without proofs), in many variants
        let which = if tier == "thorough" { sidx % 5 } else { [0, 0, 0, 1, 0, 2, 0, 3, 0, 4][sidx % 10] };
        let varied;
        let mut memo_variant = false;
        let base = if which == 0 {
            varied = vary_transparent(&bases[0], &mut rng);
            &varied
        } else if which <= 3 {
            // the shielded outputs' memo walks the boundaries of the stripped-memo length
            let k = {
                let n = memo_rot.entry(which).or_insert(0usize);
                *n += 1;
                (*n - 1) % MEMO_KINDS
            };
            memo_variant = true;
            varied = match which {
                1 => base_t2o_memo(seed, k),
                2 => base_o2o_memo(seed, k),
                _ => base_o2i_memo(seed, k),
            };
            &varied
        } else {
            &bases[which]
        };
        let steps = if which == 0 { rng.gen_range(4..14) } else { rng.gen_range(3..9) };
        let mut ops_log = vec![];
        let start = w.1;
        let with_proofs = which != 0 && {
            let n = proven.entry(base.name).or_insert(0);
            *n += 1;
            tier == "thorough" || *n <= 1
        };
        if let Err(e) = run_sequence(&mut w, &mut rng, base, &reds, if with_proofs { &keys } else { &no_keys }, steps, memo_variant, &mut ops_log, &mut stats) {
            failure = Some(json!({"sequence": sidx, "base": base.name, "what": e, "ops": ops_log}));
            break;
        }
        seqs.push(json!({"first": start + 1, "last": w.1, "base": base.name, "ops": ops_log}));
    }
    let n = w.finish();
    println!("{}", json!({"events": n, "sequences": seqs.len(), "stats": stats, "failure": failure, "seqs": seqs}));
}

fn main() {
    quiet_panics();
    let args: Vec<String> = std::env::args().collect();
    match args.get(1).map(|s| s.as_str()) {
        Some("probe") => probe(),
        Some("probe_bsk") => probe_bsk(),
        Some("probe_prove") => probe_prove(),
        Some("rerun") => cmd_rerun(&args[2]),
        Some("roles") => cmd_roles(&args[2], args[3].parse().expect("n"), args.get(4).map(|s| s.as_str()).unwrap_or("quick")),
        Some("probe_lock") => probe_lock(),
        Some("merge") => cmd_merge(&args[2], args.get(3).map(|s| s.as_str()).unwrap_or("quick")),
        _ => {
            eprintln!("usage: c13_replay probe|merge|roles|rerun ...");
            std::process::exit(2);
        }
    }
}

fn probe_bsk() {
    let b = base_transparent(1);
    let redacted = Redactor::new(b.pczt.clone()).redact_sapling_with(|mut r| r.clear_bsk()).finish();
    let mut signer = Signer::new(redacted).unwrap();
    for (i, sk) in b.tkeys.iter().enumerate() {
        signer.sign_transparent(i, sk).unwrap();
    }
    let signed = signer.finish();
    for (name, order) in [("[signed_redacted, original]", vec![signed.clone(), b.pczt.clone()]), ("[original, signed_redacted]", vec![b.pczt.clone(), signed.clone()])] {
        let c = Combiner::new(order).combine().unwrap();
        let l = logical_of(&c);
        let bsk = l.field(&s_pczt(Form::Logical), "sapling").field(&s_sapling(true), "bsk").opt().is_some();
        let fin = SpendFinalizer::new(c).finalize_spends().unwrap();
        let ex = TransactionExtractor::new(fin).extract();
        println!("{name}: sapling.bsk present = {bsk}; extract = {:?}", ex.map(|t| t.txid()).map_err(|e| format!("{e:?}")));
    }
}

fn probe_lock() {
    let b = base_transparent(1);
    let mut l = logical_of(&b.pczt);
    // input 0 requires lock time (height) 1000
    let st = s_tin();
    let V::Rec(fs) = at_mut(&mut l, &[Step::F(1), Step::F(0), Step::I(0)]) else { panic!() };
    let S::Rec(names) = &st else { panic!() };
    let i = names.iter().position(|(n, _)| *n == "required_height_lock_time").unwrap();
    fs[i] = some(V::U(1000));
    let j = names.iter().position(|(n, _)| *n == "sequence").unwrap();
    fs[j] = some(V::U(0xffff_fffe));
    let p = Pczt::parse(&canonical_bytes(&l)).unwrap();
    println!("before signing: txid {:?}", pczt_txid(&p));
    let mut signer = Signer::new(p).unwrap();
    for (i, sk) in b.tkeys.iter().enumerate() {
        signer.sign_transparent(i, sk).unwrap();
    }
    let signed = signer.finish();
    println!("signed:         txid {:?}", pczt_txid(&signed));
    let fin = SpendFinalizer::new(signed).finalize_spends().unwrap();
    println!("finalized:      txid {:?}", pczt_txid(&fin));
    let tx = TransactionExtractor::new(fin).extract().unwrap();
    println!("extracted:      txid {:?} lock_time {}", tx.txid(), tx.lock_time());
}

fn probe_prove() {
    let t = std::time::Instant::now();
    let pk5 = orchard::circuit::ProvingKey::build(orchard::circuit::OrchardCircuitVersion::FixedPostNu6_2);
    println!("pk v5 {:?}", t.elapsed());
    let t = std::time::Instant::now();
    let pk6 = orchard::circuit::ProvingKey::build(orchard::circuit::OrchardCircuitVersion::PostNu6_3);
    println!("pk v6 {:?}", t.elapsed());
    let t = std::time::Instant::now();
    let vk5 = orchard::circuit::VerifyingKey::build(orchard::circuit::OrchardCircuitVersion::FixedPostNu6_2);
    println!("vk v5 {:?}", t.elapsed());
    let b = base_o2o(1);
    let t = std::time::Instant::now();
    let p = Prover::new(b.pczt.clone()).create_orchard_proof(&pk5).map(|p| p.finish());
    println!("o2o proof {:?} ok={}", t.elapsed(), p.is_ok());
    let mut s = Signer::new(p.unwrap()).unwrap();
    let (i, ask) = b.orchard_ask.as_ref().unwrap();
    s.sign_orchard(*i, ask).unwrap();
    let t = std::time::Instant::now();
    let tx = TransactionExtractor::new(s.finish()).with_orchard(&vk5).extract();
    println!("extract {:?} {:?}", t.elapsed(), tx.map(|t| t.txid()).map_err(|e| format!("{e:?}")));
    let b = base_o2i(1);
    let (anchor, i, path) = b.deferred.clone().unwrap();
    let p = Updater::new(b.pczt.clone()).set_orchard_anchor(anchor).unwrap().set_orchard_spend_witnesses([(i, path)]).unwrap()
        .set_ironwood_anchor(orchard::Anchor::empty_tree()).unwrap().finish();
    let t = std::time::Instant::now();
    let p = Prover::new(p).create_orchard_proof(&pk6).unwrap().create_ironwood_proof(&pk6).map(|p| p.finish());
    println!("o2i proofs {:?} ok={}", t.elapsed(), p.is_ok());
    let t = std::time::Instant::now();
    let prover = zcash_proofs::prover::LocalTxProver::bundled();
    println!("sapling params {:?}", t.elapsed());
    let b = base_s2s(1);
    let t = std::time::Instant::now();
    let p = Prover::new(b.pczt.clone()).create_sapling_proofs(&prover, &prover).map(|p| p.finish());
    println!("sapling proofs {:?} ok={}", t.elapsed(), p.is_ok());
}

fn probe() {
    for b in [base_transparent(1), base_t2o(1), base_o2o(1), base_o2i(1), base_s2s(1)] {
        let l = logical_of(&b.pczt);
        println!("own zip244 txid: {:?}", zip244::Tx::new(&l).txid().map(|mut t| { t.reverse(); hex(&t) }));
        let bytes = b.pczt.clone().serialize().unwrap();
        let (ver, l) = decode_pczt(&bytes).unwrap();
        println!("== {} ver {ver} len {} own==code {} txid {:?}", b.name, bytes.len(), canonical_bytes(&l) == bytes, pczt_txid(&b.pczt));
        for (p, (c, s)) in slots_of(&l) {
            println!("{p}  [{c}]  {s:?}");
        }
        let _ = (&b.tkeys, &b.orchard_ask, &b.ironwood_ask, &b.sapling_ask);
    }
    let pczt = Creator::new(zcash_protocol::consensus::BranchId::Nu6.into(), 10_000_000, 133, None, Some([0; 32]))
        .unwrap()
        .build()
        .unwrap();
    let bytes = pczt.clone().serialize().unwrap();
    let (ver, l) = decode_pczt(&bytes).unwrap();
    println!("ver {ver} own==code {}", canonical_bytes(&l) == bytes);
    for (p, (c, s)) in slots_of(&l) {
        println!("{p}  [{c}]  {s:?}");
    }
    let _ = (seed_from_env(), guarded(|| 1), json!(1), read_ndjson as fn(&str) -> Vec<J>);
    let _: Option<(NdjsonWriter, BTreeSet<u8>, ChaCha20Rng)> = None;
    let _ = (Combiner::new(vec![]), IoFinalizer::new(pczt.clone()), Prover::new(pczt.clone()), Redactor::new(pczt.clone()));
    let _ = (Signer::new(pczt.clone()).is_ok(), SpendFinalizer::new(pczt.clone()), TransactionExtractor::new(pczt.clone()));
    let _ = (Updater::new(pczt.clone()), Verifier::new(pczt.clone()), pczt_txid(&pczt).is_ok());
    let mut r = ChaCha20Rng::seed_from_u64(1);
    let _ = (r.gen_range(0..2), [1, 2].choose(&mut r));
}
