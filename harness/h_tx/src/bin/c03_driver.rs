use h_tx::txgen::*;
use zcash_primitives::transaction::{Transaction, TxVersion};
use zcash_protocol::consensus::BranchId;

fn main() {
    let mut g = TxGen::new(1);
    // (1) V6 / Nu6_3 with one Orchard action; rewrite the branch id to Nu6_2
    let mut s = Shape::new(TxVersion::V6, BranchId::Nu6_3);
    s.n_orchard = 1;
    let tx = g.tx(&s).unwrap();
    let mut buf = vec![];
    tx.write(&mut buf).unwrap();
    for b in [BranchId::Nu5, BranchId::Nu6_2, BranchId::Canopy] {
        let mut m = buf.clone();
        m[8..12].copy_from_slice(&u32::from(b).to_le_bytes());
        match Transaction::read(&m[..], BranchId::Nu6_3) {
            Ok(t) => {
                let mut w = vec![];
                println!("V6 branch {:?}: accepted; flags {:?}; bundle version {}; write -> {:?}", b, t.orchard_bundle().unwrap().flags(), bundle_version_name(t.orchard_bundle().unwrap().bundle_version()), t.write(&mut w).map(|_| w.len()));
            }
            Err(e) => println!("V6 branch {:?}: rejected {e}", b),
        }
    }
    // (2) V4 with no Sapling and valueBalance != 0
    let mut s = Shape::new(TxVersion::V4, BranchId::Sapling);
    s.n_vin = 1;
    let tx = g.tx(&s).unwrap();
    let mut buf = vec![];
    tx.write(&mut buf).unwrap();
    // find valueBalance: after header(8), vin, vout(1), lock(4), expiry(4)
    let n = buf.len();
    // layout tail: vb(8) nSp(1) nOut(1) nJS(1)
    let off = n - 11;
    let mut m = buf.clone();
    m[off] = 5;
    match Transaction::read(&m[..], BranchId::Sapling) {
        Ok(t) => {
            let mut w = vec![];
            t.write(&mut w).unwrap();
            let t2 = Transaction::read(&w[..], BranchId::Sapling).unwrap();
            println!("V4 dangling valueBalance: accepted; reser == input: {}; txid same after reparse: {}", w == m, t.txid() == t2.txid());
        }
        Err(e) => println!("V4 dangling vb: rejected {e}"),
    }
}
