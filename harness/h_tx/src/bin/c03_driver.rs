//! C03 code -> spec driver (robustness): mutated encodings through the real parsers.
//!
//! usage: c03_driver <cases.ndjson> <trace.ndjson>
//! Input: the "case" records (with the spec-chosen mutations `muts`) and "hcase" records (block
//! headers) printed by TLC.  For every case one valid encoding is produced (txgen + the real
//! writer; its layout is the token sequence, so token boundaries are known) and from it:
//!   id        the encoding itself
//!   trunc     cut at every token boundary and at a seeded position inside every token
//!   extend    one and three extra bytes
//!   flip      one byte changed (first byte and a seeded byte of every token)
//!   <m>       every mutation the specification lists for the count / amount / constant tokens
//! Each mutant is parsed (catch_unwind); what is accepted is re-serialised and parsed again.
//! One trace record per mutant; TLC validates the trace against spec/Codec/Trace_Codec.tla.
//!
//! A record can be replayed alone: {"T":"replay","case":{..},"mutant":{"m","t","at","bytes"}}.
use h_tx::c03_common::*;
use h_tx::txgen::*;
use h_tx::util::{NdjsonWriter, guarded, quiet_panics, read_ndjson, seed_from_env};
use serde_json::{Value, json};
use zcash_primitives::block::BlockHeader;
use zcash_primitives::transaction::Transaction;
use zcash_protocol::consensus::BranchId;

fn mix(mut z: u64) -> u64 {
    z = z.wrapping_add(0x9E37_79B9_7F4A_7C15);
    z = (z ^ (z >> 30)).wrapping_mul(0xBF58_476D_1CE4_E5B9);
    z = (z ^ (z >> 27)).wrapping_mul(0x94D0_49BB_1331_11EB);
    z ^ (z >> 31)
}
struct Rnd(u64);
impl Rnd {
    fn next(&mut self) -> u64 {
        self.0 = mix(self.0);
        self.0
    }
    fn below(&mut self, n: usize) -> usize {
        (self.next() % n.max(1) as u64) as usize
    }
    fn bytes(&mut self, n: usize) -> Vec<u8> {
        let mut v = Vec::with_capacity(n + 8);
        while v.len() < n {
            v.extend_from_slice(&self.next().to_le_bytes());
        }
        v.truncate(n);
        v
    }
}

fn case_salt(seed: u64, id: u64, sample: u64) -> u64 {
    mix(mix(seed ^ 0xC03C03) ^ mix(id.wrapping_mul(1_000_003) ^ (sample << 48)))
}

/// A mutant of a base encoding: name, token it touches (0-based index or None), the edit.
struct Mutant {
    m: String,
    t: Option<usize>,
    /// replace bytes[at .. at + cut] by `ins`; for trunc: keep bytes[..at]
    at: usize,
    cut: usize,
    ins: Vec<u8>,
    spec_rej: bool,
}

fn apply(base: &[u8], mu: &Mutant) -> Vec<u8> {
    if mu.m == "trunc" {
        return base[..mu.at].to_vec();
    }
    let mut v = base[..mu.at].to_vec();
    v.extend_from_slice(&mu.ins);
    v.extend_from_slice(&base[mu.at + mu.cut..]);
    v
}

fn mutants(tokens: &[Token], muts: &Value, base: &[u8], r: &mut Rnd, dense: bool) -> Vec<Mutant> {
    let offs = offsets(tokens);
    let mut out = vec![Mutant { m: "id".into(), t: None, at: 0, cut: 0, ins: vec![], spec_rej: false }];
    // truncations: every token boundary, and inside every token
    for (j, t) in tokens.iter().enumerate() {
        if offs[j] >= base.len() {
            continue; // an empty field at the very end: cutting there is not a truncation
        }
        out.push(Mutant { m: "trunc".into(), t: Some(j), at: offs[j], cut: 0, ins: vec![], spec_rej: true });
        if t.len >= 2 {
            out.push(Mutant { m: "trunc".into(), t: Some(j), at: offs[j] + 1 + r.below(t.len - 1), cut: 0, ins: vec![], spec_rej: true });
        }
        if dense && t.len >= 3 {
            out.push(Mutant { m: "trunc".into(), t: Some(j), at: offs[j] + t.len - 1, cut: 0, ins: vec![], spec_rej: true });
        }
    }
    // extensions
    out.push(Mutant { m: "extend".into(), t: None, at: base.len(), cut: 0, ins: r.bytes(1), spec_rej: false });
    out.push(Mutant { m: "extend".into(), t: None, at: base.len(), cut: 0, ins: vec![0x00, 0xFD, 0xFF], spec_rej: false });
    // single-byte changes
    for (j, t) in tokens.iter().enumerate() {
        if t.len == 0 {
            continue;
        }
        let mut pos = vec![offs[j]];
        if t.len > 1 {
            pos.push(offs[j] + 1 + r.below(t.len - 1));
        }
        if dense && t.len > 2 {
            pos.push(offs[j] + t.len - 1);
        }
        for p in pos {
            let mask = 1u8 << r.below(8);
            let mask = if r.below(3) == 0 { (r.next() as u8) | 1 } else { mask };
            out.push(Mutant { m: "flip".into(), t: Some(j), at: p, cut: 1, ins: vec![base[p] ^ mask], spec_rej: false });
        }
    }
    // the specification's mutations
    for mu in muts.as_array().map(|a| &a[..]).unwrap_or(&[]) {
        let j = usize_of(&mu["t"]) - 1;
        out.push(Mutant {
            m: mu["m"].as_str().unwrap().to_string(),
            t: Some(j),
            at: offs[j],
            cut: tokens[j].len,
            ins: bytes_of(&mu["bytes"]),
            spec_rej: mu["rej"].as_bool().unwrap(),
        });
    }
    out
}

fn tok_fields(tokens: &[Token], t: Option<usize>) -> Value {
    match t {
        None => json!({"tk": "-", "tn": "-", "sg": "-", "tv": 0, "tval": []}),
        Some(j) => {
            let t = &tokens[j];
            json!({"tk": t.k.to_string(), "tn": t.n, "sg": t.sg.to_string(), "tv": t.v, "tval": t.val})
        }
    }
}

/// True iff `a` and `b` have equal length and differ only inside one window of 8 bytes in which `b` is zero.
fn differs_in_zeroed_amount(a: &[u8], b: &[u8]) -> bool {
    if a.len() != b.len() {
        return false;
    }
    let d: Vec<usize> = (0..a.len()).filter(|i| a[*i] != b[*i]).collect();
    match (d.first(), d.last()) {
        (Some(f), Some(l)) => l - f < 8 && d.iter().all(|i| b[*i] == 0),
        _ => false,
    }
}

struct TxBase {
    bytes: Vec<u8>,
    dump: Vec<(String, Vec<u8>)>,
}

fn run_tx_mutant(base: &TxBase, branch: BranchId, input: &[u8]) -> Value {
    match parse(input, branch) {
        Parsed::Panic(p) => json!({"out": "panic", "detail": p, "consumed": 0, "wrote": false, "reser_len": 0, "reser_eq": false, "reparse": "-",
                                    "same_as_base": false, "pv": "-", "pb": "-", "porch": false, "psap": false, "dvb": false}),
        Parsed::Rejected(_) => json!({"out": "rej", "consumed": 0, "wrote": false, "reser_len": 0, "reser_eq": false, "reparse": "-",
                                       "same_as_base": false, "pv": "-", "pb": "-", "porch": false, "psap": false, "dvb": false}),
        Parsed::Accepted(tx, consumed) => {
            let d = dump(&tx, true);
            let same_as_base = d == base.dump;
            let (pv, pb) = (version_name(tx.version()), branch_name(tx.consensus_branch_id()));
            let (porch, psap) = (tx.orchard_bundle().is_some(), tx.sapling_bundle().is_some());
            let (wrote, reser_len, reser_eq, reparse, dvb) = match serialise(&tx) {
                Err(_) => (false, 0, false, "-".to_string(), false),
                Ok(w) => {
                    let eq = consumed <= input.len() && w[..] == input[..consumed];
                    let dvb = !eq && consumed <= input.len() && differs_in_zeroed_amount(&input[..consumed], &w);
                    let rp = match parse(&w, branch) {
                        Parsed::Panic(_) => "panic",
                        Parsed::Rejected(_) => "rej",
                        Parsed::Accepted(t2, n2) => {
                            let d2 = dump(&t2, true);
                            if n2 != w.len() {
                                "short"
                            } else if d2 == d {
                                "same"
                            } else if dump(&t2, false) == dump(&tx, false) {
                                "same_fields"
                            } else {
                                "diff"
                            }
                        }
                    };
                    (true, w.len(), eq, rp.to_string(), dvb)
                }
            };
            json!({"out": "acc", "consumed": consumed, "wrote": wrote, "reser_len": reser_len, "reser_eq": reser_eq, "reparse": reparse,
                   "same_as_base": same_as_base, "pv": pv, "pb": pb, "porch": porch, "psap": psap, "dvb": dvb})
        }
    }
}

fn header_fields(h: &BlockHeader) -> Vec<u8> {
    let mut v = vec![];
    v.extend_from_slice(&h.version.to_le_bytes());
    v.extend_from_slice(&h.prev_block.0);
    v.extend_from_slice(&h.merkle_root);
    v.extend_from_slice(&h.final_sapling_root);
    v.extend_from_slice(&h.time.to_le_bytes());
    v.extend_from_slice(&h.bits.to_le_bytes());
    v.extend_from_slice(&h.nonce);
    v.extend_from_slice(&(h.solution.len() as u64).to_le_bytes());
    v.extend_from_slice(&h.solution);
    v.extend_from_slice(&h.hash().0);
    v
}

fn read_header(input: &[u8]) -> Result<Result<(BlockHeader, usize), String>, String> {
    guarded(|| {
        let mut r: &[u8] = input;
        BlockHeader::read(&mut r).map(|h| (h, input.len() - r.len())).map_err(|e| e.to_string())
    })
}

fn run_header_mutant(base_fields: &[u8], input: &[u8]) -> Value {
    let none = |out: &str| json!({"out": out, "consumed": 0, "wrote": false, "reser_len": 0, "reser_eq": false, "reparse": "-",
                                   "same_as_base": false, "pv": "-", "pb": "-", "porch": false, "psap": false, "dvb": false});
    match read_header(input) {
        Err(_) => none("panic"),
        Ok(Err(_)) => none("rej"),
        Ok(Ok((h, consumed))) => {
            let f = header_fields(&h);
            let mut w = vec![];
            let wrote = matches!(guarded(|| h.write(&mut w)), Ok(Ok(())));
            let eq = wrote && consumed <= input.len() && w[..] == input[..consumed];
            let hash_ok = consumed <= input.len() && h.hash().0 == sha256d(&input[..consumed]);
            let reparse = if !wrote {
                "-"
            } else {
                match read_header(&w) {
                    Err(_) => "panic",
                    Ok(Err(_)) => "rej",
                    Ok(Ok((h2, n2))) => {
                        if n2 != w.len() { "short" } else if header_fields(&h2) == f && hash_ok { "same" } else { "diff" }
                    }
                }
            };
            json!({"out": "acc", "consumed": consumed, "wrote": wrote, "reser_len": w.len(), "reser_eq": eq, "reparse": reparse,
                   "same_as_base": f == base_fields, "pv": "hdr", "pb": "-", "porch": false, "psap": false, "dvb": false})
        }
    }
}

fn merge(mut a: Value, b: Value) -> Value {
    for (k, v) in b.as_object().unwrap() {
        a[k] = v.clone();
    }
    a
}

fn main() {
    let args: Vec<String> = std::env::args().collect();
    let cases = read_ndjson(&args[1]);
    let mut w = NdjsonWriter::create(&args[2]);
    let seed = seed_from_env();
    let dense = std::env::var("C03_DENSE").is_ok();
    quiet_panics();
    let g = TxGen::new(seed);
    let (mut n_base, mut n_acc, mut n_rej, mut n_panic) = (0usize, 0usize, 0usize, 0usize);
    let mut per_class = std::collections::BTreeMap::<String, (usize, usize)>::new();
    let mut first_panic: Option<Value> = None;
    for c in &cases {
        let kind = c["T"].as_str().unwrap();
        if kind == "replay" {
            // one recorded mutant, alone
            let case = &c["case"];
            let mu = &c["mutant"];
            let tokens = tokens_from_json(&case["tokens"]);
            let m = Mutant { m: mu["m"].as_str().unwrap().into(), t: mu["t"].as_u64().map(|x| x as usize), at: usize_of(&mu["at"]), cut: usize_of(&mu["cut"]), ins: bytes_of(&mu["ins"]), spec_rej: mu["rej"].as_bool().unwrap_or(false) };
            let rec = if case["T"] == "hcase" {
                let (bytes, fields) = header_base(case, case_salt(c["seed"].as_u64().unwrap(), 800_000 + case["solLen"].as_u64().unwrap(), 0));
                let input = apply(&bytes, &m);
                merge(json!({"c": 0, "ver": "hdr", "br": "-", "m": m.m, "mb": m.ins, "len": input.len(), "base": bytes.len(), "hex": hex::encode(&input[..input.len().min(4096)])}),
                      merge(tok_fields(&tokens, m.t), run_header_mutant(&fields, &input)))
            } else {
                let g = TxGen::new(c["seed"].as_u64().unwrap());
                let (base, shape) = tx_base(&g, case, case_salt(c["seed"].as_u64().unwrap(), case["id"].as_u64().unwrap(), 0)).expect("base encoding");
                let input = apply(&base.bytes, &m);
                merge(json!({"c": case["id"], "ver": case["shape"]["ver"], "br": case["shape"]["branch"], "m": m.m, "mb": m.ins, "len": input.len(), "base": base.bytes.len(), "hex": hex::encode(&input[..input.len().min(4096)])}),
                      merge(tok_fields(&tokens, m.t), run_tx_mutant(&base, shape.branch, &input)))
            };
            w.emit(&rec);
            continue;
        }
        if kind != "case" && kind != "hcase" {
            continue;
        }
        let tokens = tokens_from_json(&c["tokens"]);
        if kind == "case" && !c["v"].as_bool().unwrap_or(false) {
            continue;
        }
        n_base += 1;
        let id = c.get("id").and_then(|v| v.as_u64()).unwrap_or(0);
        let mut r = Rnd(case_salt(seed, id ^ 0xF00D, 7));
        if kind == "hcase" {
            let (bytes, fields) = header_base(c, case_salt(seed, 800_000 + c["solLen"].as_u64().unwrap(), 0));
            for mu in mutants(&tokens, &c["muts"], &bytes, &mut r, true) {
                let input = apply(&bytes, &mu);
                let res = run_header_mutant(&fields, &input);
                let rec = merge(
                    json!({"c": c["solLen"], "ver": "hdr", "br": "-", "m": mu.m, "mb": mu.ins, "len": input.len(), "base": bytes.len(),
                           "at": mu.at, "cut": mu.cut, "t": mu.t, "srej": mu.spec_rej}),
                    merge(tok_fields(&tokens, mu.t), res),
                );
                tally(&rec, &mut n_acc, &mut n_rej, &mut n_panic, &mut per_class, &mut first_panic);
                w.emit(&rec);
            }
            continue;
        }
        let (base, shape) = match tx_base(&g, c, case_salt(seed, id, 0)) {
            Ok(b) => b,
            Err(e) => {
                // the base encoding does not follow the layout: reported by the replay direction; nothing to mutate
                w.emit(&json!({"c": id, "ver": c["shape"]["ver"], "br": c["shape"]["branch"], "m": "nobase", "mb": [], "len": 0, "base": 0, "at": 0, "cut": 0, "t": null, "srej": false,
                               "tk": "-", "tn": e, "sg": "-", "tv": 0, "tval": [], "out": "rej", "consumed": 0, "wrote": false, "reser_len": 0, "reser_eq": false,
                               "reparse": "-", "same_as_base": false, "pv": "-", "pb": "-", "porch": false, "psap": false, "dvb": false}));
                continue;
            }
        };
        for mu in mutants(&tokens, &c["muts"], &base.bytes, &mut r, dense) {
            let input = apply(&base.bytes, &mu);
            let res = run_tx_mutant(&base, shape.branch, &input);
            let rec = merge(
                json!({"c": id, "ver": c["shape"]["ver"], "br": c["shape"]["branch"], "m": mu.m, "mb": mu.ins, "len": input.len(), "base": base.bytes.len(),
                       "at": mu.at, "cut": mu.cut, "t": mu.t, "srej": mu.spec_rej}),
                merge(tok_fields(&tokens, mu.t), res),
            );
            tally(&rec, &mut n_acc, &mut n_rej, &mut n_panic, &mut per_class, &mut first_panic);
            w.emit(&rec);
        }
    }
    let n = w.finish();
    let _ = Transaction::read(&[0u8; 0][..], BranchId::Sprout);
    println!(
        "{}",
        json!({"records": n, "bases": n_base, "accepted": n_acc, "rejected": n_rej, "panics": n_panic, "first_panic": first_panic,
               "per_class": per_class.iter().map(|(k, (a, r))| json!([k, a, r])).collect::<Vec<_>>()})
    );
}

fn tally(rec: &Value, n_acc: &mut usize, n_rej: &mut usize, n_panic: &mut usize, per: &mut std::collections::BTreeMap<String, (usize, usize)>, first_panic: &mut Option<Value>) {
    let m = rec["m"].as_str().unwrap();
    let class = if m.starts_with("noncanon") { "noncanon" } else if m.starts_with("amt_") { "amount" } else if m.starts_with("branch_") || m.starts_with("vgid_") || m.starts_with("header_") { "constant" } else { m };
    let e = per.entry(class.to_string()).or_insert((0, 0));
    match rec["out"].as_str().unwrap() {
        "acc" => {
            *n_acc += 1;
            e.0 += 1;
        }
        "rej" => {
            *n_rej += 1;
            e.1 += 1;
        }
        _ => {
            *n_panic += 1;
            if first_panic.is_none() {
                *first_panic = Some(rec.clone());
            }
        }
    }
}

fn tx_base(g: &TxGen, c: &Value, salt: u64) -> Result<(TxBase, Shape), String> {
    let shape = shape_from_json(&c["shape"]);
    let tokens = tokens_from_json(&c["tokens"]);
    let parts = g.parts_with(&shape, salt).map_err(|e| format!("generator: {e}"))?;
    let tx = guarded(|| parts.freeze()).map_err(|p| format!("panic: {p}"))?.map_err(|e| format!("freeze: {e}"))?;
    let bytes = serialise(&tx)?;
    let bad = walk(&tokens, usize_of(&c["total"]), &bytes, &tx);
    if !bad.is_empty() {
        return Err(format!("layout: {}", bad[0]));
    }
    let parsed = match parse(&bytes, shape.branch) {
        Parsed::Accepted(t, _) => t,
        _ => return Err("the valid encoding is not accepted".into()),
    };
    Ok((TxBase { dump: dump(&parsed, true), bytes }, shape))
}

fn header_base(c: &Value, salt: u64) -> (Vec<u8>, Vec<u8>) {
    use zcash_primitives::block::{BlockHash, BlockHeaderData};
    let mut r = Rnd(salt);
    let sol_len = usize_of(&c["solLen"]);
    let mut arr = |n: usize| r.bytes(n);
    let data = BlockHeaderData {
        version: 4,
        prev_block: BlockHash(arr(32).try_into().unwrap()),
        merkle_root: arr(32).try_into().unwrap(),
        final_sapling_root: arr(32).try_into().unwrap(),
        time: 1_700_000_000,
        bits: 0x1f07_ffff,
        nonce: arr(32).try_into().unwrap(),
        solution: arr(sol_len),
    };
    let h = data.freeze().expect("freeze header");
    let mut b = vec![];
    h.write(&mut b).expect("write header");
    let f = header_fields(&h);
    (b, f)
}
