//! C04 spec -> code replay: transaction identifiers, authorising-data commitments and signature
//! hashes against spec/Codec/DigestTree.tla.
//!
//! Input (one JSON object, written by checks/c04.py from TLC's output):
//!   spec:  { trees: {ver: {txid, auth, sig, hashTypes, roles}}, fields: {class: {vec, src, from, len, enc}},
//!            consts: {branchIds, parse, indexCases}, table: [{ver, dig, ac, f, rel, out}] }
//!   cases: [ {id, shape: {ver, branch, nIn, nOut, cb, nJS, nSp, nSO, nAct, nIrw, sigLens?, pkLens?}, sample,
//!             pred?: {txid: [[f,i]..], auth: [..], sigs: [{cs, byte, leaves}]}, only?: {f, i}} ]
//!   opts:  { eq_on_mutants, tables }
//!
//! (a) EQUALITY.  The digest trees printed by TLC are evaluated by the generic interpreter below over
//! the fields of a real transaction (public accessors; the JoinSplit blobs are sliced out of the
//! serialisation; personalisation strings and branch ids come from the specification) with
//! blake2b_simd / sha2, and must equal `Transaction::txid()`, `Transaction::auth_commitment()` and
//! `signature_hash()` for the shielded case and every (transparent input, hash type).  The
//! interpreter never calls anything of zcash_primitives::transaction::{txid, sighash*}.
//! (b) SENSITIVITY.  Every field instance of the transaction (and of the coins it spends, and the
//! parameters of the signature case) is changed alone, the transaction rebuilt through the public
//! from_parts constructors, and changed / unchanged of every digest is compared with the
//! specification's sensitivity table (and, for the shapes TLC enumerated, with TLC's concrete leaf
//! sets).
//! (c) `SighashType::parse` over all 256 bytes and `SignableInput::from_parts` index cases.
//!
//! stdout: one JSON summary object (last line). exit 0 unless the harness itself is broken.
use std::collections::{BTreeMap, BTreeSet, HashMap};

use h_tx::txgen::{
    OrchardParts, SaplingOutput, SaplingSpend, Shape, TxGen, TxParts, branch_from_name, branch_name, sapling_anchor_bytes,
    sapling_authorized_from_bytes, sapling_binding_sig_bytes, spend_with_anchor_of, version_from_name,
};
use h_tx::util::{guarded, quiet_panics, seed_from_env};
use orchard::{Action, ValuePool, bundle::Flags, note::TransmittedNoteCiphertext};
use sapling::bundle::{OutputDescription, SpendDescription};
use serde_json::{Value, json};
use zcash_primitives::transaction::{
    self as ztx, Authorized, Transaction, TransactionData, TxVersion,
    components::sprout,
    sighash::{SignableInput, signature_hash},
    txid::TxIdDigester,
};
use zcash_protocol::value::{MAX_MONEY, ZatBalance, Zatoshis};
use zcash_transparent::{
    address::Script,
    bundle::{self as tb, OutPoint, TxIn, TxOut},
    sighash::{self as tsig, SighashType},
};

// ------------------------------------------------------------------------------------------------
// small utilities

fn mix(mut z: u64) -> u64 {
    z = z.wrapping_add(0x9E37_79B9_7F4A_7C15);
    z = (z ^ (z >> 30)).wrapping_mul(0xBF58_476D_1CE4_E5B9);
    z = (z ^ (z >> 27)).wrapping_mul(0x94D0_49BB_1331_11EB);
    z ^ (z >> 31)
}
struct Rnd(u64);
impl Rnd {
    fn next(&mut self) -> u64 {
        self.0 = mix(self.0);
        self.0
    }
    fn below(&mut self, n: usize) -> usize {
        (self.next() % n.max(1) as u64) as usize
    }
    /// Flips one bit; a quarter of the time in the first byte, a quarter in the last (a digest that
    /// drops the edge of a field or of a slice of it).
    fn flip(&mut self, b: &mut [u8]) {
        let k = match self.below(4) {
            0 => 0,
            1 => b.len() - 1,
            _ => self.below(b.len()),
        };
        b[k] ^= 1 << self.below(8);
    }
}

fn script_of(v: Vec<u8>) -> Script {
    Script(zcash_script::script::Code(v))
}
fn script_bytes(s: &Script) -> &[u8] {
    &s.0.0
}
fn compact_size(n: usize) -> Vec<u8> {
    // protocol specification 7.1 / Bitcoin: 1, 3, 5 or 9 bytes, shortest class
    let n = n as u64;
    if n < 253 {
        vec![n as u8]
    } else if n <= 0xffff {
        let mut v = vec![253u8];
        v.extend_from_slice(&(n as u16).to_le_bytes());
        v
    } else if n <= 0xffff_ffff {
        let mut v = vec![254u8];
        v.extend_from_slice(&(n as u32).to_le_bytes());
        v
    } else {
        let mut v = vec![255u8];
        v.extend_from_slice(&n.to_le_bytes());
        v
    }
}
fn sha256d(b: &[u8]) -> [u8; 32] {
    use sha2::{Digest, Sha256};
    Sha256::digest(Sha256::digest(b)).into()
}
fn hx(b: &[u8]) -> String {
    hex::encode(b)
}
fn spec_version(v: TxVersion) -> &'static str {
    match v {
        TxVersion::Sprout(1) => "sprout1",
        TxVersion::Sprout(_) => "sprout2",
        TxVersion::V3 => "v3",
        TxVersion::V4 => "v4",
        TxVersion::V5 => "v5",
        TxVersion::V6 => "v6",
    }
}

// ------------------------------------------------------------------------------------------------
// the specification's data

struct FieldDef {
    vec: String,
    src: String,
    from: usize,
    len: usize,
    script: bool,
}
#[derive(Clone, Debug)]
struct HashType {
    byte: u8,
    base: String,
    acp: bool,
}
struct VerSpec {
    txid: Value,
    auth: Value,
    sig: Value,
    hash_types: Vec<HashType>,
    roles: HashMap<String, String>,
}
struct Spec {
    vers: HashMap<String, VerSpec>,
    fields: HashMap<String, FieldDef>,
    branch_ids: HashMap<String, Vec<u8>>,
    table: HashMap<String, bool>,
    parse: Vec<bool>,
    index_cases: Vec<(usize, usize, bool)>,
}

fn row_key(ver: &str, dig: &str, ac: &Value, f: &str, rel: &str) -> String {
    format!(
        "{ver}|{dig}|{}|{}|{}|{}|{}|{f}|{rel}",
        ac["kind"].as_str().unwrap_or("-"),
        ac["base"].as_str().unwrap_or("-"),
        ac["acp"].as_bool().unwrap_or(false),
        ac["tclass"].as_str().unwrap_or("-"),
        ac["jout"].as_bool().unwrap_or(false)
    )
}

fn load_spec(v: &Value) -> Spec {
    let mut vers = HashMap::new();
    for (ver, t) in v["trees"].as_object().expect("trees") {
        vers.insert(
            ver.clone(),
            VerSpec {
                txid: t["txid"].clone(),
                auth: t["auth"].clone(),
                sig: t["sig"].clone(),
                hash_types: t["hashTypes"]
                    .as_array()
                    .expect("hashTypes")
                    .iter()
                    .map(|h| HashType { byte: h["byte"].as_u64().unwrap() as u8, base: h["base"].as_str().unwrap().into(), acp: h["acp"].as_bool().unwrap() })
                    .collect(),
                roles: t["roles"].as_object().expect("roles").iter().map(|(k, r)| (k.clone(), r.as_str().unwrap().to_string())).collect(),
            },
        );
    }
    let fields = v["fields"]
        .as_object()
        .expect("fields")
        .iter()
        .map(|(k, d)| {
            (
                k.clone(),
                FieldDef {
                    vec: d["vec"].as_str().unwrap().into(),
                    src: d["src"].as_str().unwrap().into(),
                    from: d["from"].as_u64().unwrap() as usize,
                    len: d["len"].as_u64().unwrap() as usize,
                    script: d["enc"].as_str().unwrap() == "script",
                },
            )
        })
        .collect();
    let bytes = |a: &Value| -> Vec<u8> { a.as_array().expect("bytes").iter().map(|x| x.as_u64().unwrap() as u8).collect() };
    let branch_ids = v["consts"]["branchIds"].as_object().expect("branchIds").iter().map(|(k, b)| (k.clone(), bytes(b))).collect();
    let mut table = HashMap::new();
    for r in v["table"].as_array().expect("table") {
        let key = row_key(r["ver"].as_str().unwrap(), r["dig"].as_str().unwrap(), &r["ac"], r["f"].as_str().unwrap(), r["rel"].as_str().unwrap());
        let out = match r["out"].as_str().unwrap() {
            "changes" => true,
            "unchanged" => false,
            o => panic!("table cell {o}"),
        };
        if table.insert(key.clone(), out).is_some_and(|prev| prev != out) {
            panic!("the sensitivity table is not a function at {key}");
        }
    }
    // the parse table is a function 0..255 -> BOOLEAN; ToJson prints a function over 0..255 as an object or an array
    let parse: Vec<bool> = match &v["consts"]["parse"] {
        Value::Array(a) => a.iter().map(|b| b.as_bool().unwrap()).collect(),
        Value::Object(o) => (0..256).map(|b| o[&b.to_string()].as_bool().unwrap()).collect(),
        _ => panic!("parse table"),
    };
    assert_eq!(parse.len(), 256);
    let index_cases = v["consts"]["indexCases"]
        .as_array()
        .expect("indexCases")
        .iter()
        .map(|c| (c["nIn"].as_u64().unwrap() as usize, c["index"].as_u64().unwrap() as usize, c["ok"].as_bool().unwrap()))
        .collect();
    Spec { vers, fields, branch_ids, table, parse, index_cases }
}

// ------------------------------------------------------------------------------------------------
// the world a tree is evaluated over: a real transaction, the coins its inputs spend, a signature case

type Coins = Vec<(Zatoshis, Script)>;

#[derive(Clone, Debug)]
struct SigCase {
    transparent: bool,
    byte: u8,
    base: String,
    acp: bool,
    j: usize, // 1-based index of the signed input; 0 for the shielded case
    script_code: Script,
}
impl SigCase {
    fn shielded() -> Self {
        // ZIP 244 S.2a / ZIP 243: shielded signatures use SIGHASH_ALL
        SigCase { transparent: false, byte: 1, base: "all".into(), acp: false, j: 0, script_code: script_of(vec![]) }
    }
    fn label(&self) -> String {
        if self.transparent { format!("transparent input {} hash_type 0x{:02x}", self.j - 1, self.byte) } else { "shielded".into() }
    }
}

struct World<'a> {
    ver: &'static str,
    data: &'a TransactionData<Authorized>,
    coins: &'a Coins,
    /// the serialisation (versions 1 to 4 only)
    ser: Option<Vec<u8>>,
    /// byte ranges of the JoinSplit descriptions inside `ser`
    js: Vec<(usize, usize)>,
}

const JS_REGIONS: [(&str, usize, usize); 8] = [
    ("js.vpub_old", 0, 8),
    ("js.vpub_new", 8, 8),
    ("js.anchor", 16, 32),
    ("js.nullifiers", 48, 64),
    ("js.commitments", 112, 64),
    ("js.epk", 176, 32),
    ("js.random_seed", 208, 32),
    ("js.macs", 240, 64),
];
fn js_proof_len(ver: &str) -> usize {
    if ver == "v4" { 192 } else { 296 }
}
fn js_region(ver: &str, f: &str) -> (usize, usize) {
    if let Some((_, o, l)) = JS_REGIONS.iter().find(|(n, _, _)| *n == f) {
        return (*o, *l);
    }
    match f {
        "js.proof" => (304, js_proof_len(ver)),
        "js.ciphertexts" => (304 + js_proof_len(ver), 1202),
        _ => panic!("no JoinSplit region {f}"),
    }
}

impl<'a> World<'a> {
    /// `tx` must be the frozen form of `data` (its serialisation is only taken for versions <= 4).
    fn new(data: &'a TransactionData<Authorized>, coins: &'a Coins, ser: Option<Vec<u8>>) -> Result<Self, String> {
        let ver = spec_version(data.version());
        let mut w = World { ver, data, coins, ser, js: vec![] };
        if let Some(ser) = &w.ser {
            // own slicing of the pre-v5 layouts (protocol specification 7.1) up to the JoinSplits
            let mut p = if ver.starts_with("sprout") { 4 } else { 8 };
            let (vin, vout): (&[TxIn<tb::Authorized>], &[TxOut]) = data.transparent_bundle().map_or((&[], &[]), |b| (&b.vin, &b.vout));
            p += compact_size(vin.len()).len();
            for i in vin {
                let l = script_bytes(i.script_sig()).len();
                p += 32 + 4 + compact_size(l).len() + l + 4;
            }
            p += compact_size(vout.len()).len();
            for o in vout {
                let l = script_bytes(o.script_pubkey()).len();
                p += 8 + compact_size(l).len() + l;
            }
            p += 4; // lock_time
            if !ver.starts_with("sprout") {
                p += 4; // expiry
            }
            let (nsp, nso) = data.sapling_bundle().map_or((0, 0), |b| (b.shielded_spends().len(), b.shielded_outputs().len()));
            if ver == "v4" {
                p += 8 + compact_size(nsp).len() + 384 * nsp + compact_size(nso).len() + 948 * nso;
            }
            let njs = data.sprout_bundle().map_or(0, |b| b.joinsplits.len());
            if ver != "sprout1" {
                p += compact_size(njs).len();
                let l = 304 + js_proof_len(ver) + 1202;
                for _ in 0..njs {
                    w.js.push((p, p + l));
                    p += l;
                }
                if njs > 0 {
                    p += 32 + 64;
                }
            }
            if ver == "v4" && nsp + nso > 0 {
                p += 64;
            }
            if p != ser.len() {
                return Err(format!("harness: own slicing of the {ver} serialisation ends at {p}, the serialisation has {} bytes", ser.len()));
            }
            // cross-check the slicing with the accessors that exist
            if let Some(b) = data.sprout_bundle() {
                for (k, j) in b.joinsplits.iter().enumerate() {
                    let blob = &ser[w.js[k].0..w.js[k].1];
                    if blob[16..48] != j.anchor()[..] || blob[208..240] != j.random_seed()[..] || blob[48..80] != j.nullifiers()[0][..] {
                        return Err("harness: sliced JoinSplit does not match the accessors".into());
                    }
                }
            }
        }
        Ok(w)
    }

    fn count(&self, vec: &str) -> usize {
        let d = self.data;
        match vec {
            "vin" => d.transparent_bundle().map_or(0, |b| b.vin.len()),
            "vout" => d.transparent_bundle().map_or(0, |b| b.vout.len()),
            "js" => d.sprout_bundle().map_or(0, |b| b.joinsplits.len()),
            "spends" => d.sapling_bundle().map_or(0, |b| b.shielded_spends().len()),
            "outputs" => d.sapling_bundle().map_or(0, |b| b.shielded_outputs().len()),
            "orchard.actions" => d.orchard_bundle().map_or(0, |b| b.actions().len()),
            "ironwood.actions" => d.ironwood_bundle().map_or(0, |b| b.actions().len()),
            _ => panic!("unknown vector {vec}"),
        }
    }

    fn is_coinbase(&self) -> bool {
        // one input whose prevout is null (hash zero, index 0xffffffff)
        self.data.transparent_bundle().is_some_and(|b| b.vin.len() == 1 && b.vin[0].prevout().hash() == &[0u8; 32] && b.vin[0].prevout().n() == u32::MAX)
    }

    /// The bytes of a SOURCE field of the wire format (element i, 1-based; 0 for per-transaction fields).
    fn src(&self, spec: &Spec, name: &str, i: usize) -> Option<Vec<u8>> {
        let d = self.data;
        let tbun = d.transparent_bundle();
        let sb = d.sapling_bundle();
        let vin = || tbun.and_then(|b| b.vin.get(i.wrapping_sub(1)));
        let vout = || tbun.and_then(|b| b.vout.get(i.wrapping_sub(1)));
        let spend = |i: usize| sb.and_then(|b| b.shielded_spends().get(i.wrapping_sub(1)));
        let output = || sb.and_then(|b| b.shielded_outputs().get(i.wrapping_sub(1)));
        for (p, b) in [("orchard.", d.orchard_bundle()), ("ironwood.", d.ironwood_bundle())] {
            if let Some(f) = name.strip_prefix(p) {
                let b = b?;
                let act = || b.actions().iter().nth(i.wrapping_sub(1));
                return match f {
                    "flags" => {
                        // bit 0 enableSpends, bit 1 enableOutputs, bit 2 (Ironwood only) enableCrossAddress
                        let fl = b.flags();
                        let cross = b.bundle_version().value_pool() == ValuePool::Ironwood && fl.cross_address_enabled();
                        Some(vec![u8::from(fl.spends_enabled()) | (u8::from(fl.outputs_enabled()) << 1) | (u8::from(cross) << 2)])
                    }
                    "vb" => Some(i64::from(*b.value_balance()).to_le_bytes().to_vec()),
                    "anchor" => Some(b.anchor().to_bytes().to_vec()),
                    "proof" => Some(b.authorization().proof().as_ref().to_vec()),
                    "binding" => Some(<[u8; 64]>::from(b.authorization().binding_signature()).to_vec()),
                    "cv" => act().map(|a| a.cv_net().to_bytes().to_vec()),
                    "nf" => act().map(|a| a.nullifier().to_bytes().to_vec()),
                    "rk" => act().map(|a| <[u8; 32]>::from(a.rk()).to_vec()),
                    "cmx" => act().map(|a| a.cmx().to_bytes().to_vec()),
                    "epk" => act().map(|a| a.encrypted_note().epk_bytes.to_vec()),
                    "enc" => act().map(|a| a.encrypted_note().enc_ciphertext.to_vec()),
                    "out" => act().map(|a| a.encrypted_note().out_ciphertext.to_vec()),
                    "sig" => act().map(|a| <[u8; 64]>::from(a.authorization()).to_vec()),
                    _ => panic!("unknown Orchard field {name}"),
                };
            }
        }
        if name.starts_with("js.") {
            let (a, b) = *self.js.get(i.wrapping_sub(1))?;
            let (o, l) = js_region(self.ver, name);
            return Some(self.ser.as_ref()?[a..b][o..o + l].to_vec());
        }
        match name {
            "branch" => spec.branch_ids.get(branch_name(d.consensus_branch_id())).cloned(),
            "lock_time" => Some(d.lock_time().to_le_bytes().to_vec()),
            "expiry" => Some(u32::from(d.expiry_height()).to_le_bytes().to_vec()),
            "in.prevout_hash" => vin().map(|x| x.prevout().hash().to_vec()),
            "in.prevout_n" => vin().map(|x| x.prevout().n().to_le_bytes().to_vec()),
            "in.script" => vin().map(|x| script_bytes(x.script_sig()).to_vec()),
            "in.sequence" => vin().map(|x| x.sequence().to_le_bytes().to_vec()),
            "out.value" => vout().map(|x| u64::from(x.value()).to_le_bytes().to_vec()),
            "out.script" => vout().map(|x| script_bytes(x.script_pubkey()).to_vec()),
            "coin.value" => self.coins.get(i.wrapping_sub(1)).map(|c| u64::from(c.0).to_le_bytes().to_vec()),
            "coin.script" => self.coins.get(i.wrapping_sub(1)).map(|c| script_bytes(&c.1).to_vec()),
            "sprout.pubkey" => d.sprout_bundle().map(|b| b.joinsplit_pubkey.to_vec()),
            "sprout.sig" => d.sprout_bundle().map(|b| b.joinsplit_sig.to_vec()),
            "sapling.vb" => sb.map(|b| i64::from(*b.value_balance()).to_le_bytes().to_vec()),
            "sapling.anchor" => spend(1).map(|s| sapling_anchor_bytes(s).to_vec()),
            "sapling.binding" => sb.map(|b| sapling_binding_sig_bytes(b.authorization()).to_vec()),
            "spend.cv" => spend(i).map(|s| s.cv().to_bytes().to_vec()),
            "spend.anchor" => spend(i).map(|s| sapling_anchor_bytes(s).to_vec()),
            "spend.nf" => spend(i).map(|s| s.nullifier().0.to_vec()),
            "spend.rk" => spend(i).map(|s| <[u8; 32]>::from(*s.rk()).to_vec()),
            "spend.proof" => spend(i).map(|s| s.zkproof().to_vec()),
            "spend.sig" => spend(i).map(|s| <[u8; 64]>::from(*s.spend_auth_sig()).to_vec()),
            "output.cv" => output().map(|o| o.cv().to_bytes().to_vec()),
            "output.cmu" => output().map(|o| o.cmu().to_bytes().to_vec()),
            "output.epk" => output().map(|o| o.ephemeral_key().0.to_vec()),
            "output.enc" => output().map(|o| o.enc_ciphertext().to_vec()),
            "output.out" => output().map(|o| o.out_ciphertext().to_vec()),
            "output.proof" => output().map(|o| o.zkproof().to_vec()),
            _ => panic!("field {name} has no observation rule in the harness"),
        }
    }

    /// The bytes of a field CLASS of the specification (slice of its source field), unencoded.
    fn class_bytes(&self, spec: &Spec, class: &str, i: usize) -> Result<Vec<u8>, String> {
        let fd = spec.fields.get(class).ok_or_else(|| format!("the tree refers to an unknown field class {class}"))?;
        let i = if fd.vec == "-" { 0 } else { i };
        let b = self.src(spec, &fd.src, i).ok_or_else(|| format!("the tree refers to {class}[{i}], which this transaction does not have"))?;
        if fd.src == class && fd.from == 0 {
            if fd.len != 0 && b.len() != fd.len {
                return Err(format!("field {class}[{i}] has {} bytes, the specification says {}", b.len(), fd.len));
            }
            return Ok(b);
        }
        if b.len() < fd.from + fd.len {
            return Err(format!("field {}[{i}] has {} bytes, the slice {class} needs {}", fd.src, b.len(), fd.from + fd.len));
        }
        Ok(b[fd.from..fd.from + fd.len].to_vec())
    }

    /// Every field instance of the transaction (and its coins): (class, index) -> bytes.
    fn dump(&self, spec: &Spec) -> BTreeMap<(String, usize), Vec<u8>> {
        let mut m = BTreeMap::new();
        let roles = &spec.vers[self.ver].roles;
        for (class, fd) in &spec.fields {
            if roles[class] == "absent" {
                continue;
            }
            if fd.vec == "-" {
                if let Ok(b) = self.class_bytes(spec, class, 0) {
                    m.insert((class.clone(), 0), b);
                }
            } else {
                for i in 1..=self.count(&fd.vec) {
                    if let Ok(b) = self.class_bytes(spec, class, i) {
                        m.insert((class.clone(), i), b);
                    }
                }
            }
        }
        m
    }
}

// ------------------------------------------------------------------------------------------------
// the generic interpreter of the specification's trees

struct Evaluator<'a> {
    spec: &'a Spec,
    w: &'a World<'a>,
    /// H nodes whose value does not depend on the signature case, by node address and element index
    memo: HashMap<(usize, usize), Vec<u8>>,
    case_free: HashMap<usize, bool>,
}

fn cond_case_free(c: &Value) -> bool {
    match c["op"].as_str().unwrap() {
        "any" | "coinbase" => true,
        "not" => cond_case_free(&c["a"]),
        "or" | "and" => cond_case_free(&c["a"]) && cond_case_free(&c["b"]),
        _ => false,
    }
}

impl<'a> Evaluator<'a> {
    fn new(spec: &'a Spec, w: &'a World<'a>) -> Self {
        Evaluator { spec, w, memo: HashMap::new(), case_free: HashMap::new() }
    }

    fn is_case_free(&mut self, n: &Value) -> bool {
        let key = n as *const Value as usize;
        if let Some(b) = self.case_free.get(&key) {
            return *b;
        }
        let kids = |s: &mut Self, n: &Value| n["c"].as_array().unwrap().iter().all(|c| s.is_case_free(c));
        let r = match n["k"].as_str().unwrap() {
            "p" | "at" => false,
            "if" => cond_case_free(&n["cond"]) && self.is_case_free(&n["t"]) && self.is_case_free(&n["e"]),
            "h" | "each" | "cat" | "sha256d" => kids(self, n),
            _ => true,
        };
        self.case_free.insert(key, r);
        r
    }

    fn holds(&self, c: &Value, cs: &SigCase) -> Result<bool, String> {
        Ok(match c["op"].as_str().ok_or("condition without op")? {
            "any" => c["vs"].as_array().ok_or("any without vs")?.iter().any(|v| self.w.count(v.as_str().unwrap()) > 0),
            "not" => !self.holds(&c["a"], cs)?,
            "or" => self.holds(&c["a"], cs)? || self.holds(&c["b"], cs)?,
            "and" => self.holds(&c["a"], cs)? && self.holds(&c["b"], cs)?,
            "coinbase" => self.w.is_coinbase(),
            "acp" => cs.acp,
            "base" => cs.base == c["is"].as_str().unwrap(),
            "kind" => (if cs.transparent { "transparent" } else { "shielded" }) == c["is"].as_str().unwrap(),
            "signedHasOutput" => cs.transparent && cs.j >= 1 && cs.j <= self.w.count("vout"),
            o => return Err(format!("unknown condition {o}")),
        })
    }

    fn seq(&mut self, ns: &Value, cs: &SigCase, ix: usize, out: &mut Vec<u8>) -> Result<(), String> {
        for n in ns.as_array().ok_or("children are not a sequence")? {
            self.eval(n, cs, ix, out)?;
        }
        Ok(())
    }

    fn eval(&mut self, n: &Value, cs: &SigCase, ix: usize, out: &mut Vec<u8>) -> Result<(), String> {
        match n["k"].as_str().ok_or("node without kind")? {
            "h" => {
                let key = (n as *const Value as usize, ix);
                let free = self.is_case_free(n);
                if free {
                    if let Some(v) = self.memo.get(&key) {
                        out.extend_from_slice(v);
                        return Ok(());
                    }
                }
                let mut personal = n["p"].as_str().ok_or("h without personalisation")?.as_bytes().to_vec();
                if n["br"].as_bool().unwrap_or(false) {
                    personal.extend_from_slice(&self.w.src(self.spec, "branch", 0).ok_or("no branch id for this branch in the specification")?);
                }
                if personal.len() != 16 {
                    return Err(format!("personalisation {:?} is not 16 bytes", String::from_utf8_lossy(&personal)));
                }
                let mut pre = vec![];
                self.seq(&n["c"], cs, ix, &mut pre)?;
                let h = blake2b_simd::Params::new().hash_length(32).personal(&personal).hash(&pre);
                if free {
                    self.memo.insert(key, h.as_bytes().to_vec());
                }
                out.extend_from_slice(h.as_bytes());
            }
            "f" => {
                let class = n["f"].as_str().ok_or("f without class")?;
                let b = self.w.class_bytes(self.spec, class, ix)?;
                if self.spec.fields[class].script {
                    out.extend_from_slice(&compact_size(b.len()));
                }
                out.extend_from_slice(&b);
            }
            "k" => out.extend(n["bytes"].as_array().ok_or("k without bytes")?.iter().map(|x| x.as_u64().unwrap() as u8)),
            "z" => out.extend(std::iter::repeat(0u8).take(n["n"].as_u64().ok_or("z without n")? as usize)),
            "p" => match n["p"].as_str().unwrap() {
                "hash_type" => out.extend_from_slice(&(cs.byte as u64).to_le_bytes()[..n["w"].as_u64().unwrap() as usize]),
                "script_code" => {
                    let b = script_bytes(&cs.script_code);
                    out.extend_from_slice(&compact_size(b.len()));
                    out.extend_from_slice(b);
                }
                p => return Err(format!("unknown parameter {p}")),
            },
            "each" => {
                for i in 1..=self.w.count(n["v"].as_str().unwrap()) {
                    self.seq(&n["c"], cs, i, out)?;
                }
            }
            "at" => {
                if cs.j == 0 || cs.j > self.w.count(n["v"].as_str().unwrap()) {
                    return Err(format!("the tree selects element {} of {}, which does not exist", cs.j, n["v"]));
                }
                self.seq(&n["c"], cs, cs.j, out)?;
            }
            "if" => {
                let b = if self.holds(&n["cond"], cs)? { &n["t"] } else { &n["e"] };
                self.eval(b, cs, ix, out)?;
            }
            "cat" => self.seq(&n["c"], cs, ix, out)?,
            "sha256d" => {
                let mut pre = vec![];
                self.seq(&n["c"], cs, ix, &mut pre)?;
                out.extend_from_slice(&sha256d(&pre));
            }
            "ser" => out.extend_from_slice(self.w.ser.as_ref().ok_or("no serialisation")?),
            k => return Err(format!("unknown node kind {k}")),
        }
        Ok(())
    }

    fn digest(&mut self, tree: &Value, cs: &SigCase) -> Result<[u8; 32], String> {
        let mut out = vec![];
        self.eval(tree, cs, 0, &mut out)?;
        <[u8; 32]>::try_from(&out[..]).map_err(|_| format!("the root of the tree evaluates to {} bytes", out.len()))
    }
}

// ------------------------------------------------------------------------------------------------
// calls into the code under test

#[derive(Debug, Clone)]
struct CtxAuth {
    amounts: Vec<Zatoshis>,
    scripts: Vec<Script>,
}
impl tb::Authorization for CtxAuth {
    type ScriptSig = Script;
}
impl tsig::TransparentAuthorizingContext for CtxAuth {
    fn input_amounts(&self) -> Vec<Zatoshis> {
        self.amounts.clone()
    }
    fn input_scriptpubkeys(&self) -> Vec<Script> {
        self.scripts.clone()
    }
}
struct CoinMap(CtxAuth);
impl tb::MapAuth<tb::Authorized, CtxAuth> for CoinMap {
    fn map_script_sig(&self, s: Script) -> Script {
        s
    }
    fn map_authorization(&self, _: tb::Authorized) -> CtxAuth {
        self.0.clone()
    }
}
struct SigAuth;
impl ztx::Authorization for SigAuth {
    type TransparentAuth = CtxAuth;
    type SaplingAuth = sapling::bundle::Authorized;
    type OrchardAuth = orchard::bundle::Authorized;
}

type D32 = Result<[u8; 32], String>;

struct CodeDigests {
    tx: Option<Transaction>,
    txid: D32,
    auth: D32,
    sigs: Vec<D32>,
}

fn sighash_type(ver: &str, byte: u8) -> Result<SighashType, String> {
    if ver == "v5" || ver == "v6" {
        SighashType::parse(byte).ok_or_else(|| format!("SighashType::parse refuses 0x{byte:02x}"))
    } else {
        Ok(SighashType::from_raw(byte))
    }
}

/// txid, auth commitment and the signature hash of every case, as the code under test computes them.
fn code_digests(data: &TransactionData<Authorized>, coins: &Coins, cases: &[SigCase], want_auth: bool) -> CodeDigests {
    let ver = spec_version(data.version());
    let tx = match guarded(|| data.clone().freeze()) {
        Ok(Ok(t)) => Ok(t),
        Ok(Err(e)) => Err(format!("freeze: {e}")),
        Err(p) => Err(format!("panic in freeze: {p}")),
    };
    let txid: D32 = tx.as_ref().map_err(|e| e.clone()).map(|t| *t.txid().as_ref());
    let auth: D32 = if !want_auth {
        Err("not computed".into())
    } else {
        match &tx {
            Err(e) => Err(e.clone()),
            Ok(t) => guarded(|| t.auth_commitment()).map(|h| <[u8; 32]>::try_from(h.as_bytes()).unwrap()).map_err(|p| format!("panic in auth_commitment: {p}")),
        }
    };
    let mut sigs = vec![];
    if !cases.is_empty() {
        let ctx = CtxAuth { amounts: coins.iter().map(|c| c.0).collect(), scripts: coins.iter().map(|c| c.1.clone()).collect() };
        let sigdata: TransactionData<SigAuth> = data.clone().map_authorization(CoinMap(ctx), (), ());
        match guarded(|| sigdata.digest(TxIdDigester)) {
            Err(p) => sigs = cases.iter().map(|_| Err(format!("panic in digest(TxIdDigester): {p}"))).collect(),
            Ok(parts) => {
                for cs in cases {
                    let r: D32 = (|| {
                        let input = if cs.transparent {
                            let bundle = sigdata.transparent_bundle().ok_or("harness: transparent case without a bundle")?;
                            let ht = sighash_type(ver, cs.byte)?;
                            let coin = &coins[cs.j - 1];
                            let si = tsig::SignableInput::from_parts(bundle, ht, cs.j - 1, &cs.script_code, &coin.1, coin.0)
                                .map_err(|e| format!("SignableInput::from_parts: {e}"))?;
                            SignableInput::Transparent(si)
                        } else {
                            SignableInput::Shielded
                        };
                        guarded(|| *signature_hash(&sigdata, &input, &parts).as_ref()).map_err(|p| format!("panic in signature_hash: {p}"))
                    })();
                    sigs.push(r);
                }
            }
        }
    }
    CodeDigests { tx: tx.ok(), txid, auth, sigs }
}

// ------------------------------------------------------------------------------------------------
// one-field mutations through the public constructors

fn bump_zat(v: Zatoshis) -> Zatoshis {
    let x = u64::from(v);
    Zatoshis::from_u64(if x >= MAX_MONEY { x - 1 } else { x + 1 }).unwrap()
}
fn bump_bal(v: ZatBalance) -> ZatBalance {
    let x = i64::from(v);
    ZatBalance::from_i64(if x >= MAX_MONEY as i64 { x - 1 } else { x + 1 }).unwrap()
}
fn mutate_script(s: &Script, r: &mut Rnd) -> Script {
    let mut b = script_bytes(s).to_vec();
    match (b.is_empty(), r.below(3)) {
        (true, _) | (false, 0) => b.push(0x51 + r.below(8) as u8), // longer (the length prefix changes too)
        (false, 1) => {
            b.pop();
        }
        _ => r.flip(&mut b),
    }
    script_of(b)
}
fn flipped<const N: usize>(mut b: [u8; N], r: &mut Rnd) -> [u8; N] {
    r.flip(&mut b);
    b
}
fn flip_range<const N: usize>(mut b: [u8; N], from: usize, len: usize, r: &mut Rnd) -> [u8; N] {
    r.flip(&mut b[from..from + len]);
    b
}

fn spend_with(sp: &SaplingSpend, f: &str, donor: &SaplingSpend, r: &mut Rnd) -> SaplingSpend {
    let (mut cv, mut anchor, mut nf, mut rk, mut proof, mut sig) = (sp.cv().clone(), *sp.anchor(), *sp.nullifier(), *sp.rk(), *sp.zkproof(), *sp.spend_auth_sig());
    match f {
        "spend.cv" => cv = donor.cv().clone(),
        "spend.anchor" => anchor = *donor.anchor(),
        "spend.nf" => nf = sapling::Nullifier(flipped(nf.0, r)),
        "spend.rk" => rk = *donor.rk(),
        "spend.proof" => proof = flipped(proof, r),
        "spend.sig" => sig = flipped(<[u8; 64]>::from(sig), r).into(),
        _ => panic!("not a spend class: {f}"),
    }
    SpendDescription::from_parts(cv, anchor, nf, rk, proof, sig)
}
fn output_with(o: &SaplingOutput, f: &str, donor: &SaplingOutput, r: &mut Rnd) -> SaplingOutput {
    let (mut cv, mut cmu, mut epk, mut enc, mut out, mut proof) = (o.cv().clone(), *o.cmu(), o.ephemeral_key().clone(), *o.enc_ciphertext(), *o.out_ciphertext(), *o.zkproof());
    match f {
        "output.cv" => cv = donor.cv().clone(),
        "output.cmu" => cmu = *donor.cmu(),
        "output.epk" => epk = zcash_note_encryption::EphemeralKeyBytes(flipped(epk.0, r)),
        "output.enc_c" => enc = flip_range(enc, 0, 52, r),
        "output.enc_m" => enc = flip_range(enc, 52, 512, r),
        "output.enc_n" => enc = flip_range(enc, 564, 16, r),
        "output.out" => out = flipped(out, r),
        "output.proof" => proof = flipped(proof, r),
        _ => panic!("not an output class: {f}"),
    }
    OutputDescription::from_parts(cv, cmu, epk, enc, out, proof)
}
type OAction = h_tx::txgen::OrchardAction;
fn action_with(a: &OAction, f: &str, donor: &OAction, r: &mut Rnd) -> Result<OAction, String> {
    let (mut nf, mut rk, mut cmx, mut cv, mut sig) = (*a.nullifier(), a.rk().clone(), *a.cmx(), a.cv_net().clone(), a.authorization().clone());
    let en = a.encrypted_note();
    let (mut epk, mut enc, mut out) = (en.epk_bytes, en.enc_ciphertext, en.out_ciphertext);
    match f {
        "cv" => cv = donor.cv_net().clone(),
        "nf" => nf = *donor.nullifier(),
        "rk" => rk = donor.rk().clone(),
        "cmx" => cmx = *donor.cmx(),
        "epk" => epk = donor.encrypted_note().epk_bytes, // must be a curve point
        "enc_c" => enc = flip_range(enc, 0, 52, r),
        "enc_m" => enc = flip_range(enc, 52, 512, r),
        "enc_n" => enc = flip_range(enc, 564, 16, r),
        "out" => out = flipped(out, r),
        "sig" => sig = flipped(<[u8; 64]>::from(&sig), r).into(),
        _ => panic!("not an action class: {f}"),
    }
    Action::from_parts(nf, rk, cmx, TransmittedNoteCiphertext { epk_bytes: epk, enc_ciphertext: enc, out_ciphertext: out }, cv, sig)
        .map_err(|e| format!("Action::from_parts: {e:?}"))
}
fn flag_byte(o: &OrchardParts) -> u8 {
    let cross = o.bundle_version.value_pool() == ValuePool::Ironwood && o.flags.cross_address_enabled();
    u8::from(o.flags.spends_enabled()) | (u8::from(o.flags.outputs_enabled()) << 1) | (u8::from(cross) << 2)
}
fn orchard_with(o: &OrchardParts, f: &str, i: usize, donor: &OrchardParts, r: &mut Rnd) -> Result<OrchardParts, String> {
    let mut o = o.clone();
    match f {
        "flags" => {
            let nbits = if o.bundle_version.value_pool() == ValuePool::Ironwood { 3 } else { 2 };
            let b = flag_byte(&o) ^ (1 << r.below(nbits));
            o.flags = Flags::from_byte(b, o.bundle_version).ok_or_else(|| format!("Flags::from_byte refuses {b}"))?;
        }
        "vb" => o.value_balance = bump_bal(o.value_balance),
        "anchor" => o.anchor = donor.anchor,
        "proof" => r.flip(&mut o.proof),
        "binding" => o.binding_sig = flipped(<[u8; 64]>::from(&o.binding_sig), r).into(),
        _ => {
            let d = &donor.actions[(i + r.below(donor.actions.len())) % donor.actions.len()];
            o.actions[i - 1] = action_with(&o.actions[i - 1], f, d, r)?;
        }
    }
    Ok(o)
}

fn js_with(j: &sprout::JsDescription, blob: &[u8], ver: &str, f: &str, r: &mut Rnd) -> Result<sprout::JsDescription, String> {
    let _ = j;
    let mut b = blob.to_vec();
    let (o, l) = js_region(ver, f);
    if f == "js.vpub_old" || f == "js.vpub_new" {
        let v = u64::from_le_bytes(b[o..o + 8].try_into().unwrap());
        let v2 = if v >= MAX_MONEY { v - 1 } else { v + 1 };
        b[o..o + 8].copy_from_slice(&v2.to_le_bytes());
    } else {
        r.flip(&mut b[o..o + l]);
    }
    sprout::JsDescription::read(&b[..], ver == "v4").map_err(|e| format!("JsDescription::read: {e}"))
}

/// `parts` / `coins` with exactly the field instance (class f, index i) changed.
/// Ok(None): no different value is available for this instance.
fn mutate(w: &World, parts: &TxParts, coins: &Coins, f: &str, i: usize, donor: &TxParts, r: &mut Rnd) -> Result<Option<(TxParts, Coins)>, String> {
    let mut p = parts.clone();
    let mut c = coins.clone();
    let k = i.wrapping_sub(1);
    if let Some((pool, g)) = f.split_once('.').filter(|(p, _)| *p == "orchard" || *p == "ironwood") {
        let (slot, dslot) = if pool == "orchard" { (&mut p.orchard, &donor.orchard) } else { (&mut p.ironwood, &donor.ironwood) };
        let (Some(o), Some(d)) = (slot.as_ref(), dslot.as_ref()) else { return Err(format!("no {pool} bundle to mutate")) };
        *slot = Some(orchard_with(o, g, i, d, r)?);
        return Ok(Some((p, c)));
    }
    match f {
        "lock_time" => p.lock_time ^= 1 << r.below(32),
        "expiry" => p.expiry_height ^= 1 << r.below(32),
        "branch" => {
            let all = h_tx::txgen::ALL_BRANCHES;
            let cur = all.iter().position(|b| *b == p.branch).unwrap();
            // another branch; for v4 / v5 one under which the version is valid, when there is one
            let ok = |b: &zcash_protocol::consensus::BranchId| p.version.valid_in_branch(*b) && *b != p.branch;
            let cands: Vec<_> = all.iter().filter(|b| ok(b)).collect();
            p.branch = if cands.is_empty() { all[(cur + 1 + r.below(all.len() - 1)) % all.len()] } else { *cands[r.below(cands.len())] };
        }
        "in.prevout_hash" => p.vin[k] = TxIn::from_parts(OutPoint::new(flipped(*p.vin[k].prevout().hash(), r), p.vin[k].prevout().n()), p.vin[k].script_sig().clone(), p.vin[k].sequence()),
        "in.prevout_n" => p.vin[k] = TxIn::from_parts(OutPoint::new(*p.vin[k].prevout().hash(), p.vin[k].prevout().n() ^ (1 << r.below(31))), p.vin[k].script_sig().clone(), p.vin[k].sequence()),
        "in.script" => p.vin[k] = TxIn::from_parts(p.vin[k].prevout().clone(), mutate_script(p.vin[k].script_sig(), r), p.vin[k].sequence()),
        "in.sequence" => p.vin[k] = TxIn::from_parts(p.vin[k].prevout().clone(), p.vin[k].script_sig().clone(), p.vin[k].sequence() ^ (1 << r.below(32))),
        "out.value" => p.vout[k] = TxOut::new(bump_zat(p.vout[k].value()), p.vout[k].script_pubkey().clone()),
        "out.script" => p.vout[k] = TxOut::new(p.vout[k].value(), mutate_script(p.vout[k].script_pubkey(), r)),
        "coin.value" => c[k].0 = bump_zat(c[k].0),
        "coin.script" => c[k].1 = mutate_script(&c[k].1, r),
        "sprout.pubkey" => r.flip(&mut p.sprout.as_mut().ok_or("no Sprout bundle")?.joinsplit_pubkey),
        "sprout.sig" => r.flip(&mut p.sprout.as_mut().ok_or("no Sprout bundle")?.joinsplit_sig),
        _ if f.starts_with("js.") => {
            let (a, b) = w.js[k];
            let blob = &w.ser.as_ref().unwrap()[a..b];
            let sb = p.sprout.as_mut().ok_or("no Sprout bundle")?;
            sb.joinsplits[k] = js_with(&sb.joinsplits[k], blob, w.ver, f, r)?;
        }
        "sapling.vb" => {
            let s = p.sapling.as_mut().ok_or("no Sapling bundle")?;
            s.value_balance = bump_bal(s.value_balance);
        }
        "sapling.binding" => {
            let s = p.sapling.as_mut().ok_or("no Sapling bundle")?;
            s.authorization = sapling_authorized_from_bytes(flipped(sapling_binding_sig_bytes(&s.authorization), r));
        }
        "sapling.anchor" => {
            let s = p.sapling.as_mut().ok_or("no Sapling bundle")?;
            let cur = sapling_anchor_bytes(&s.spends[0]);
            let d = donor.sapling.as_ref().and_then(|d| d.spends.iter().find(|x| sapling_anchor_bytes(x) != cur));
            let Some(d) = d else { return Ok(None) };
            s.spends = s.spends.iter().map(|sp| spend_with_anchor_of(sp, d)).collect();
        }
        _ if f.starts_with("spend.") => {
            let s = p.sapling.as_mut().ok_or("no Sapling bundle")?;
            let ds = &donor.sapling.as_ref().ok_or("donor without Sapling bundle")?.spends;
            let d = &ds[(k + r.below(ds.len())) % ds.len()];
            s.spends[k] = spend_with(&s.spends[k], f, d, r);
        }
        _ if f.starts_with("output.") => {
            let s = p.sapling.as_mut().ok_or("no Sapling bundle")?;
            let ds = &donor.sapling.as_ref().ok_or("donor without Sapling bundle")?.outputs;
            let d = &ds[(k + r.below(ds.len())) % ds.len()];
            s.outputs[k] = output_with(&s.outputs[k], f, d, r);
        }
        _ => return Err(format!("harness: no mutation rule for class {f}")),
    }
    Ok(Some((p, c)))
}

// ------------------------------------------------------------------------------------------------
// report

struct Report {
    mismatches: Vec<Value>,
    count: usize,
    harness_errors: Vec<String>,
}
impl Report {
    fn bad(&mut self, v: Value) {
        self.count += 1;
        if self.mismatches.len() < 40 {
            self.mismatches.push(v);
        }
    }
    fn harness(&mut self, s: String) {
        if self.harness_errors.len() < 20 {
            self.harness_errors.push(s);
        }
    }
}

#[derive(Default)]
struct Stats {
    txs: usize,
    eq_txid: usize,
    eq_auth: usize,
    eq_sig: usize,
    eq_read: usize,
    read_skipped: usize,
    mutants: usize,
    mutants_skipped: usize,
    comparisons: usize,
    changed: usize,
    unchanged: usize,
    pred_checks: usize,
    param_checks: usize,
    rows: BTreeSet<String>,
    digests: std::collections::HashSet<[u8; 32]>,
    versions: BTreeSet<String>,
    max_tx_len: usize,
}

struct Opts {
    eq_on_mutants: bool,
    /// development aid: false switches the equality comparisons off (to see what sensitivity alone catches)
    equality: bool,
}

fn tclass(w: &World) -> &'static str {
    if w.count("vin") == 0 {
        "noinputs"
    } else if w.is_coinbase() {
        "coinbase"
    } else {
        "inputs"
    }
}
fn abstract_case(w: &World, cs: &SigCase) -> Value {
    json!({"kind": if cs.transparent { "transparent" } else { "shielded" }, "base": cs.base, "acp": cs.acp, "tclass": tclass(w),
           "jout": cs.transparent && cs.j <= w.count("vout")})
}
fn rel_of(spec: &Spec, f: &str, i: usize, cs: &SigCase) -> &'static str {
    match spec.fields.get(f) {
        Some(fd) if cs.transparent && (fd.vec == "vin" || fd.vec == "vout") => {
            if i == cs.j {
                "same"
            } else {
                "other"
            }
        }
        _ => "na",
    }
}
fn no_ac() -> Value {
    json!({"kind": "-", "base": "all", "acp": false, "tclass": "-", "jout": false})
}

fn random_script(r: &mut Rnd) -> Script {
    let len = match r.below(8) {
        0 => 0,
        1 => 25,
        2 => 23,
        3 => 252,
        4 => 253,
        5 => 35,
        _ => 1 + r.below(60),
    };
    script_of((0..len).map(|_| r.next() as u8).collect())
}
fn random_value(r: &mut Rnd) -> Zatoshis {
    Zatoshis::from_u64(match r.below(6) {
        0 => 0,
        1 => MAX_MONEY,
        2 => 1,
        _ => r.next() % MAX_MONEY,
    })
    .unwrap()
}

fn serialise(tx: &Transaction) -> Result<Vec<u8>, String> {
    match guarded(|| {
        let mut buf = vec![];
        tx.write(&mut buf).map(|_| buf)
    }) {
        Err(p) => Err(format!("panic in write: {p}")),
        Ok(Err(e)) => Err(format!("write: {e}")),
        Ok(Ok(b)) => Ok(b),
    }
}

/// The bytes around the first difference of two values, for messages.
fn window(a: &[u8], b: &[u8]) -> (String, String) {
    let d = a.iter().zip(b.iter()).position(|(x, y)| x != y).unwrap_or(a.len().min(b.len()));
    let lo = d.saturating_sub(4);
    let show = |v: &[u8]| format!("{}{}@{}/{}", if lo > 0 { ".." } else { "" }, hx(&v[lo.min(v.len())..(lo + 12).min(v.len())]), lo, v.len());
    (show(a), show(b))
}

fn pred_has(leaves: &Value, f: &str, i: usize) -> bool {
    leaves.as_array().expect("leaf list").iter().any(|p| p[0].as_str() == Some(f) && p[1].as_u64() == Some(i as u64))
}

#[allow(clippy::too_many_arguments)]
fn process_case(spec: &Spec, g: &TxGen, seed: u64, c: &Value, opts: &Opts, rep: &mut Report, st: &mut Stats) {
    let id = c["id"].as_u64().expect("case id");
    let sample = c["sample"].as_u64().unwrap_or(0);
    let sj = &c["shape"];
    let n = |k: &str| sj[k].as_u64().unwrap_or_else(|| panic!("shape.{k}")) as usize;
    let lens = |k: &str| -> Option<Vec<usize>> { sj.get(k).and_then(|a| a.as_array()).map(|a| a.iter().map(|x| x.as_u64().unwrap() as usize).collect()) };
    let version = version_from_name(sj["ver"].as_str().unwrap()).expect("version");
    let shape = Shape {
        version,
        branch: branch_from_name(sj["branch"].as_str().unwrap()).expect("branch"),
        n_vin: n("nIn"),
        n_vout: n("nOut"),
        n_joinsplits: n("nJS"),
        n_spends: n("nSp"),
        n_outputs: n("nSO"),
        n_orchard: n("nAct"),
        n_ironwood: n("nIrw"),
        script_sig_lens: lens("sigLens"),
        script_pubkey_lens: lens("pkLens"),
        orchard_proof_len: None,
    };
    let cb = sj["cb"].as_bool().unwrap_or(false);
    let salt = mix(mix(seed ^ 0xC04C04) ^ mix(id.wrapping_mul(1_000_003) ^ (sample << 48)));
    let ctx = json!({"case": id, "sample": sample, "shape": sj});
    let mut parts = match guarded(|| g.parts_with(&shape, salt)) {
        Ok(Ok(p)) => p,
        Ok(Err(e)) => return rep.harness(format!("case {id}: generator: {e}")),
        Err(p) => return rep.harness(format!("case {id}: generator panicked: {p}")),
    };
    if cb {
        parts.vin[0] = TxIn::from_parts(OutPoint::new([0u8; 32], u32::MAX), parts.vin[0].script_sig().clone(), parts.vin[0].sequence());
    }
    let ver = spec_version(version);
    let vs = &spec.vers[ver];
    let v5plus = ver == "v5" || ver == "v6";
    let has_sighash = !ver.starts_with("sprout");
    let mut r = Rnd(mix(salt ^ 0x5151));
    let coins: Coins = (0..parts.vin.len()).map(|_| (random_value(&mut r), random_script(&mut r))).collect();
    let mut cases: Vec<SigCase> = vec![];
    if has_sighash {
        cases.push(SigCase::shielded());
        if !cb {
            for j in 1..=parts.vin.len() {
                for ht in &vs.hash_types {
                    // callers pass the coin's script as script code for P2PKH, something else for P2SH
                    let sc = if r.below(2) == 0 { coins[j - 1].1.clone() } else { random_script(&mut r) };
                    cases.push(SigCase { transparent: true, byte: ht.byte, base: ht.base.clone(), acp: ht.acp, j, script_code: sc });
                }
            }
        }
    }
    let data = match parts.build() {
        Ok(d) => d,
        Err(e) => return rep.harness(format!("case {id}: build: {e}")),
    };
    let d0 = code_digests(&data, &coins, &cases, v5plus);
    st.txs += 1;
    st.versions.insert(format!("{ver}/{}", branch_name(shape.branch)));
    let ser = match &d0.tx {
        None => None,
        Some(tx) => match serialise(tx) {
            Ok(b) => Some(b),
            Err(e) => {
                if !v5plus {
                    return rep.bad(json!({"kind": "equality", "ctx": ctx, "what": format!("the transaction cannot be serialised ({e}), so its identifier is not the hash of a serialisation")}));
                }
                None
            }
        },
    };
    if let Some(s) = &ser {
        st.max_tx_len = st.max_tx_len.max(s.len());
    }
    let w = match World::new(&data, &coins, if v5plus { None } else { ser.clone() }) {
        Ok(w) => w,
        Err(e) => return rep.harness(format!("case {id}: {e}")),
    };
    let only = c.get("only").filter(|o| o.is_object());

    // ---- (a) equality with the evaluation of the specification's trees
    if opts.equality {
        let mut ev = Evaluator::new(spec, &w);
        let none = SigCase::shielded();
        let cmp = |what: &str, code: &D32, exp: Result<[u8; 32], String>, rep: &mut Report, n: &mut usize| match (code, exp) {
            (_, Err(e)) => rep.harness(format!("case {id}: evaluating the {what} tree: {e}")),
            (Err(e), _) => rep.bad(json!({"kind": "equality", "ctx": ctx, "digest": what, "what": format!("the code under test fails: {e}")})),
            (Ok(a), Ok(b)) => {
                *n += 1;
                if *a != b {
                    rep.bad(json!({"kind": "equality", "ctx": ctx, "digest": what,
                        "what": format!("{what} of a {ver} transaction: the code gives {}, the evaluation of the specification's tree gives {}", hx(a), hx(&b))}));
                }
            }
        };
        let e = ev.digest(&vs.txid, &none);
        cmp("txid", &d0.txid, e, rep, &mut st.eq_txid);
        if v5plus {
            let e = ev.digest(&vs.auth, &none);
            cmp("auth_commitment", &d0.auth, e, rep, &mut st.eq_auth);
        }
        for (k, cs) in cases.iter().enumerate() {
            let e = ev.digest(&vs.sig, cs);
            cmp(&format!("signature_hash ({})", cs.label()), &d0.sigs[k], e, rep, &mut st.eq_sig);
        }
        // the identifier of the parsed serialisation (a different code path before v5)
        match (&ser, &d0.txid) {
            (Some(s), Ok(id0)) => match guarded(|| Transaction::read(&s[..], shape.branch)) {
                Ok(Ok(t)) => {
                    st.eq_read += 1;
                    if t.txid().as_ref() != id0 {
                        rep.bad(json!({"kind": "equality", "ctx": ctx, "digest": "txid(read)",
                            "what": format!("Transaction::read of the serialisation has txid {}, the transaction built from the same parts {}", hx(t.txid().as_ref()), hx(id0))}));
                    }
                    if v5plus {
                        if let (Ok(a), Ok(a0)) = (guarded(|| t.auth_commitment()), &d0.auth) {
                            if a.as_bytes() != a0 {
                                rep.bad(json!({"kind": "equality", "ctx": ctx, "digest": "auth_commitment(read)",
                                    "what": "the parsed serialisation has another authorising-data commitment than the transaction built from the same parts"}));
                            }
                        }
                    }
                }
                _ => st.read_skipped += 1, // round-trip failures are C03's business
            },
            _ => st.read_skipped += 1,
        }
    }
    for d in std::iter::once(&d0.txid).chain(std::iter::once(&d0.auth)).chain(d0.sigs.iter()) {
        if let Ok(h) = d {
            st.digests.insert(*h);
        }
    }
    if rep.count > 0 && rep.mismatches.iter().any(|m| m["kind"] == "equality" && m["ctx"]["case"] == id) {
        return; // sensitivity of a digest that is already wrong adds nothing
    }

    // ---- expected sensitivity of one digest to one field instance
    let pred = c.get("pred").filter(|p| p.is_object());
    let pred_sig = |cs: &SigCase| -> Option<&Value> {
        pred.and_then(|p| {
            p["sigs"].as_array().unwrap().iter().find(|s| {
                let k = &s["cs"];
                k["kind"].as_str() == Some(if cs.transparent { "transparent" } else { "shielded" })
                    && k["base"].as_str() == Some(&cs.base)
                    && k["acp"].as_bool() == Some(cs.acp)
                    && k["j"].as_u64() == Some(cs.j as u64)
            })
        })
    };
    // (table row, expected) for (digest, field instance); Err: the specification has no answer
    let expect = |dig: &str, cs: Option<&SigCase>, f: &str, i: usize, st: &mut Stats| -> Result<(String, bool), String> {
        let (ac, rel) = match cs {
            Some(cs) => (abstract_case(&w, cs), rel_of(spec, f, i, cs)),
            None => (no_ac(), "na"),
        };
        let key = row_key(ver, dig, &ac, f, rel);
        let e = *spec.table.get(&key).ok_or_else(|| format!("the sensitivity table has no row {key}"))?;
        // TLC's concrete leaf set of this very shape must say the same
        if let Some(p) = pred {
            let leaves = match (dig, cs) {
                ("txid", _) => Some(&p["txid"]),
                ("auth", _) => Some(&p["auth"]),
                (_, Some(cs)) => pred_sig(cs).map(|s| &s["leaves"]),
                _ => None,
            };
            if let Some(l) = leaves {
                st.pred_checks += 1;
                if pred_has(l, f, i) != e {
                    return Err(format!("the table row {key} says {e}, TLC's leaf set for this shape says {}", !e));
                }
            } else if cs.is_some_and(|cs| vs.hash_types.iter().filter(|h| h.base == cs.base && h.acp == cs.acp).count() == 1) {
                return Err(format!("TLC printed no signature case for {key}"));
            }
        }
        Ok((key, e))
    };

    // ---- (b) one-field mutations
    let dump0 = w.dump(spec);
    let mut instances: Vec<(String, usize)> = dump0.keys().cloned().collect();
    if !has_sighash {
        instances.retain(|(f, _)| !f.starts_with("coin."));
    }
    if cb {
        instances.retain(|(f, _)| !f.starts_with("coin."));
    }
    for (f, i) in instances {
        if let Some(o) = only {
            if o["f"].as_str() != Some(&f) || o["i"].as_u64() != Some(i as u64) {
                continue;
            }
        }
        let fh = f.bytes().fold(7u64, |a, b| a.wrapping_mul(131).wrapping_add(b as u64));
        let mut done = false;
        for attempt in 0..4u64 {
            let mut mr = Rnd(mix(salt ^ fh ^ ((i as u64) << 32) ^ (attempt << 56)));
            let donor = match guarded(|| g.parts_with(&shape, mix(salt ^ 0xD0D0 ^ attempt))) {
                Ok(Ok(p)) => p,
                _ => return rep.harness(format!("case {id}: donor generation failed")),
            };
            let (p2, c2) = match mutate(&w, &parts, &coins, &f, i, &donor, &mut mr) {
                Ok(Some(x)) => x,
                Ok(None) => continue,
                Err(e) => {
                    rep.harness(format!("case {id}: mutation of {f}[{i}]: {e}"));
                    done = true;
                    break;
                }
            };
            let data2 = match p2.build() {
                Ok(d) => d,
                Err(e) => {
                    rep.harness(format!("case {id}: rebuilding after a mutation of {f}[{i}]: {e}"));
                    done = true;
                    break;
                }
            };
            let d1 = code_digests(&data2, &c2, &cases, v5plus);
            let ser2 = if v5plus { None } else { d1.tx.as_ref().and_then(|t| serialise(t).ok()) };
            if !v5plus && ser2.is_none() {
                rep.bad(json!({"kind": "sensitivity", "ctx": ctx, "only": {"f": f, "i": i}, "what": format!("after changing {f}[{i}] the transaction cannot be serialised")}));
                done = true;
                break;
            }
            let w2 = match World::new(&data2, &c2, ser2) {
                Ok(w) => w,
                Err(e) => {
                    rep.harness(format!("case {id}: after a mutation of {f}[{i}]: {e}"));
                    done = true;
                    break;
                }
            };
            // exactly this field instance must differ
            let dump1 = w2.dump(spec);
            let diff: Vec<&(String, usize)> = dump0.keys().chain(dump1.keys()).filter(|k| dump0.get(*k) != dump1.get(*k)).collect::<BTreeSet<_>>().into_iter().collect();
            if diff.is_empty() {
                continue; // the donor happened to hold the same value
            }
            if diff.len() != 1 || *diff[0] != (f.clone(), i) {
                rep.harness(format!("case {id}: the mutation of {f}[{i}] changed {:?}", diff));
                done = true;
                break;
            }
            done = true;
            st.mutants += 1;
            let check = |dig: &str, cs: Option<&SigCase>, a: &D32, b: &D32, rep: &mut Report, st: &mut Stats| {
                let (key, e) = match expect(dig, cs, &f, i, st) {
                    Ok(x) => x,
                    Err(e) => return rep.harness(format!("case {id}: {e}")),
                };
                let (a, b) = match (a, b) {
                    (Ok(a), Ok(b)) => (a, b),
                    (_, Err(e)) | (Err(e), _) => {
                        return rep.bad(json!({"kind": "sensitivity", "ctx": ctx, "only": {"f": f, "i": i}, "row": key,
                            "what": format!("the code under test fails after changing {f}[{i}]: {e}")}));
                    }
                };
                st.comparisons += 1;
                st.rows.insert(key.clone());
                let changed = a != b;
                if changed {
                    st.changed += 1;
                    st.digests.insert(*b);
                } else {
                    st.unchanged += 1;
                }
                if changed != e {
                    let label = match cs {
                        Some(cs) => format!("signature_hash ({})", cs.label()),
                        None => (if dig == "txid" { "txid" } else { "auth_commitment" }).to_string(),
                    };
                    rep.bad(json!({"kind": "sensitivity", "ctx": ctx, "only": {"f": f, "i": i}, "row": key, "digest": label,
                        "what": format!("{ver}: changing only {f}[{}] ({} -> {}) leaves {label} {}; the specification says it {}",
                            if i == 0 { "-".to_string() } else { (i - 1).to_string() },
                            window(&dump0[&(f.clone(), i)], &dump1[&(f.clone(), i)]).0, window(&dump0[&(f.clone(), i)], &dump1[&(f.clone(), i)]).1,
                            if changed { "changed" } else { "unchanged" }, if e { "changes" } else { "is unchanged" })}));
                }
            };
            let external = vs.roles[&f] == "external";
            if !external {
                check("txid", None, &d0.txid, &d1.txid, rep, st);
                if v5plus {
                    check("auth", None, &d0.auth, &d1.auth, rep, st);
                }
            }
            for (k, cs) in cases.iter().enumerate() {
                check("sig", Some(cs), &d0.sigs[k], &d1.sigs[k], rep, st);
            }
            if opts.eq_on_mutants && opts.equality {
                let mut ev = Evaluator::new(spec, &w2);
                let none = SigCase::shielded();
                let mut digs: Vec<(String, &D32, &Value, &SigCase)> = vec![("txid".into(), &d1.txid, &vs.txid, &none)];
                if v5plus {
                    digs.push(("auth_commitment".into(), &d1.auth, &vs.auth, &none));
                }
                for (k, cs) in cases.iter().enumerate() {
                    digs.push((format!("signature_hash ({})", cs.label()), &d1.sigs[k], &vs.sig, cs));
                }
                for (what, code, tree, cs) in digs {
                    match (code, ev.digest(tree, cs)) {
                        (Ok(a), Ok(b)) => {
                            st.eq_sig += 1;
                            if *a != b {
                                rep.bad(json!({"kind": "equality", "ctx": ctx, "only": {"f": f, "i": i}, "digest": what,
                                    "what": format!("{what} of a {ver} transaction (after changing {f}[{i}]): the code gives {}, the specification's tree {}", hx(a), hx(&b))}));
                            }
                        }
                        (_, Err(e)) => rep.harness(format!("case {id}: evaluating a tree on a mutant: {e}")),
                        _ => {}
                    }
                }
            }
            break;
        }
        if !done {
            st.mutants_skipped += 1;
        }
    }

    // ---- parameters of the signature case: hash type and script code
    if only.is_none() || only.is_some_and(|o| o["f"] == "hash_type" || o["f"] == "script_code") {
        let tcases: Vec<(usize, &SigCase)> = cases.iter().enumerate().filter(|(_, c)| c.transparent).collect();
        // hash type: the digests of one input under any two hash types differ
        for (k, cs) in &tcases {
            let (key, e) = match expect("sig", Some(cs), "hash_type", 0, st) {
                Ok(x) => x,
                Err(e) => {
                    rep.harness(format!("case {id}: {e}"));
                    break;
                }
            };
            for (k2, cs2) in &tcases {
                if cs2.j == cs.j && cs2.byte != cs.byte {
                    if let (Ok(a), Ok(b)) = (&d0.sigs[*k], &d0.sigs[*k2]) {
                        st.param_checks += 1;
                        st.rows.insert(key.clone());
                        if (a != b) != e {
                            rep.bad(json!({"kind": "sensitivity", "ctx": ctx, "only": {"f": "hash_type", "i": 0}, "row": key,
                                "what": format!("{ver}: input {} has the same signature hash under hash types 0x{:02x} and 0x{:02x}", cs.j - 1, cs.byte, cs2.byte)}));
                        }
                    }
                }
            }
        }
        // script code
        if !tcases.is_empty() {
            let mut r2 = Rnd(mix(salt ^ 0x5C5C));
            let alt: Vec<SigCase> = tcases
                .iter()
                .map(|(_, c)| {
                    let mut c2 = (*c).clone();
                    c2.script_code = mutate_script(&c.script_code, &mut r2);
                    c2
                })
                .collect();
            let d1 = code_digests(&data, &coins, &alt, false);
            for (n, (k, cs)) in tcases.iter().enumerate() {
                match expect("sig", Some(cs), "script_code", 0, st) {
                    Err(e) => {
                        rep.harness(format!("case {id}: {e}"));
                        break;
                    }
                    Ok((key, e)) => {
                        if let (Ok(a), Ok(b)) = (&d0.sigs[*k], &d1.sigs[n]) {
                            st.param_checks += 1;
                            st.rows.insert(key.clone());
                            if (a != b) != e {
                                rep.bad(json!({"kind": "sensitivity", "ctx": ctx, "only": {"f": "script_code", "i": 0}, "row": key,
                                    "what": format!("{ver}: changing only the script code leaves signature_hash ({}) {}; the specification says it {}",
                                        cs.label(), if a != b { "changed" } else { "unchanged" }, if e { "changes" } else { "is unchanged" })}));
                            }
                        }
                    }
                }
            }
        }
    }
}

// ------------------------------------------------------------------------------------------------
// (c) validators

fn check_tables(spec: &Spec, rep: &mut Report) -> (usize, usize) {
    let mut n_parse = 0;
    for b in 0..=255u8 {
        n_parse += 1;
        let want = spec.parse[b as usize];
        match guarded(|| SighashType::parse(b).map(|t| t.encode())) {
            Err(p) => rep.bad(json!({"kind": "parse", "byte": b, "what": format!("SighashType::parse(0x{b:02x}) panics: {p}")})),
            Ok(got) => {
                if got.is_some() != want {
                    rep.bad(json!({"kind": "parse", "byte": b, "what": format!("SighashType::parse(0x{b:02x}) {} it; ZIP 244 S.2a says it is {}",
                        if got.is_some() { "accepts" } else { "refuses" }, if want { "valid" } else { "invalid" })}));
                } else if let Some(e) = got {
                    if e != b {
                        rep.bad(json!({"kind": "parse", "byte": b, "what": format!("SighashType::parse(0x{b:02x}).encode() = 0x{e:02x}")}));
                    }
                }
            }
        }
    }
    let mut n_idx = 0;
    let script = script_of(vec![0x51]);
    let mut cases = spec.index_cases.clone();
    for n in 0..=3 {
        cases.push((n, usize::MAX, false));
    }
    for (n_in, index, ok) in cases {
        n_idx += 1;
        let bundle = tb::Bundle::<tb::Authorized> {
            vin: (0..n_in).map(|k| TxIn::from_parts(OutPoint::new([k as u8 + 1; 32], k as u32), script.clone(), u32::MAX)).collect(),
            vout: vec![],
            authorization: tb::Authorized,
        };
        let value = Zatoshis::from_u64(5).unwrap();
        let got = guarded(|| {
            tsig::SignableInput::from_parts(&bundle, SighashType::SINGLE_ANYONECANPAY, index, &script, &script, value)
                .map(|s| (*s.index(), s.hash_type().encode(), *s.value()))
                .ok()
        });
        match got {
            Err(p) => rep.bad(json!({"kind": "index", "nIn": n_in, "index": index, "what": format!("SignableInput::from_parts panics: {p}")})),
            Ok(g) => {
                if g.is_some() != ok {
                    rep.bad(json!({"kind": "index", "nIn": n_in, "index": index,
                        "what": format!("SignableInput::from_parts with {n_in} inputs {} index {index}", if g.is_some() { "accepts" } else { "refuses" })}));
                } else if let Some((i, h, v)) = g {
                    if i != index || h != 0x83 || v != value {
                        rep.bad(json!({"kind": "index", "nIn": n_in, "index": index, "what": "SignableInput::from_parts does not hold what it was given"}));
                    }
                }
            }
        }
    }
    (n_parse, n_idx)
}

fn main() {
    let args: Vec<String> = std::env::args().collect();
    let input: Value = serde_json::from_str(&std::fs::read_to_string(&args[1]).expect("read input")).expect("input json");
    let seed = input.get("seed").and_then(|s| s.as_u64()).unwrap_or_else(seed_from_env);
    quiet_panics();
    let spec = load_spec(&input["spec"]);
    let opts = Opts { eq_on_mutants: input["opts"]["eq_on_mutants"].as_bool().unwrap_or(false), equality: input["opts"]["equality"].as_bool().unwrap_or(true) };
    let g = TxGen::new(seed);
    let mut rep = Report { mismatches: vec![], count: 0, harness_errors: vec![] };
    let mut st = Stats::default();
    let (mut n_parse, mut n_idx) = (0, 0);
    if input["opts"]["tables"].as_bool().unwrap_or(true) {
        (n_parse, n_idx) = check_tables(&spec, &mut rep);
    }
    for c in input["cases"].as_array().expect("cases") {
        process_case(&spec, &g, seed, c, &opts, &mut rep, &mut st);
    }
    let out = json!({
        "mismatch_count": rep.count,
        "mismatches": rep.mismatches,
        "harness_errors": rep.harness_errors,
        "txs": st.txs,
        "eq_txid": st.eq_txid, "eq_auth": st.eq_auth, "eq_sig": st.eq_sig, "eq_read": st.eq_read, "read_skipped": st.read_skipped,
        "mutants": st.mutants, "mutants_skipped": st.mutants_skipped, "comparisons": st.comparisons,
        "changed": st.changed, "unchanged": st.unchanged, "pred_checks": st.pred_checks, "param_checks": st.param_checks,
        "rows": st.rows, "distinct_digests": st.digests.len(), "versions": st.versions, "max_tx_len": st.max_tx_len,
        "parse_bytes": n_parse, "index_cases": n_idx, "table_rows": spec.table.len(),
    });
    println!("{}", out);
}
