//! C03 spec -> code replay: transaction and block-header wire formats.
//!
//! Input (ndjson written by checks/c03.py from TLC's output of spec/Codec/MC_TxLayout.tla and
//! HeaderLayout.tla):
//!   {"T":"case",  "id", "shape":{..}, "tokens":[..], "total", "mem":{..}, "samples":k}
//!   {"T":"hdr",   "cases":[{"h":[4], "g":[4], "res":{ok,n,ver,num}}]}       TxVersion header table
//!   {"T":"wcases","cases":[{"ver","branch","with"}]}                          unrepresentable values
//!   {"T":"hcase", "solLen", "tokens", "total", "hash":{from,to}, "samples":k} block headers
//!   {"T":"cs04",  ...}  CompactSize cases (csw/csr) for the registry zcash_encoding 0.4 the transaction code links
//!
//! For every case and sample a real transaction of the shape is generated (txgen, deterministic
//! in (VERIF_SEED, case id, sample)), serialised with the real writer, and
//!   (a) the bytes are walked by the generic interpreter of the token sequence (c03_common::walk);
//!   (b) parsed back: every field, txid, auth commitment, bundle presence / versions as predicted
//!       by Mem(shape); consumed = length, also with trailing bytes appended;
//!   (c) re-serialised: identical bytes; pre-v5: txid = SHA-256d(bytes).
//!
//! stdout: one JSON summary object (last line).
use std::collections::HashSet;

use h_tx::c03_common::*;
use h_tx::txgen::*;
use h_tx::util::{guarded, quiet_panics, read_ndjson, seed_from_env};
use orchard::bundle::{BundleVersion, Flags};
use serde_json::{Value, json};
use zcash_primitives::block::{BlockHash, BlockHeader, BlockHeaderData};
use zcash_primitives::transaction::{Transaction, TxVersion};
use zcash_protocol::consensus::BranchId;

fn mix(mut z: u64) -> u64 {
    z = z.wrapping_add(0x9E37_79B9_7F4A_7C15);
    z = (z ^ (z >> 30)).wrapping_mul(0xBF58_476D_1CE4_E5B9);
    z = (z ^ (z >> 27)).wrapping_mul(0x94D0_49BB_1331_11EB);
    z ^ (z >> 31)
}

struct Rnd(u64);
impl Rnd {
    fn next(&mut self) -> u64 {
        self.0 = mix(self.0);
        self.0
    }
    fn bytes(&mut self, n: usize) -> Vec<u8> {
        let mut v = Vec::with_capacity(n + 8);
        while v.len() < n {
            v.extend_from_slice(&self.next().to_le_bytes());
        }
        v.truncate(n);
        v
    }
    fn arr<const N: usize>(&mut self) -> [u8; N] {
        self.bytes(N).try_into().unwrap()
    }
}

pub fn case_salt(seed: u64, id: u64, sample: u64) -> u64 {
    mix(mix(seed ^ 0xC03C03) ^ mix(id.wrapping_mul(1_000_003) ^ (sample << 48)))
}

struct Report {
    mismatches: Vec<Value>,
    count: usize,
}
impl Report {
    fn bad(&mut self, v: Value) {
        self.count += 1;
        if self.mismatches.len() < 12 {
            self.mismatches.push(v);
        }
    }
}

fn other_branch(b: BranchId) -> BranchId {
    if b == BranchId::Canopy { BranchId::Blossom } else { BranchId::Canopy }
}

/// Checks one transaction case; returns the list of disagreements.
fn check_tx_case(g: &TxGen, c: &Value, salt: u64, stats: &mut Stats) -> Vec<String> {
    let shape = shape_from_json(&c["shape"]);
    let tokens = tokens_from_json(&c["tokens"]);
    let total = usize_of(&c["total"]);
    let mem = &c["mem"];
    let mut bad: Vec<String> = vec![];
    let parts = match guarded(|| g.parts_with(&shape, salt)) {
        Ok(Ok(p)) => p,
        // "shape:" errors are the generator's own validation (a harness / specification bug)
        Ok(Err(e)) if e.starts_with("shape:") => panic!("harness: shape {:?} cannot be generated: {e}", shape),
        Ok(Err(e)) => return vec![format!("a well-formed transaction of this shape cannot be constructed: {e}")],
        Err(p) => return vec![format!("constructing a well-formed transaction panics: {p}")],
    };
    let x0 = match guarded(|| parts.freeze()) {
        Ok(Ok(t)) => t,
        Ok(Err(e)) => return vec![format!("a well-formed transaction of this shape cannot be frozen: {e}")],
        Err(p) => return vec![format!("freezing a well-formed transaction panics: {p}")],
    };
    let bytes0 = match serialise(&x0) {
        Ok(b) => b,
        Err(e) => return vec![format!("Transaction::write of a well-formed transaction fails: {e}")],
    };
    stats.bytes += bytes0.len();
    // (a) layout
    bad.extend(walk(&tokens, total, &bytes0, &x0).into_iter().map(|s| format!("layout: {s}")));
    // (b) parse back
    let x = match parse(&bytes0, shape.branch) {
        Parsed::Accepted(t, n) => {
            if n != bytes0.len() {
                bad.push(format!("parse consumed {n} of {} bytes of the serialisation", bytes0.len()));
            }
            t
        }
        Parsed::Rejected(e) => {
            bad.push(format!("the serialisation of a well-formed transaction is rejected: {e}"));
            return bad;
        }
        Parsed::Panic(p) => {
            bad.push(format!("parsing the serialisation panics: {p}"));
            return bad;
        }
    };
    let (d0, d) = (dump(&x0, true), dump(&x, true));
    stats.fields += d.len();
    let diff = differences(&d0, &d);
    if !diff.is_empty() {
        bad.push(format!("parse(write(x)) differs from x: {}", diff[..diff.len().min(4)].join("; ")));
    }
    // predicted in-memory shape
    let flag = |k: &str| mem[k].as_bool().expect("mem flag");
    for (k, got) in [
        ("transparent", x.transparent_bundle().is_some()),
        ("sprout", x.sprout_bundle().is_some()),
        ("sapling", x.sapling_bundle().is_some()),
        ("orchard", x.orchard_bundle().is_some()),
        ("ironwood", x.ironwood_bundle().is_some()),
    ] {
        if flag(k) != got {
            bad.push(format!("after parsing the {k} bundle is {}, the specification says {}", if got { "present" } else { "absent" }, if flag(k) { "present" } else { "absent" }));
        }
    }
    let sh = shape_of(&x);
    for (k, got) in [("nIn", sh.n_vin), ("nOut", sh.n_vout), ("nJS", sh.n_joinsplits), ("nSp", sh.n_spends), ("nSO", sh.n_outputs), ("nAct", sh.n_orchard), ("nIrw", sh.n_ironwood)] {
        if usize_of(&mem[k]) != got {
            bad.push(format!("after parsing {k} = {got}, the specification says {}", mem[k]));
        }
    }
    for (k, b) in [("orchardVersion", x.orchard_bundle()), ("ironwoodVersion", x.ironwood_bundle())] {
        let got = b.map_or("none", |b| bundle_version_name(b.bundle_version()));
        if mem[k].as_str().unwrap() != got {
            bad.push(format!("after parsing {k} = {got}, the specification says {}", mem[k]));
        }
    }
    if version_name(x.version()) != c["shape"]["ver"].as_str().unwrap() {
        bad.push(format!("parsed version {} for a {} transaction", version_name(x.version()), c["shape"]["ver"]));
    }
    if !flag("hasExpiry") && u32::from(x.expiry_height()) != 0 {
        bad.push("a pre-Overwinter transaction parsed with a non-zero expiry height".into());
    }
    // the branch: on the wire from v5 on, otherwise the caller's
    match parse(&bytes0, other_branch(shape.branch)) {
        Parsed::Accepted(t, _) => {
            let want = if flag("branchOnWire") { shape.branch } else { other_branch(shape.branch) };
            if t.consensus_branch_id() != want {
                bad.push(format!("parsed with caller branch {}: the value carries {}, specified {}", branch_name(other_branch(shape.branch)), branch_name(t.consensus_branch_id()), branch_name(want)));
            }
        }
        _ => bad.push("parsing with a different caller-supplied branch id fails".into()),
    }
    // trailing bytes are left unread and change nothing
    let mut ext = bytes0.clone();
    ext.extend_from_slice(&[0xAB, 0x00, 0xFF]);
    match parse(&ext, shape.branch) {
        Parsed::Accepted(t, n) => {
            if n != bytes0.len() {
                bad.push(format!("with 3 trailing bytes the parser consumed {n} bytes instead of {}", bytes0.len()));
            }
            if t.txid() != x.txid() {
                bad.push("trailing bytes change the parsed transaction".into());
            }
        }
        _ => bad.push("a valid serialisation followed by trailing bytes is not accepted".into()),
    }
    // (c) re-serialise
    match serialise(&x) {
        Ok(b1) => {
            if b1 != bytes0 {
                let at = b1.iter().zip(bytes0.iter()).position(|(a, b)| a != b).unwrap_or(b1.len().min(bytes0.len()));
                bad.push(format!("write(parse(bytes)) differs from bytes at offset {at} (lengths {} / {})", b1.len(), bytes0.len()));
            }
        }
        Err(e) => bad.push(format!("the parsed transaction cannot be written: {e}")),
    }
    if !format_has_orchard(shape.version) {
        // v1..v4: the identifier is the double SHA-256 of the serialisation
        if x.txid().as_ref() != &sha256d(&bytes0) || x0.txid().as_ref() != &sha256d(&bytes0) {
            bad.push("txid of a pre-v5 transaction is not SHA-256d of its serialisation".into());
        }
    }
    // distinct non-trivial values: transactions with at least one bundle
    if x.transparent_bundle().is_some() || x.sprout_bundle().is_some() || x.sapling_bundle().is_some() || x.orchard_bundle().is_some() || x.ironwood_bundle().is_some() {
        stats.txids.insert(*x.txid().as_ref());
    }
    bad
}

#[derive(Default)]
struct Stats {
    bytes: usize,
    fields: usize,
    txids: HashSet<[u8; 32]>,
}

fn check_hdr_table(cases: &Value, rep: &mut Report) -> usize {
    let mut n = 0;
    for c in cases.as_array().expect("hdr cases") {
        n += 1;
        let (h, g) = (bytes_of(&c["h"]), bytes_of(&c["g"]));
        let mut bytes = h.clone();
        bytes.extend_from_slice(&g);
        bytes.push(0x55);
        let res = &c["res"];
        let exp_ok = res["ok"].as_bool().unwrap();
        let got = guarded(|| {
            let mut r: &[u8] = &bytes;
            let v = TxVersion::read(&mut r);
            (v.ok(), bytes.len() - r.len())
        });
        let what = match got {
            Err(p) => Some(format!("panic: {p}")),
            Ok((None, _)) if !exp_ok => None,
            Ok((None, _)) => Some(format!("rejected; specified {} consuming {}", res["ver"], res["n"])),
            Ok((Some(v), _)) if !exp_ok => Some(format!("accepted as {}; specified rejection", version_name(v))),
            Ok((Some(v), consumed)) => {
                let want = match res["ver"].as_str().unwrap() {
                    "sprout" => format!("sprout{}", res["num"]),
                    o => o.to_string(),
                };
                if version_name(v) != want || consumed != usize_of(&res["n"]) {
                    Some(format!("accepted as {} consuming {consumed}; specified {want} consuming {}", version_name(v), res["n"]))
                } else {
                    // the writer inverts the reader
                    let mut w = vec![];
                    let _ = guarded(|| v.write(&mut w));
                    if w[..] != bytes[..consumed] { Some(format!("TxVersion::write gives {} for what was read from {}", hex::encode(&w), hex::encode(&bytes[..consumed]))) } else { None }
                }
            }
        };
        if let Some(w) = what {
            rep.bad(json!({"kind": "hdr", "case": c, "what": format!("TxVersion::read({}): {w}", hex::encode(&bytes[..8]))}));
        }
    }
    n
}

fn check_wcase(g: &TxGen, c: &Value, salt: u64) -> Option<String> {
    let ver = version_from_name(c["ver"].as_str().unwrap()).unwrap();
    let branch = branch_from_name(c["branch"].as_str().unwrap()).unwrap();
    let with = c["with"].as_str().unwrap();
    let mut shape = Shape::new(ver, branch);
    shape.n_vin = 1;
    shape.n_vout = 1;
    shape.script_sig_lens = Some(vec![5]);
    shape.script_pubkey_lens = Some(vec![7]);
    if format_has_sapling(ver) {
        shape.n_outputs = 1;
    }
    let mut parts = g.parts_with(&shape, salt).expect("base shape");
    let donor = |v: TxVersion, b: BranchId, f: &dyn Fn(&mut Shape)| {
        let mut s = Shape::new(v, b);
        f(&mut s);
        g.parts_with(&s, salt ^ 0x77).expect("donor shape")
    };
    match with {
        "orchard" => parts.orchard = donor(TxVersion::V5, branch, &|s| s.n_orchard = 1).orchard,
        "sprout" => parts.sprout = donor(TxVersion::V4, BranchId::Canopy, &|s| s.n_joinsplits = 1).sprout,
        "sapling" => parts.sapling = donor(TxVersion::V4, BranchId::Canopy, &|s| { s.n_spends = 1; s.n_outputs = 1 }).sapling,
        "orchard_v2" | "orchard_insecure_v1" => {
            let mut o = donor(TxVersion::V5, BranchId::Nu6_2, &|s| s.n_orchard = 2).orchard.unwrap();
            o.bundle_version = if with == "orchard_v2" { BundleVersion::orchard_v2() } else { BundleVersion::orchard_insecure_v1() };
            o.flags = Flags::from_byte(0b11, o.bundle_version).unwrap();
            parts.orchard = Some(o);
        }
        o => panic!("unknown wcase {o}"),
    }
    // construct through the public constructors, then write
    let built = guarded(|| parts.build());
    let data = match built {
        Ok(Ok(d)) => d,
        Ok(Err(_)) => return None, // the constructors refuse: nothing to write
        Err(p) => return Some(format!("constructing the value panics: {p}")),
    };
    let tx = match guarded(|| data.freeze()) {
        Ok(Ok(t)) => t,
        Ok(Err(_)) => return None, // refused (pre-v5 freeze serialises)
        Err(p) => return Some(format!("freeze panics: {p}")),
    };
    match serialise(&tx) {
        Err(e) if e.starts_with("error") => None,
        Err(e) => Some(format!("Transaction::write: {e}")),
        Ok(bytes) => match parse(&bytes, branch) {
            Parsed::Accepted(t2, _) => {
                let diff = differences(&dump(&tx, true), &dump(&t2, true));
                if diff.is_empty() { None } else { Some(format!("the writer accepted a {} transaction with {with} and its bytes parse to a different value: {}", c["ver"], diff[..diff.len().min(3)].join("; "))) }
            }
            Parsed::Rejected(e) => Some(format!("the writer accepted a {} transaction with {with} but its bytes are rejected by the parser: {e}", c["ver"])),
            Parsed::Panic(p) => Some(format!("parse panics: {p}")),
        },
    }
}

fn check_block_header(c: &Value, salt: u64, stats: &mut Stats) -> Vec<String> {
    let tokens = tokens_from_json(&c["tokens"]);
    let total = usize_of(&c["total"]);
    let sol_len = usize_of(&c["solLen"]);
    let (from, to) = (usize_of(&c["hash"]["from"]), usize_of(&c["hash"]["to"]));
    let mut r = Rnd(salt);
    let mut bad = vec![];
    let version = match r.next() % 4 {
        0 => 4,
        1 => i32::MIN,
        2 => -1,
        _ => r.next() as i32,
    };
    let data = BlockHeaderData {
        version,
        prev_block: BlockHash(r.arr()),
        merkle_root: r.arr(),
        final_sapling_root: r.arr(),
        time: r.next() as u32,
        bits: r.next() as u32,
        nonce: r.arr(),
        solution: r.bytes(sol_len),
    };
    let fields: Vec<(&str, Vec<u8>)> = vec![
        ("version", data.version.to_le_bytes().to_vec()),
        ("prev_block", data.prev_block.0.to_vec()),
        ("merkle_root", data.merkle_root.to_vec()),
        ("final_sapling_root", data.final_sapling_root.to_vec()),
        ("time", data.time.to_le_bytes().to_vec()),
        ("bits", data.bits.to_le_bytes().to_vec()),
        ("nonce", data.nonce.to_vec()),
        ("solution", data.solution.clone()),
    ];
    let h0 = match guarded(|| data.freeze()) {
        Ok(Ok(h)) => h,
        other => return vec![format!("BlockHeaderData::freeze fails: {:?}", other.map(|r| r.map(|_| ()).map_err(|e| e.to_string())))],
    };
    let bytes = match guarded(|| {
        let mut b = vec![];
        h0.write(&mut b).map(|_| b)
    }) {
        Ok(Ok(b)) => b,
        _ => return vec!["BlockHeader::write fails".into()],
    };
    stats.bytes += bytes.len();
    // (a) layout
    if bytes.len() != total {
        bad.push(format!("layout: header serialisation has {} bytes, the layout says {total}", bytes.len()));
    }
    let mut p = 0;
    for t in &tokens {
        if p + t.len > bytes.len() {
            bad.push(format!("layout: token {} beyond the end", t.n));
            break;
        }
        let got = &bytes[p..p + t.len];
        if t.k == 'c' {
            if got != &t.enc[..] || t.v as usize != sol_len {
                bad.push(format!("layout: {} is {} / specified {} for a solution of {sol_len} bytes", t.n, hex::encode(got), hex::encode(&t.enc)));
            }
        } else {
            let want = &fields.iter().find(|(n, _)| *n == t.n).unwrap_or_else(|| panic!("harness: header field {}", t.n)).1;
            if got != &want[..] {
                bad.push(format!("layout: field {} at offset {p} differs from the header's value", t.n));
            }
        }
        p += t.len;
    }
    // hash = SHA-256d of the specified span of the serialisation
    let want_hash = sha256d(&bytes[from.min(bytes.len())..to.min(bytes.len())]);
    if h0.hash().0 != want_hash {
        bad.push(format!("hash() = {} but SHA-256d of the serialisation is {}", hex::encode(h0.hash().0), hex::encode(want_hash)));
    }
    // (b) parse back, with trailing bytes
    let mut ext = bytes.clone();
    ext.extend_from_slice(&[1, 2, 3, 4, 5]);
    for (label, input) in [("", &bytes), (" (followed by trailing bytes)", &ext)] {
        match guarded(|| {
            let mut rd: &[u8] = input;
            let res = BlockHeader::read(&mut rd);
            (res, input.len() - rd.len())
        }) {
            Err(pn) => bad.push(format!("BlockHeader::read panics{label}: {pn}")),
            Ok((Err(e), _)) => bad.push(format!("BlockHeader::read rejects a valid header{label}: {e}")),
            Ok((Ok(h), n)) => {
                if n != bytes.len() {
                    bad.push(format!("BlockHeader::read consumed {n} bytes instead of {}{label}", bytes.len()));
                }
                if h.hash().0 != want_hash {
                    bad.push(format!("hash() of the parsed header is not SHA-256d of the header bytes{label}"));
                }
                let same = h.version == h0.version && h.prev_block == h0.prev_block && h.merkle_root == h0.merkle_root
                    && h.final_sapling_root == h0.final_sapling_root && h.time == h0.time && h.bits == h0.bits
                    && h.nonce == h0.nonce && h.solution == h0.solution;
                if !same {
                    bad.push(format!("parsed header fields differ from the written ones{label}"));
                }
                let mut b1 = vec![];
                if guarded(|| h.write(&mut b1)).is_err() || b1 != bytes {
                    bad.push(format!("re-serialised header differs{label}"));
                }
            }
        }
    }
    stats.txids.insert(want_hash);
    bad
}

fn check_cs04(c: &Value) -> Option<String> {
    use zcash_encoding::CompactSize;
    match c["K"].as_str().unwrap() {
        "csw" => {
            let v = u64::from_le_bytes(bytes_of(&c["v"]).try_into().unwrap());
            let enc = bytes_of(&c["enc"]);
            let mut buf = vec![];
            // 0.4: one writer, not bounded
            match guarded(|| CompactSize::write(&mut buf, v as usize)) {
                Ok(Ok(())) if buf == enc => None,
                _ => Some(format!("zcash_encoding 0.4 CompactSize::write({v}) = {} / specified {}", hex::encode(&buf), hex::encode(&enc))),
            }
        }
        "csr" => {
            let bytes = bytes_of(&c["bytes"]);
            let exp = &c["bnd"];
            let got = guarded(|| {
                let mut r: &[u8] = &bytes;
                (CompactSize::read(&mut r).ok(), bytes.len() - r.len())
            });
            let ok = match (&got, exp["ok"].as_bool().unwrap()) {
                (Ok((None, _)), false) => true,
                (Ok((Some(v), n)), true) => *v == u64::from_le_bytes(bytes_of(&exp["v"]).try_into().unwrap()) && *n == usize_of(&exp["n"]),
                _ => false,
            };
            if ok { None } else { Some(format!("zcash_encoding 0.4 CompactSize::read({}) = {:?} / specified {}", hex::encode(&bytes), got, exp)) }
        }
        _ => None,
    }
}

fn main() {
    let args: Vec<String> = std::env::args().collect();
    let cases = read_ndjson(&args[1]);
    let seed = seed_from_env();
    quiet_panics();
    let g = TxGen::new(seed);
    let mut rep = Report { mismatches: vec![], count: 0 };
    let mut stats = Stats::default();
    let (mut n_tx, mut n_hdr, mut n_w, mut n_bh, mut n_cs) = (0usize, 0usize, 0usize, 0usize, 0usize);
    let mut pairs = HashSet::new();
    for c in &cases {
        match c["T"].as_str().unwrap() {
            "case" => {
                let id = c["id"].as_u64().unwrap();
                let samples: Vec<u64> = match c.get("only_sample").and_then(|v| v.as_u64()) {
                    Some(s) => vec![s],
                    None => (0..c["samples"].as_u64().unwrap()).collect(),
                };
                for s in samples {
                    n_tx += 1;
                    let bad = check_tx_case(&g, c, case_salt(seed, id, s), &mut stats);
                    if !bad.is_empty() {
                        rep.bad(json!({"kind": "case", "id": id, "sample": s, "what": bad}));
                    }
                }
                pairs.insert(format!("{}/{}", c["shape"]["ver"], c["shape"]["branch"]));
            }
            "hdr" => n_hdr += check_hdr_table(&c["cases"], &mut rep),
            "wcases" => {
                for w in c["cases"].as_array().unwrap().iter() {
                    // salt from the case's content, so that a single case replays identically
                    let k = w.to_string().bytes().fold(7u64, |a, b| a.wrapping_mul(131).wrapping_add(b as u64)) % 1000;
                    for s in 0..3u64 {
                        n_w += 1;
                        if let Some(what) = check_wcase(&g, w, case_salt(seed, 900_000 + k, s)) {
                            rep.bad(json!({"kind": "wcase", "case": w, "sample": s, "what": what}));
                        }
                    }
                }
            }
            "hcase" => {
                for s in 0..c["samples"].as_u64().unwrap() {
                    n_bh += 1;
                    let bad = check_block_header(c, case_salt(seed, 800_000 + c["solLen"].as_u64().unwrap(), s), &mut stats);
                    if !bad.is_empty() {
                        rep.bad(json!({"kind": "hcase", "solLen": c["solLen"], "sample": s, "what": bad}));
                    }
                }
            }
            "cs04" => {
                n_cs += 1;
                if let Some(what) = check_cs04(c) {
                    rep.bad(json!({"kind": "cs04", "case": c, "what": what}));
                }
            }
            other => panic!("unknown record type {other}"),
        }
    }
    let _ = Transaction::read(&[0u8; 0][..], BranchId::Sprout);
    println!(
        "{}",
        json!({"transactions": n_tx, "header_table": n_hdr, "wcases": n_w, "block_headers": n_bh, "cs04": n_cs,
               "bytes": stats.bytes, "fields_compared": stats.fields, "distinct_ids": stats.txids.len(),
               "version_branch_pairs": pairs.len(), "mismatch_count": rep.count, "mismatches": rep.mismatches})
    );
}
