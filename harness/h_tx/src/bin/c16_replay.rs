//! C16 spec -> code replay.  Every completed plan TLC printed from Denomination.tla (parameters,
//! balance, the oracle answers the model's environment chose, and the plan the specification
//! predicts) is executed on the real `CanonicalOneTwoFive::plan` built with *exactly* the model's
//! parameters (`CanonicalOneTwoFive::new` is public), with a scripted `prep_tx_count` closure that
//! replays the answers.  Compared exactly: crossing values, prepared notes, change, preparation
//! fees, totals, the number of oracle questions and the argument of each question.  The call is
//! repeated with other note counts of the same `== 1` class and with four different RNGs and must
//! give the identical plan; every plan must survive `from_stored_parts(accessors(plan))`.
//!
//! Also replays `L125` lines (the specification's largest-denomination function) on
//! `zcash_protocol::zip318::largest_one_two_five`.
//!
//! usage: c16_replay <cases.ndjson>       stdout: one JSON summary object (last line)
use std::cell::{Cell, RefCell};

use h_tx::util::{guarded, quiet_panics, read_ndjson};
use rand_chacha::ChaCha20Rng;
use rand_core::{CryptoRng, RngCore, SeedableRng};
use serde_json::{Value, json};
use zcash_pool_migration::denomination::{CanonicalOneTwoFive, DenominationPlan, DenominationStrategy};
use zcash_protocol::value::Zatoshis;
use zcash_protocol::zip318::largest_one_two_five;

/// An RNG that yields one constant word; counts how often it is consulted.
struct ConstRng(u64, u64);
impl RngCore for ConstRng {
    fn next_u32(&mut self) -> u32 {
        self.1 += 1;
        self.0 as u32
    }
    fn next_u64(&mut self) -> u64 {
        self.1 += 1;
        self.0
    }
    fn fill_bytes(&mut self, dest: &mut [u8]) {
        self.1 += 1;
        for b in dest.iter_mut() {
            *b = self.0 as u8;
        }
    }
    fn try_fill_bytes(&mut self, dest: &mut [u8]) -> Result<(), rand_core::Error> {
        self.fill_bytes(dest);
        Ok(())
    }
}
impl CryptoRng for ConstRng {}

fn zat(v: u64) -> Zatoshis {
    Zatoshis::from_u64(v).expect("model values are tiny")
}
fn u(v: &Value) -> u64 {
    v.as_u64().unwrap_or_else(|| panic!("not a u64: {v}"))
}
fn uvec(v: &Value) -> Vec<u64> {
    v.as_array().expect("array").iter().map(u).collect()
}

struct Observed {
    plan: DenominationPlan,
    queries: Vec<Vec<u64>>,
    over_asked: bool,
}

fn run_plan<R: RngCore + CryptoRng>(
    s: &CanonicalOneTwoFive,
    total: u64,
    note_count: usize,
    fee: u64,
    answers: &[i64],
    rng: &mut R,
) -> Result<Observed, String> {
    let idx = Cell::new(0usize);
    let over = Cell::new(false);
    let queries: RefCell<Vec<Vec<u64>>> = RefCell::new(vec![]);
    let oracle = |notes: &[Zatoshis]| -> Option<usize> {
        queries.borrow_mut().push(notes.iter().map(|&z| u64::from(z)).collect());
        let i = idx.get();
        idx.set(i + 1);
        match answers.get(i) {
            None => {
                over.set(true);
                None
            }
            Some(&a) if a < 0 => None,
            Some(&a) => Some(a as usize),
        }
    };
    let plan = guarded(|| s.plan(zat(total), note_count, zat(fee), &oracle, rng))?;
    Ok(Observed { plan, queries: queries.into_inner(), over_asked: over.get() })
}

fn plan_json(p: &DenominationPlan) -> Value {
    json!({
        "crossings": p.crossing_values().iter().map(|&z| u64::from(z)).collect::<Vec<_>>(),
        "outputs": p.migration_outputs().iter().map(|&z| u64::from(z)).collect::<Vec<_>>(),
        "change": p.change().map(u64::from),
        "prepFees": u64::from(p.prep_fees()),
        "totalInput": u64::from(p.total_input()),
        "migratable": u64::from(p.total_migratable()),
        "buffer": u64::from(p.note_fee_buffer()),
    })
}

/// Compares one observed run with the specification's prediction; returns a description of the
/// first difference.
fn compare(case: &Value, o: &Observed) -> Option<String> {
    let buffer = u(&case["buffer"]);
    let total = u(&case["total"]);
    let split = uvec(&case["split"]);
    let crossings = uvec(&case["crossings"]);
    let answers = case["answers"].as_array().unwrap();
    let p = &o.plan;
    let got: Vec<u64> = p.crossing_values().iter().map(|&z| u64::from(z)).collect();
    if got != crossings {
        return Some(format!("crossing values {got:?}, specification {crossings:?}"));
    }
    let outs: Vec<u64> = p.migration_outputs().iter().map(|&z| u64::from(z)).collect();
    let want_outs: Vec<u64> = crossings.iter().map(|c| c + buffer).collect();
    if outs != want_outs {
        return Some(format!("prepared notes {outs:?}, specification {want_outs:?}"));
    }
    let change = u(&case["change"]);
    let want_change = if change > 0 { Some(change) } else { None };
    if p.change().map(u64::from) != want_change {
        return Some(format!("change {:?}, specification {:?}", p.change().map(u64::from), want_change));
    }
    if u64::from(p.prep_fees()) != u(&case["prepFees"]) {
        return Some(format!("prep fees {}, specification {}", u64::from(p.prep_fees()), case["prepFees"]));
    }
    if u64::from(p.total_input()) != total {
        return Some(format!("total_input {} for balance {}", u64::from(p.total_input()), total));
    }
    if u64::from(p.total_migratable()) != u(&case["migratable"]) {
        return Some(format!("total_migratable {}, specification {}", u64::from(p.total_migratable()), case["migratable"]));
    }
    if u64::from(p.note_fee_buffer()) != buffer {
        return Some(format!("note_fee_buffer {}, given {}", u64::from(p.note_fee_buffer()), buffer));
    }
    // the oracle is consulted exactly as often as the specification's environment answered, each
    // time about the current prefix of the canonical split (each part plus the buffer)
    if o.over_asked || o.queries.len() != answers.len() {
        return Some(format!("oracle consulted {} times, specification {}", o.queries.len(), answers.len()));
    }
    for (j, q) in o.queries.iter().enumerate() {
        let want: Vec<u64> = split[..split.len() - j].iter().map(|c| c + buffer).collect();
        if *q != want {
            return Some(format!("oracle question {j} was {q:?}, specification {want:?}"));
        }
    }
    None
}

fn stored_round_trip(p: &DenominationPlan) -> bool {
    match guarded(|| {
        DenominationPlan::from_stored_parts(
            p.crossing_values().to_vec(),
            p.note_fee_buffer(),
            p.change(),
            p.prep_fees(),
            p.total_input(),
            p.total_migratable(),
        )
    }) {
        Ok(Ok(q)) => q == *p,
        _ => false,
    }
}

fn note(list: &mut Vec<Value>, count: &mut u64, v: Value) {
    *count += 1;
    if list.len() < 20 {
        list.push(v);
    }
}

fn main() {
    quiet_panics();
    let args: Vec<String> = std::env::args().collect();
    let cases = read_ndjson(&args[1]);
    let mut mismatches: Vec<Value> = vec![];
    let mut n_mis = 0u64;
    let (mut n, mut runs, mut panics, mut n_l125) = (0u64, 0u64, 0u64, 0u64);
    let mut distinct = std::collections::HashSet::new();
    let mut rng_consulted = 0u64;
    for case in &cases {
        if case.get("hi").is_some() {
            // L125 line: [hi, floor, out]
            n_l125 += 1;
            let (hi, floor, want) = (u(&case["hi"]), u(&case["floor"]), u(&case["out"]));
            match guarded(|| largest_one_two_five(hi, floor)) {
                Ok(got) if got == want => {}
                Ok(got) => note(&mut mismatches, &mut n_mis, json!({"case": case, "what": format!("largest_one_two_five({hi}, {floor}) = {got}, specification {want}")})),
                Err(m) => {
                    panics += 1;
                    note(&mut mismatches, &mut n_mis, json!({"case": case, "what": format!("largest_one_two_five({hi}, {floor}) panicked: {m}")}));
                }
            }
            continue;
        }
        n += 1;
        let s = CanonicalOneTwoFive::new(
            u(&case["cap"]) as usize,
            zat(u(&case["maxDenom"])),
            zat(u(&case["minDenom"])),
            zat(u(&case["buffer"])),
        );
        let total = u(&case["total"]);
        let fee = u(&case["fee"]);
        let single = case["single"].as_bool().unwrap();
        let answers: Vec<i64> = case["answers"].as_array().unwrap().iter().map(|a| a.as_i64().unwrap()).collect();
        let counts: &[usize] = if single { &[1] } else { &[2, 3, 4, 1000] };
        let mut first: Option<DenominationPlan> = None;
        let mut bad: Option<String> = None;
        'outer: for &nc in counts {
            for r in 0..4u64 {
                // only the first note count is run under all four generators
                if r > 0 && nc != counts[0] {
                    continue;
                }
                runs += 1;
                let res = match r {
                    0 => run_plan(&s, total, nc, fee, &answers, &mut ChaCha20Rng::seed_from_u64(0)),
                    1 => run_plan(&s, total, nc, fee, &answers, &mut ChaCha20Rng::seed_from_u64(0x9e3779b97f4a7c15 ^ n)),
                    2 => {
                        let mut g = ConstRng(0, 0);
                        let x = run_plan(&s, total, nc, fee, &answers, &mut g);
                        rng_consulted += g.1;
                        x
                    }
                    _ => {
                        let mut g = ConstRng(u64::MAX, 0);
                        let x = run_plan(&s, total, nc, fee, &answers, &mut g);
                        rng_consulted += g.1;
                        x
                    }
                };
                match res {
                    Err(m) => {
                        panics += 1;
                        bad = Some(format!("panic (note count {nc}, rng {r}): {m}"));
                        break 'outer;
                    }
                    Ok(o) => {
                        if let Some(d) = compare(case, &o) {
                            bad = Some(format!("note count {nc}, rng {r}: {d}"));
                            note(&mut mismatches, &mut n_mis, json!({"case": case, "what": bad.clone().unwrap(), "got": plan_json(&o.plan)}));
                            bad = None;
                            break 'outer;
                        }
                        if let Some(f) = &first {
                            if *f != o.plan {
                                bad = Some(format!("plan differs between runs (note count {nc}, rng {r})"));
                                break 'outer;
                            }
                        } else {
                            if !stored_round_trip(&o.plan) {
                                bad = Some("from_stored_parts(accessors(plan)) is not Ok(plan)".to_string());
                                break 'outer;
                            }
                            distinct.insert(format!("{}|{}|{}", case["minDenom"], case["maxDenom"], plan_json(&o.plan)));
                            first = Some(o.plan);
                        }
                    }
                }
            }
        }
        if let Some(b) = bad {
            note(&mut mismatches, &mut n_mis, json!({"case": case, "what": b}));
        }
    }
    println!(
        "{}",
        json!({"cases": n, "l125": n_l125, "runs": runs, "mismatches": mismatches, "n_mismatches": n_mis,
               "panics": panics, "distinct_results": distinct.len(), "rng_consulted": rng_consulted})
    );
}
