"""C02 — wallet database writes are all-or-nothing and never observed half-applied (TxnAtomic.tla).

1. TLC explores TxnAtomic.tla exhaustively: every interleaving of one writer operation of 4
   statements (one injected fault, the commit refused by a reader's lock in rollback-journal mode,
   one retry), one reader transaction of 3 reads and one crash, in both journal modes; the
   invariants Durable, Atomic, OneCommit, OkMeansComplete, FaultMeansErrOrComplete, NoDanglingTx,
   Snapshot, CrashAtomic, RetryConverges, Durable hold, and so does the absolute one, Consistent:
   every content ever observed as committed (durable content, pre-state, state after a call that
   returned Ok or Err, crash images, what a reader transaction saw) is Sound, i.e. satisfies the
   cross-table invariants of a wallet database.  The model also has pre-states in which the
   operation refuses by its own logic half way (no fault), and runs in which the uninterrupted run
   is not given but learnt from a first run, as trace validation does it.  Each spec mutant (a
   statement outside the transaction, commit on error, a swallowed error, two transactions, a
   snapshot read without a transaction, a swallowed refusal) must break an invariant: the
   properties are not vacuous; with the reference run learnt, the swallowed refusal satisfies every
   relative invariant and breaks only Consistent (both required by the check).
2. Fault enumeration on the real SQLite wallet, recorded as traces (code -> spec): c02_driver owns
   the rusqlite connection the wallet writes through and a second connection to the same database
   file; for every operation x pre-state x fault position (statement boundaries found by a counting
   pass + seeded interior VM steps) it runs the operation with SQLite's progress handler failing the
   statement at that step, records commit-hook / rollback-hook / statement events, what a reader on
   the second connection sees from inside the writer's callback (canonical dump of every table +
   get_wallet_summary), crash images (copies of the database files reopened fresh), the state after
   the call through both connections, then repeats the call without a fault.  Conversely the whole
   write operation is run from inside the reader's progress callback at steps of a snapshot read.
   With every dump the driver computes, by SQL in the same read transaction, the cross-table facts
   (no `blocks` row / note-commitment-tree checkpoint / mined transaction / tx-locator entry above
   the height the scan queue extends to) and logs them as booleans; the specification requires them
   of every observation of a committed state (Consistent).  TLC validates every event against
   TxnAtomic (all invariants after every event).

   Operations include storing a REAL wallet-created transaction (built by propose_transfer +
   create_proposed_transactions on a scratch copy of the pre-state database, mock Sapling provers;
   the pre-state has never seen it): decrypt_and_store_transaction unmined / mined, and
   store_transactions_to_be_sent of two such transactions in one call; and, on a wallet whose
   Sapling or Orchard tree retains checkpoints only above an old note (built through the public
   WalletCommitmentTrees / ShardStore API: scanning cannot reach that state), account creation /
   import / rewind whose tree truncation is refused half way (RequestedRewindInvalid after the
   scan queue was trimmed and transactions un-mined): the uninterrupted call is an Err that must
   leave the database untouched, and whatever a call returns, what it commits must be Consistent.
"""
import json
import os
import re
import subprocess
import threading

from . import lib

AREA = "Wallet"
INVS = ["Atomic", "OneCommit", "OkMeansComplete", "FaultMeansErrOrComplete", "NoDanglingTx", "Snapshot",
        "CrashAtomic", "RetryConverges", "Durable", "Consistent"]
SPEC_MUTANTS = ["StmtOutsideTxn", "CommitOnErr", "SwallowError", "TwoTxns", "ReaderNoTxn", "SwallowRefusal"]
SHARDS = {"quick": 6, "thorough": 8}     # driver processes (and parallel TLC trace validations)


# ------------------------------------------------------------------------------------------------
# the specification alone

def write_mc_cfg(path, wal, mutant, invs=None, constraint=None):
    with open(path, "w") as f:
        f.write("SPECIFICATION Spec\nCONSTANTS\n  MaxStmts = 4\n  MaxReads = 3\n  Wal = %s\n  Mutant = \"%s\"\n"
                "  Sound <- MCSound\nINVARIANTS TypeOK %s\n%sCHECK_DEADLOCK FALSE\n"
                % ("TRUE" if wal else "FALSE", mutant, " ".join(invs or INVS),
                   ("CONSTRAINT %s\n" % constraint) if constraint else ""))


def model_check(ctx, d):
    r = lib.tlc(ctx, d, "TxnAtomic", "MC_TxnAtomic.cfg", workers=4, timeout=600)
    lib.require_coverage(r, ["PStart", "PBegin", "PStmt", "PRefuse", "PFault", "PCommit", "PErr", "PRetOk",
                             "PRetErr", "PRBegin", "PRRead", "PREnd", "Crash", "Recover"])
    lib.account_tlc(ctx, r)
    write_mc_cfg(os.path.join(d, "MC_rollback.cfg"), False, "none")
    r = lib.tlc(ctx, d, "TxnAtomic", "MC_rollback.cfg", workers=4, timeout=600)
    lib.require_coverage(r, ["PCommit", "PErr", "PRetErr", "Crash"])
    lib.account_tlc(ctx, r)
    broken = {}
    rel = [i for i in INVS if i != "Consistent"]
    for m in SPEC_MUTANTS:
        cfg = "MC_mut_%s.cfg" % m
        # the older mutants must each break a relative invariant (as before Consistent existed)
        write_mc_cfg(os.path.join(d, cfg), True, m, invs=None if m == "SwallowRefusal" else rel)
        r = lib.tlc(ctx, d, "TxnAtomic", cfg, workers=1, timeout=600, expect_ok=False, coverage=False)
        if r.ok or not r.invariant:
            raise lib.ToolError("vacuity: spec mutant %s does not break any invariant of TxnAtomic" % m)
        broken[m] = r.invariant
    ctx.extra["spec_mutants_broken_invariant"] = broken
    # What Consistent adds: where the uninterrupted run is not given but learnt from a first run (as trace validation
    # does it), an operation that swallows its own refusal and commits satisfies every relative invariant -- only
    # Consistent is broken.
    write_mc_cfg(os.path.join(d, "MC_learnt_rel.cfg"), True, "SwallowRefusal", invs=rel, constraint="LearnOnly")
    r = lib.tlc(ctx, d, "TxnAtomic", "MC_learnt_rel.cfg", workers=1, timeout=600, expect_ok=False, coverage=False)
    if not r.ok:
        raise lib.ToolError("model: SwallowRefusal with a learnt reference run was expected to satisfy the relative "
                            "invariants (it broke %s)" % r.invariant)
    write_mc_cfg(os.path.join(d, "MC_learnt_all.cfg"), True, "SwallowRefusal", constraint="LearnOnly")
    r = lib.tlc(ctx, d, "TxnAtomic", "MC_learnt_all.cfg", workers=1, timeout=600, expect_ok=False, coverage=False)
    if r.ok or r.invariant != "Consistent":
        raise lib.ToolError("vacuity: SwallowRefusal with a learnt reference run does not break Consistent (%s)" % r.invariant)


# ------------------------------------------------------------------------------------------------
# driving the real wallet

def drive(ctx, bindir, tier, seed, shards, only=None, tag="t"):
    """Runs c02_driver in `shards` processes. Returns [(trace_path, stats)]."""
    procs = []
    for i in range(shards):
        tp = ctx.path("%s_%d.ndjson" % (tag, i))
        wd = ctx.path("%s_db_%d" % (tag, i))
        env = dict(os.environ)
        env.update({"VERIF_SEED": str(seed), "C02_SHARD": "%d/%d" % (i, shards)})
        if only:
            env["C02_ONLY"] = only
        else:
            env.pop("C02_ONLY", None)
        p = subprocess.Popen([os.path.join(bindir, "c02_driver"), tp, wd, tier], env=env, stdout=subprocess.PIPE,
                             stderr=subprocess.PIPE, text=True)
        procs.append((p, tp))
    res = []
    for p, tp in procs:
        try:
            out, err = p.communicate(timeout=3000)
        except subprocess.TimeoutExpired:
            for q, _ in procs:
                q.kill()
            raise lib.ToolError("c02_driver timed out")
        if p.returncode != 0:
            lib.log(out[-2000:])
            lib.log(err[-3000:])
            raise lib.ToolError("c02_driver exited with %d" % p.returncode)
        res.append((tp, json.loads(out.strip().splitlines()[-1])))
    return res


def read_trace(path):
    with open(path) as f:
        return [json.loads(x) for x in f.read().splitlines() if x.strip()]


def tlc_trace(ctx, d, path, name):
    """Validates one trace file. Returns ("ok", n) | ("invariant", event_index, name) | ("rejected", event_index, detail)."""
    mod = "Trace_TxnAtomic_%s" % name
    with open(os.path.join(d, mod + ".tla"), "w") as f:
        f.write("---- MODULE %s ----\nEXTENDS Trace_TxnAtomic\n====\n" % mod)
    r = lib.tlc(ctx, d, mod, "Trace_TxnAtomic.cfg", workers=1, timeout=1500, env_extra={"TRACE": path}, coverage=False,
                xmx="3g", xss="1g", deque=True, expect_ok=False)
    acc = r.tuples("TRACE")
    if r.invariant:
        ls = re.findall(r"^/\\ l = (\d+)", r.out, re.M)
        if not ls:
            raise lib.ToolError("invariant %s violated but no state printed" % r.invariant)
        # l points at the next event: the violating state is the one reached by event l-1 (1-based)
        return ("invariant", int(ls[-1]) - 1, r.invariant)
    if acc and acc[-1].startswith('"accepted"') and r.ok:
        return ("ok", int(acc[-1].split(",")[1].strip()), "")
    if acc:
        m = re.match(r'"rejected", (\d+)', acc[-1])
        return ("rejected", int(m.group(1)) if m else -1, acc[-1][:600])
    lib.log(r.out[-4000:])
    raise lib.ToolError("trace validation of %s produced no verdict" % path)


def group_slice(events, idx):
    """The (pre-state, operation) group containing 1-based event idx: (start, end) 0-based, end exclusive."""
    start = max(i for i in range(idx) if events[i]["a"] == "reset")
    end = next((i for i in range(idx, len(events)) if events[i]["a"] == "reset"), len(events))
    return start, end


def exec_of(events, start, idx):
    """The execution (opstart..) containing 1-based event idx, inside the group starting at `start`."""
    s = max([i for i in range(start, idx) if events[i]["a"] == "opstart"] or [start])
    return events[s]


def report(ctx, d, path, verdict, what, seed):
    events = read_trace(path)
    kind, idx, detail = verdict
    start, end = group_slice(events, idx)
    grp = events[start]
    ex = exec_of(events, start, idx)
    # keep the replay small: the group's reference run and the execution in which the spec was left
    s_exec = max([i for i in range(start, idx) if events[i]["a"] in ("restore", "reset")] or [start])
    first_restore = next((i for i in range(start + 1, end) if events[i]["a"] == "restore"), end)
    nxt = next((i for i in range(idx, end) if events[i]["a"] == "restore"), end)
    sl = events[start:first_restore] + (events[s_exec:nxt] if s_exec >= first_restore else [])
    tp = ctx.path("slice_%s.ndjson" % what)
    with open(tp, "w") as f:
        for e in sl:
            f.write(json.dumps(e) + "\n")
    v2 = tlc_trace(ctx, d, tp, "slice_%s" % what)
    if v2[0] == "ok":
        # context outside the slice mattered: fall back to the whole group
        sl = events[start:end]
        with open(tp, "w") as f:
            for e in sl:
                f.write(json.dumps(e) + "\n")
        v2 = tlc_trace(ctx, d, tp, "slice2_%s" % what)
        if v2[0] == "ok":
            raise lib.ToolError("a violation in %s did not reproduce on its own group" % path)
    prop = v2[2] if v2[0] == "invariant" else "not a behaviour of TxnAtomic"
    # reader-interleaving groups: the VM step of the snapshot read at which the write operation ran
    rb = [e for e in events[s_exec:idx] if e["a"] == "rbegin" and "at" in e]
    reader_at = rb[-1]["at"] if rb and "@" in str(grp.get("op")) else None
    if reader_at is not None:
        where = "whole operation run at VM step %s of the reader's get_wallet_summary" % reader_at
    elif not ex.get("fault"):
        where = "uninterrupted run (mode %s, no fault injected)" % ex.get("mode")
    else:
        where = "%s run with fault at VM step %s" % (ex.get("mode"), ex.get("fault"))
    extra = ""
    if prop == "Consistent":
        bad = sorted(k for k, ok in (events[idx - 1].get("inv") or {}).items() if not ok)
        extra = (" -- the committed state observed there breaks the cross-table invariant(s) %s (call returned %s)"
                 % (", ".join(bad) or "?", next((e.get("res") for e in events[idx - 1:end] if e["a"] == "opend"), "?")))
    summary = ("state %s, operation %s, %s: after event %d (%s) of the recorded execution "
               "the specification's %s is violated: %s%s" %
               (grp.get("state"), grp.get("op"), where, idx, json.dumps(events[idx - 1])[:300], prop, v2[2][:300], extra))
    lib.violation(ctx, {"property": ctx.prop, "kind": v2[0], "invariant": prop, "state": grp.get("state"),
                        "op": grp.get("op"), "mode": ex.get("mode"), "fault": ex.get("fault"), "reader_at": reader_at,
                        "seed": seed, "tier": ctx.tier, "events": sl}, summary)


CHUNK = 20000


def split_trace(ctx, path, name):
    """Cuts a trace at `reset` events into files of at most ~CHUNK events (a group is never split)."""
    out, cur, n = [], [], 0
    with open(path) as f:
        lines = f.read().splitlines()
    for ln in lines:
        if ln.startswith('{"a":"reset"') and n >= CHUNK:
            out.append(cur)
            cur, n = [], 0
        cur.append(ln)
        n += 1
    if cur:
        out.append(cur)
    files = []
    for i, c in enumerate(out):
        p = ctx.path("%s_c%d.ndjson" % (name, i))
        with open(p, "w") as f:
            f.write("\n".join(c) + "\n")
        files.append(p)
    return files


def validate_all(ctx, d, traces, seed, tag="t"):
    files = []
    for i, (tp, _) in enumerate(traces):
        files += split_trace(ctx, tp, "%s%d" % (tag, i))
    results = [None] * len(files)
    nxt = [0]
    lock = threading.Lock()

    def work():
        while True:
            with lock:
                i = nxt[0]
                nxt[0] += 1
            if i >= len(files):
                return
            try:
                results[i] = tlc_trace(ctx, d, files[i], "%s_%d" % (tag, i))
            except Exception as e:  # noqa: BLE001
                results[i] = e

    th = [threading.Thread(target=work) for _ in range(min(SHARDS[ctx.tier], len(files)))]
    for t in th:
        t.start()
    for t in th:
        t.join()
    ok = True
    reported = 0
    for i, v in enumerate(results):
        if isinstance(v, Exception):
            raise v
        if v[0] == "ok":
            ctx.traces += v[1]
        else:
            ok = False
            if reported < 4:
                report(ctx, d, files[i], v, "%s_%d" % (tag, i), seed)
                reported += 1
    return ok


def run(ctx):
    bindir = lib.cargo_build("h_wallet", ["c02_driver"])
    d = lib.stage_specs(ctx, AREA)
    lib.sany(os.path.join(d, "TxnAtomic.tla"))
    lib.sany(os.path.join(d, "Trace_TxnAtomic.tla"))
    model_check(ctx, d)

    traces = drive(ctx, bindir, "quick" if ctx.quick() else "thorough", ctx.seed, SHARDS[ctx.tier])
    tot = {"executions": 0, "faults_fired": 0, "faults_with_pending_rows": 0, "distinct_nontrivial": 0, "panics": 0,
           "events": 0, "reader_interleavings": 0, "crash_images": 0, "err_after_commit": 0, "fault_absorbed_ok": 0,
           "skipped_positions": 0}
    groups = []
    for _, st in traces:
        tot["events"] += st["events"]
        for k in tot:
            if k in st["stats"]:
                tot[k] += st["stats"][k]
        groups += st["stats"]["groups"]
        for s in st["stats"]["samples"]:
            ctx.add_sample(s, cap=4)
    validate_all(ctx, d, traces, ctx.seed)
    ops = sorted({"%s/%s" % (g["state"], g["op"]) for g in groups})
    if tot["faults_with_pending_rows"] < 200 or tot["executions"] < 1000 or len(ops) < 8 or \
            tot["reader_interleavings"] < 20 or tot["crash_images"] < 100:
        raise lib.ToolError("vacuity: too few fault injections took place: %s" % tot)
    need = {"store_decrypted_unmined", "store_decrypted_mined", "store_to_be_sent", "create_account_refused",
            "import_ufvk_refused", "rewind_witness_refused"}
    missing = need - {g["op"] for g in groups}
    if missing:
        raise lib.ToolError("vacuity: operations not executed: %s" % sorted(missing))
    ctx.extra["driver_stats"] = tot
    ctx.extra["groups"] = sorted(groups, key=lambda g: (g["state"], g["op"]))
    lib.write_evidence(ctx, "fault_enumeration", {
        "evaluations": tot["executions"],
        "distinct_nontrivial": tot["distinct_nontrivial"],
        "rule": "for every (pre-state, wallet write operation) group: an uninterrupted reference run on a copy of the "
                "pre-state database (counts the VM steps, finds the statement boundaries), then one execution per fault "
                "position (every distinct statement text: first step of its first and last execution + a middle step; "
                "first and last VM step of sampled statements; all steps around BEGIN/COMMIT; seeded interior steps) "
                "with SQLite's progress handler failing the running statement there, followed (quick: every 3rd/4th "
                "time) by the same call again; quick runs the operations other than scan/truncate/rewind/lock/tip on one "
                "of the wallets A, B chosen by the seed and rotates the journal modes with the seed; evaluations = wallet API calls executed under instrumentation; distinct_nontrivial = distinct "
                "(pre-state, operation, VM step) at which the fault fired while at least one row change of the open "
                "transaction was pending (update-hook count > 0), i.e. a partial state existed to be rolled back",
        "states": max(1, ctx.states), "transitions": max(1, ctx.transitions),
        "traces_validated_against_impl": ctx.traces,
        "operations": ops,
    }, assumptions=[
        "SQLite's atomic commit, statement journal and snapshot isolation are the trusted base (a crash is a copy of the "
        "database + journal/WAL files reopened fresh, not a power cut below the VFS)",
        "faults are SQLITE_INTERRUPT raised by the progress handler at a chosen VM step of the writer's connection; other "
        "error kinds (I/O, full disk) take the same error paths of rusqlite",
        "no fault is injected at the last VM step of a BEGIN, a COMMIT or an autocommit write that has already taken "
        "effect (SQLite would report an error for a statement that ran to completion: an artefact of the progress "
        "handler) nor inside a ROLLBACK (rusqlite's Transaction::drop cannot report a failed ROLLBACK; the connection "
        "would stay inside the transaction whatever the wallet does); such positions are counted as skipped_positions",
        "one writer (the API takes &mut self); the reader is a second connection to the same file",
        "pre-states are produced by short seeded histories on the harness chain (four wallets: without NU6.3; with NU6.3 "
        "active; with NU6.3 and a pool migration in flight; one whose Sapling or Orchard tree lost, through the public "
        "WalletCommitmentTrees/ShardStore API, every checkpoint at or below an old note's height -- the state the crate "
        "documents for a pool whose post-migration rescan has only reached blocks near the tip, not reachable by scanning; "
        "journal modes rotate with the seed; thorough: each wallet also in the other journal mode / the other pool)",
        "the transactions stored by store_decrypted_* / store_to_be_sent are built by the wallet itself on a scratch copy "
        "of the pre-state database with the crates' mock Sapling provers (Sapling-funded, Sapling change); the two "
        "transactions stored in one call were built independently from the same notes",
        "Consistent: four cross-table facts, each relative to the height the scan queue extends to (no blocks row, no "
        "tree checkpoint of any pool, no transactions.mined_height, no tx_locator_map entry above it), computed by SQL on "
        "the harness's own connections in the same read transaction as the dump; they hold of every committed state the "
        "unchanged wallet produced in all runs (seeds 1..5 quick, thorough)",
        "random identifiers (account / migration uuids) are blanked in the canonical dump; all other columns are compared "
        "exactly",
    ])


def replay(ctx, path):
    bindir = lib.cargo_build("h_wallet", ["c02_driver"])
    d = lib.stage_specs(ctx, AREA)
    with open(path) as f:
        rep = json.load(f)
    # (a) the recorded events
    tp = ctx.path("replay_trace.ndjson")
    with open(tp, "w") as f:
        for e in rep["events"]:
            f.write(json.dumps(e) + "\n")
    v = tlc_trace(ctx, d, tp, "replay")
    if v[0] != "ok":
        report(ctx, d, tp, v, "replay", rep.get("seed", 1))
    else:
        lib.log("replay: the recorded events are accepted by the specification")
    # (b) the same group executed again on the current tree
    if rep.get("state") and rep.get("op"):
        only = "%s/%s" % (rep["state"], rep["op"])
        if rep.get("reader_at"):
            only += "/%s" % rep["reader_at"]
        elif rep.get("fault"):
            only += "/%s" % rep["fault"]
        traces = drive(ctx, bindir, rep.get("tier", "quick"), rep.get("seed", 1), 1, only=only, tag="re")
        if validate_all(ctx, d, traces, rep.get("seed", 1), tag="re"):
            lib.log("replay: re-executed %s on the current tree: accepted" % only)


def selftest(ctx):
    """Binding demonstration: corrupt one logged digest / drop a commit event / drop a rollback event ->
    TLC must leave the specification at that execution."""
    bindir = lib.cargo_build("h_wallet", ["c02_driver"])
    d = lib.stage_specs(ctx, AREA)
    traces = drive(ctx, bindir, "self", 7, 1, tag="self")
    path = traces[0][0]
    v = tlc_trace(ctx, d, path, "self")
    if v[0] != "ok":
        raise lib.ToolError("selftest: fresh trace not accepted: %s" % (v,))
    ev = read_trace(path)

    def variant(name, edit):
        e2 = edit([dict(e) for e in ev])
        p = ctx.path("self_%s.ndjson" % name)
        with open(p, "w") as f:
            for e in e2:
                f.write(json.dumps(e) + "\n")
        return tlc_trace(ctx, d, p, "self_" + name)

    # the state reported after a failed, faulted call
    opend_err = [i for i, e in enumerate(ev) if e["a"] == "opend" and e["res"] == "err" and
                 any(x["a"] == "winterrupt" for x in ev[max(0, i - 12):i])]
    k = opend_err[len(opend_err) // 2]

    def corrupt(es):
        es[k]["dig"] = "0" * 20
        es[k]["wdig"] = "0" * 20
        return es
    v = variant("digest", corrupt)
    if v[0] != "invariant" or v[1] != k + 1:
        raise lib.ToolError("selftest: corrupted post-state digest at event %d not rejected there: %s" % (k + 1, v))
    got = [v[2]]
    # a commit the hooks did not report
    commits = [i for i, e in enumerate(ev) if e["a"] == "wcommit"]
    c = commits[len(commits) // 2]
    v = variant("dropcommit", lambda es: es[:c] + es[c + 1:])
    if v[0] == "ok":
        raise lib.ToolError("selftest: dropped commit event not noticed")
    got.append(v[2] if v[0] == "invariant" else "rejected")
    # a transaction left open
    rbs = [i for i, e in enumerate(ev) if e["a"] == "wrollback"]
    rb = rbs[len(rbs) // 2]
    v = variant("droprollback", lambda es: es[:rb] + es[rb + 1:])
    if v[0] == "ok":
        raise lib.ToolError("selftest: dropped rollback event not noticed")
    got.append(v[2] if v[0] == "invariant" else "rejected")
    # what the reader saw from inside the writer's callback
    rr = [i for i, e in enumerate(ev) if e["a"] == "rread" and e["kind"] == "summary"]
    q = rr[len(rr) // 2]

    def corrupt_read(es):
        es[q]["val"] = "f" * 20
        return es
    v = variant("read", corrupt_read)
    if v[0] != "invariant" or v[1] != q + 1 or v[2] != "Snapshot":
        raise lib.ToolError("selftest: corrupted reader observation at event %d not rejected there: %s" % (q + 1, v))
    got.append(v[2])
    # a cross-table fact of a committed state (after a call that returned Ok; of a crash image)
    oks = [i for i, e in enumerate(ev) if e["a"] == "opend" and e["res"] == "ok"]
    o = oks[len(oks) // 2]
    c = next(i for i in range(o, -1, -1) if ev[i]["a"] == "wcommit" and ev[i]["dig"] == ev[o]["dig"])

    def corrupt_fact(es):
        for i in (c, o):
            es[i]["inv"] = dict(es[i]["inv"], blocks_le_tip=False)
        return es
    v = variant("fact", corrupt_fact)
    if v[0] != "invariant" or v[1] != c + 1 or v[2] != "Consistent":
        raise lib.ToolError("selftest: a committed state breaking a cross-table invariant (event %d) not rejected there: %s" % (c + 1, v))
    got.append(v[2])
    crs = [i for i, e in enumerate(ev) if e["a"] == "crash"]
    k2 = crs[len(crs) // 2]

    def corrupt_crash(es):
        es[k2]["inv"] = dict(es[k2]["inv"], checkpoints_le_tip=False)
        return es
    v = variant("crashfact", corrupt_crash)
    if v[0] != "invariant" or v[1] != k2 + 1 or v[2] not in ("Consistent", "CrashAtomic"):
        raise lib.ToolError("selftest: a crash image breaking a cross-table invariant (event %d) not rejected there: %s" % (k2 + 1, v))
    got.append(v[2])
    lib.log("selftest ok: corrupted digest / dropped commit / dropped rollback / corrupted reader observation / "
            "inconsistent committed state / inconsistent crash image rejected: %s" % got)
