"""C01, the transparent half of the ledger ("notes AND COINS"): Coins.tla / Trace_Coins.tla.

The wallet's transparent coin ledger exists only when the wallet crates are built with `transparent-inputs`, a
configuration the repository's baseline suite never compiles.  This part of the C01 check

1. explores Coins.tla exhaustively under small constants (MC_Coins: two coins, a spend with change, a second -
   possibly conflicting - spender; reports and full transactions in every order and repetition, mined at any height
   or unmined with expiry 0 / E, tip advances across E, rewinds) with the theorems NoDoubleCount, MinedSpenderWins,
   ExpiredNotCounted, LinkComplete (arrival order of a coin and its spender does not matter), Confluent, Idempotent;
2. drives the real SQLite wallet (harness package h_wallet_t) through seeded histories that interleave the shielded
   operations of the C01 driver with UTXO reports and full transparent transactions in both arrival orders, and has
   TLC validate every event against Trace_Coins.tla (which EXTENDS Trace_Wallet: the shielded laws stay checked):
   the rows of transparent_received_outputs |x| transactions |x| transparent_received_output_spends and the
   unshielded balances get_wallet_summary reports must equal the specification's state and ledger.

Called from checks/c01.py: run_part(ctx) -> stats, selftest_part(ctx), replay_part(ctx, replay_object).
Known finding C01-conflicting-spenders-one-linked (see notes/c01-coins-report.md): the law it breaks (KnownSpendersLaw) is
applied strictly (the defect was repaired in /repo, see known_findings.json "fixed"); only an entry listed open would excuse it.
"""
import json
import os
import re

from . import lib

AREA = "Wallet"
BIN = "c01t_driver"
KIND = "coin_trace_rejected"


FINDING = "C01-conflicting-spenders-one-linked"


def finding_mode():
    """How KnownSpendersLaw (Trace_Coins.tla) is applied: not at all while the finding is not listed in
    known_findings.json, excused-and-reported while it is listed open, strictly once it is listed otherwise (fixed)."""
    if os.environ.get("VERIF_COIN_KNOWN_SPENDERS") in ("off", "excuse", "strict"):      # development aid (trying a repair)
        return os.environ["VERIF_COIN_KNOWN_SPENDERS"]
    for f in lib.load_known_findings():
        if f.get("id") == FINDING and f.get("status") == "open":
            return "excuse"
    return "strict"      # the defect was repaired in /repo (known_findings.json, "fixed"): the law is applied strictly


def trace_env(explain=False, mode=None):
    from . import c01
    env = dict(c01.trace_env())
    env["CHECK_COINS"] = "1"
    env["COIN_KNOWN_SPENDERS"] = mode or finding_mode()
    if explain:
        env["EXPLAIN"] = "1"
    return env


def write_mc_cfg(path, maxops):
    with open(path, "w") as f:
        f.write("SPECIFICATION Spec\nCONSTANTS\n  ExpiryDelta = 1\n  Dust = 5\n  Maturity = 2\n  MaxH = 3\n  E = 2\n"
                "  MaxOps = %d\nINVARIANT Inv\nCHECK_DEADLOCK FALSE\n" % maxops)


def drive(ctx, bindir, name, args, seed):
    path = ctx.path("ctrace_%s.ndjson" % name)
    lib.run_bin(os.path.join(bindir, BIN), [path] + [str(a) for a in args], env_extra={"VERIF_SEED": str(seed)}, timeout=3000)
    return path


def trace_stats(path):
    st = {"events": 0, "histories": 0, "utxo_ok": 0, "utxo_refused": 0, "utxo_unmined": 0, "fulltx_ok": 0, "fulltx_refused": 0,
          "txstatus_ok": 0, "txstatus_refused": 0, "fulltx_mined": 0, "fulltx_unmined": 0, "fulltx_never_expires": 0, "fulltx_no_wallet_output": 0,
          "coin_projections": 0, "coin_balance_checked": 0, "coin_balance_nonzero": 0, "dust_nonzero": 0, "account2_nonzero": 0,
          "spender_before_coin_states": 0, "states_with_links": 0, "states_with_unmined_spender": 0, "states_with_unmined_coin_tx": 0,
          "states_with_conflicting_spenders": 0, "trunc_ok": 0, "trunc_refused": 0, "max_coin_rows": 0, "distinct_coin_states": 0}
    seen = set()
    sample = None
    with open(path) as f:
        for line in f:
            r = json.loads(line)
            st["events"] += 1
            a = r["a"]
            if a == "reset":
                st["histories"] += 1
            elif a == "utxo":
                st["utxo_ok" if r["res"] == "ok" else "utxo_refused"] += 1
                st["utxo_unmined"] += 1 if r["h"] == -1 else 0
            elif a == "fulltx":
                st["fulltx_ok" if r["res"] == "ok" else "fulltx_refused"] += 1
                st["fulltx_unmined" if r["h"] == -1 else "fulltx_mined"] += 1
                st["fulltx_never_expires"] += 1 if r["e"] == 0 else 0
                st["fulltx_no_wallet_output"] += 1 if not r["outs"] else 0
            elif a == "trunc":
                st["trunc_ok" if r["res"] == "ok" else "trunc_refused"] += 1
            elif a == "txstatus":
                st["txstatus_ok" if r["res"] == "ok" else "txstatus_refused"] += 1
            cp = r.get("coins")
            if not cp or not cp.get("chk"):
                continue
            st["coin_projections"] += 1
            rows = cp["rows"]
            st["max_coin_rows"] = max(st["max_coin_rows"], len(rows))
            key = json.dumps([rows, cp["bal"], cp["balp"]], sort_keys=True)
            if key not in seen:
                seen.add(key)
            if cp["balp"]:
                st["coin_balance_checked"] += 1
                st["coin_balance_nonzero"] += 1 if any(b[0] + b[1] > 0 for b in cp["bal"]) else 0
                st["dust_nonzero"] += 1 if any(b[1] > 0 for b in cp["bal"]) else 0
                st["account2_nonzero"] += 1 if cp["bal"][1][0] + cp["bal"][1][1] > 0 else 0
            st["spender_before_coin_states"] += 1 if cp["smap"] else 0
            st["states_with_links"] += 1 if any(x["sp"] for x in rows) else 0
            st["states_with_conflicting_spenders"] += 1 if any(len(x["sp"]) > 1 for x in rows) else 0
            st["states_with_unmined_spender"] += 1 if any(s[1] == -1 for x in rows for s in x["sp"]) else 0
            st["states_with_unmined_coin_tx"] += 1 if any(x["mined"] == -1 for x in rows) else 0
            if sample is None and a == "fulltx" and r["res"] == "ok" and cp["balp"] and any(x["sp"] for x in rows):
                sample = {k: r[k] for k in ("a", "t", "ins", "outs", "h", "e", "res")}
                sample["coins"] = {"rows": rows[:4], "bal": cp["bal"]}
    st["distinct_coin_states"] = len(seen)
    return st, sample


def _explain(ctx, d, lines, start, n, mode=None):
    """Model's expectation for the rejected event (EXPLAIN=1 lets the trace continue and prints it)."""
    try:
        cut = ctx.path("ctrace_rejected_history.ndjson")
        with open(cut, "w") as f:
            f.write("\n".join(lines[start:n]) + "\n")
        _, _, _, r = lib.tlc_validate(ctx, d, "Trace_Coins", "Trace_Coins.cfg", cut, timeout=600, env_extra=trace_env(explain=True, mode=mode))
        out = r.out
        try:                                   # (the C08 part reads the proposal explanation off the same run)
            from . import c08_coins
            c08_coins._last_explain_output["out"] = out
        except Exception:
            pass
        hits = [m.start() for m in re.finditer(r'<<\s*"EXPLAINC?",', out)]
        if hits:
            seg = out[hits[-1]:hits[-1] + 1800].split('<<"TRACE"')[0]
            return " ".join(seg.split())
    except Exception as e:  # the explanation is an aid only
        return "(no explanation: %s)" % e
    return ""


def validate(ctx, d, path, what, mode=None):
    acc, n, detail, r = lib.tlc_validate(ctx, d, "Trace_Coins", "Trace_Coins.cfg", path, timeout=1500, env_extra=trace_env(mode=mode))
    # (a scan refused in a history tainted by the C06 stale-frontier finding is excused by Trace_Wallet exactly as in
    # checks/c01.py; it is C06 that reports it)
    if any(FINDING in k for k in r.tuples("KNOWN")):
        what_ = next((f.get("what", "") for f in lib.load_known_findings() if f.get("id") == FINDING), "")
        lib.known_finding(ctx, "id=%s %s" % (FINDING, what_[:260]))
    if acc:
        ctx.traces += n
        return True
    with open(path) as f:
        lines = f.read().splitlines()
    start = max(i for i in range(n) if json.loads(lines[i])["a"] == "reset")
    ev = json.loads(lines[n - 1])
    history = [json.loads(x) for x in lines[start:n]]
    eff = mode or finding_mode()
    if eff != "off":
        # is it the property-level law (and not the transcription) that the wallet breaks?
        cut = ctx.path("ctrace_rejected_history_nolaw.ndjson")
        with open(cut, "w") as f:
            f.write("\n".join(lines[start:n]) + "\n")
        acc_off, _, _, _ = lib.tlc_validate(ctx, d, "Trace_Coins", "Trace_Coins.cfg", cut, timeout=900, env_extra=trace_env(mode="off"))
        if acc_off:
            lib.violation(ctx, {"property": ctx.prop, "kind": KIND, "law": "KnownSpendersLaw", "what": what,
                                "first_unmatched_event": n - start, "event": ev, "history": history},
                          "transparent coins: after event %d of a recorded wallet history the wallet counts a coin although a "
                          "transaction it stored in full, and has on record as mined at or below its tip, spends it "
                          "(KnownSpendersLaw of Trace_Coins.tla; rows and balances otherwise agree with Coins.tla): value is "
                          "counted twice. coins: %s" % (n - start, json.dumps(ev.get("coins"))[:1500]))
            return False
    expect = _explain(ctx, d, lines, start, n, mode)
    lib.violation(ctx, {"property": ctx.prop, "kind": KIND, "what": what, "first_unmatched_event": n - start,
                        "event": ev, "history": history},
                  "transparent coins: event %d of a recorded wallet history (operation '%s') is not a step of Coins.tla / "
                  "Wallet.tla - the coin rows or the unshielded balance the real wallet (built with transparent-inputs) "
                  "reports disagree with the ledger the specification computes. logged: %s | specification expects: %s"
                  % (n - start, ev.get("a"), json.dumps({k: ev[k] for k in ev if k not in ("post",)})[:1200], expect[:1500]))
    return False


def run_part(ctx):
    bindir = lib.cargo_build("h_wallet_t", [BIN])
    d = lib.stage_specs(ctx, AREA)
    lib.sany(os.path.join(d, "Trace_Coins.tla"))      # (MC_Coins is parsed by the TLC run below)

    # (1) the specification alone
    cfg = "MC_Coins_gen.cfg"
    write_mc_cfg(os.path.join(d, cfg), 3)
    r = lib.tlc(ctx, d, "MC_Coins", cfg, workers=8, timeout=1200)
    lib.require_coverage(r, ["Report", "Store", "Tip", "Trunc"])
    lib.account_tlc(ctx, r)
    if not ctx.quick():
        write_mc_cfg(os.path.join(d, "MC_Coins_deep.cfg"), 5)
        r = lib.tlc(ctx, d, "MC_Coins", "MC_Coins_deep.cfg", workers=8, timeout=3000, coverage=False)
        lib.account_tlc(ctx, r)

    # (2) recorded executions of the real wallet (transparent-inputs build), validated by TLC
    plans = [("scenarios", ["scenarios"])]
    if finding_mode() != "off":
        plans.append(("conflict", ["conflict-scenario"]))     # the history of the known finding (must pass once it is fixed)
    plans += [("base", [5, 90]), ("ironwood", [3, 80, "ironwood"])] if ctx.quick() else \
        [("base%d" % i, [20, 110]) for i in range(2)] + [("ironwood%d" % i, [15, 110, "ironwood"]) for i in range(2)]
    totals = {}
    paths = []
    for i, (name, args) in enumerate(plans):
        path = drive(ctx, bindir, name, args, ctx.seed * 100 + 70 + i)
        st, sample = trace_stats(path)
        for k, v in st.items():
            totals[k] = max(totals.get(k, 0), v) if k.startswith("max_") else totals.get(k, 0) + v
        if sample:
            ctx.add_sample(sample)
        paths.append((name, path))
    if ctx.quick():
        # one TLC run over all histories (each starts with a reset event)
        allp = ctx.path("ctrace_all.ndjson")
        with open(allp, "w") as out:
            for _, p in paths:
                with open(p) as f:
                    out.write(f.read())
        validate(ctx, d, allp, "+".join(n for n, _ in paths))
    else:
        for name, p in paths:
            if not validate(ctx, d, p, name):
                break
    if not ctx.violations:
        need = {"coin_balance_nonzero": 100, "dust_nonzero": 10, "account2_nonzero": 10, "spender_before_coin_states": 20,
                "states_with_unmined_spender": 20, "states_with_unmined_coin_tx": 20, "trunc_ok": 5, "fulltx_mined": 10,
                "fulltx_unmined": 10, "fulltx_never_expires": 5, "utxo_ok": 30}
        low = {k: totals.get(k, 0) for k, v in need.items() if totals.get(k, 0) < v}
        if low:
            raise lib.ToolError("vacuity: the coin driver produced too few checked states: %s" % low)
    ctx.extra["coin_trace_stats"] = totals
    return totals


RULE = ("seeded histories on the real SQLite wallet built with transparent-inputs: the shielded operations of C01 interleaved "
        "with put_received_transparent_utxo (coins of both accounts, below / at / above the tip, unmined) and "
        "decrypt_and_store_transaction of transparent transactions spending reported / unreported coins and paying the "
        "wallet (mined or unmined, expiry 0 or concrete, spender before or after its coin, conflicting spenders), tip "
        "walks across expiry heights, rewinds below mined heights and re-reports; every event's coin rows and unshielded "
        "balances must equal Coins.tla's state and ledger; distinct_nontrivial = distinct coin projections (rows + balances)")
ASSUMPTIONS = ["transparent transactions are fabricated without signatures (storage does not verify them); values < 10^6",
               "the environment behaves like a chain: a transaction the wallet has on record as mined is not re-reported at "
               "another height without a rewind in between, and is mined at or below its expiry height",
               "the split of the unshielded balance into total / uneconomic is accepted in the documented per-coin reading or "
               "in the reading the account-level query computes (dust rule applied to the sum of a group of coins); their sum "
               "(what C01 states) is exact",
               "no balance is claimed while the wallet reports no summary"]


def selftest_part(ctx):
    """Binding demonstration: a corrupted unshielded balance / coin row, and a dropped utxo event, must be rejected."""
    bindir = lib.cargo_build("h_wallet_t", [BIN])
    d = lib.stage_specs(ctx, AREA)
    path = drive(ctx, bindir, "self", ["scenarios"], 7)
    with open(path) as f:
        lines = f.read().splitlines()
    recs = [json.loads(x) for x in lines]
    # a utxo report that created a row and changed a reported balance
    idx = [i for i in range(1, len(recs)) if recs[i]["a"] == "utxo" and recs[i]["res"] == "ok" and recs[i]["coins"]["balp"]
           and recs[i - 1].get("coins", {}).get("chk") and recs[i - 1]["coins"]["bal"] != recs[i]["coins"]["bal"]
           and len(recs[i - 1]["coins"]["rows"]) != len(recs[i]["coins"]["rows"])][1]

    def expect_reject(name, new_lines, at, what):
        p = ctx.path(name)
        with open(p, "w") as f:
            f.write("\n".join(new_lines) + "\n")
        acc, n, _, _ = lib.tlc_validate(ctx, d, "Trace_Coins", "Trace_Coins.cfg", p, env_extra=trace_env())
        if acc or (at is not None and n != at):
            raise lib.ToolError("selftest (coins): %s not rejected at event %s (got accepted=%s at %s)" % (what, at, acc, n))
        return n

    acc, n, _, _ = lib.tlc_validate(ctx, d, "Trace_Coins", "Trace_Coins.cfg", path, env_extra=trace_env())
    if not acc:
        raise lib.ToolError("selftest (coins): the unmodified trace is rejected at %d" % n)
    rec = json.loads(lines[idx])
    a = 0 if rec["coins"]["bal"][0][0] + rec["coins"]["bal"][0][1] > 0 else 1
    rec["coins"]["bal"][a][0] += 1
    expect_reject("coins_corrupt_balance.ndjson", lines[:idx] + [json.dumps(rec)] + lines[idx + 1:], idx + 1, "corrupted unshielded balance")
    rec = json.loads(lines[idx])
    rec["coins"]["rows"][-1]["mined"] += 1
    expect_reject("coins_corrupt_row.ndjson", lines[:idx] + [json.dumps(rec)] + lines[idx + 1:], idx + 1, "corrupted coin row")
    # a spend link removed from the projection
    li = [i for i in range(len(recs)) if recs[i].get("coins", {}).get("chk") and any(x["sp"] for x in recs[i]["coins"]["rows"])][0]
    rec = json.loads(lines[li])
    for x in rec["coins"]["rows"]:
        x["sp"] = []
    expect_reject("coins_corrupt_link.ndjson", lines[:li] + [json.dumps(rec)] + lines[li + 1:], li + 1, "removed spend link")
    n = expect_reject("coins_dropped.ndjson", lines[:idx] + lines[idx + 1:], None, "dropped utxo event")
    lib.log("selftest (coins) ok: corrupted balance, coin row and spend link rejected at their events; dropped utxo event rejected at %d" % n)


def probe_conflicting_spenders(ctx):
    """Not part of the registered run: drives the minimal history of the suspected defect (two conflicting spenders
    stored before their coin, a reorg, the surviving spender's mining learnt from a UTXO report of its change) and
    validates it with KnownSpendersLaw strict. Returns {"reproduced": bool, "event": ..., "accepted_without_law": bool}."""
    bindir = lib.cargo_build("h_wallet_t", [BIN])
    d = lib.stage_specs(ctx, AREA)
    path = drive(ctx, bindir, "conflict_probe", ["conflict-scenario"], 1)
    acc0, n0, _, _ = lib.tlc_validate(ctx, d, "Trace_Coins", "Trace_Coins.cfg", path, env_extra=trace_env(mode="off"))
    acc1, n1, _, _ = lib.tlc_validate(ctx, d, "Trace_Coins", "Trace_Coins.cfg", path, env_extra=trace_env(mode="strict"))
    with open(path) as f:
        lines = f.read().splitlines()
    ev = json.loads(lines[n1 - 1]) if not acc1 else None
    return {"reproduced": bool(acc0 and not acc1), "accepted_without_law": bool(acc0), "first_rejected_event": None if acc1 else n1,
            "event": ev, "history": [json.loads(x) for x in lines]}


def replay_part(ctx, rep):
    lib.cargo_build("h_wallet_t", [BIN])
    d = lib.stage_specs(ctx, AREA)
    tp = ctx.path("coin_replay_trace.ndjson")
    with open(tp, "w") as f:
        for e in rep["history"]:
            f.write(json.dumps(e) + "\n")
    # a replay of a KnownSpendersLaw breach is judged with the law applied (excused only while the finding is listed open)
    mode = "strict" if rep.get("law") == "KnownSpendersLaw" and finding_mode() == "off" else None
    if validate(ctx, d, tp, "replay", mode=mode):
        lib.log("replay: the recorded coin history is accepted by the specification")
