"""C05 — compact-block scanning finds exactly the wallet's notes and spends (spec/Scan).

1. TLC checks the theorems of ScanBlock.tla (positions are a bijection onto start..final-1, received
   + foreign partition the outputs, spent + unlinked partition the spends, marked/checkpoint/change
   rules, error precedence, hash-tag independence) on every block of several finite families, and
   BatchRunner.tla (every interleaving of the batched decryptor's critical sections, thresholds,
   pool sizes: Collect returns exactly the decryptable outputs, no deadlock; the two safeguards
   switched off must produce a deadlock / a wrong collection).
2. spec -> code: TLC enumerates the abstract blocks of the families and prints each with the result
   the definition predicts; seeded random big shapes, padded blocks and wallet ranges are generated
   here and *evaluated by TLC* (Eval_ScanBlock). The harness materialises every block with real note
   encryption and corrupts the protobuf fields as asked, and runs it
     (a) through scanning::scan_block (inline decryption), comparing every ScannedBlock accessor /
         the error class with the prediction;
     (b) as ranges through data_api::chain::scan_cached_blocks on the real SQLite wallet (batched
         decryption, threshold 100) in subprocesses with RAYON_NUM_THREADS in {1, 2, 4, 16},
         comparing the wallet's note rows, spend links and block rows with the prediction; a
         rejected range must leave the dump of every table unchanged.
   The schedule clause is bound by that thread-count sweep (hook H1 is not installed).
"""
import concurrent.futures
import hashlib
import json
import os
import random
import time

from . import lib

AREA = "Scan"
POOLS = ["S", "O", "I"]
PIDX = {"S": 1, "O": 2, "I": 3}
SIB = {"S": "S", "O": "I", "I": "O"}
K12 = ["a1e", "a1i", "a2e", "a2i"]
THREADS = [1, 2, 4, 16]
HEADER_KINDS = ["txid_len", "hash_len", "prev_len", "height_big", "txindex_big"]
SETUP_TRACKED = [{"n": 10 * PIDX[p] + a, "p": p, "a": a} for p in POOLS for a in (1, 2)]


# ------------------------------------------------------------------------------------------------
# TLC configurations

def sset(xs):
    return "{" + ", ".join('"%s"' % x for x in xs) + "}"


def write_cfg(path, family, pool="S", owners=("a1e", "f"), spends=("t1", "u"), action=False, maxtx=1, maxout=1,
              maxsp=1, emit=False, invariants=True, inv="AllTheorems"):
    with open(path, "w") as f:
        f.write("SPECIFICATION Spec\nCONSTANTS\n")
        f.write('  Family = "%s"\n  OnePool = "%s"\n  OwnersDom = %s\n  SpendsDom = %s\n' % (family, pool, sset(owners), sset(spends)))
        f.write("  ActionShaped = %s\n  MaxTx = %d\n  MaxOut = %d\n  MaxSp = %d\n  Emit = %s\n"
                % ("TRUE" if action else "FALSE", maxtx, maxout, maxsp, "TRUE" if emit else "FALSE"))
        if invariants:
            f.write("INVARIANTS %s\n" % inv)
        f.write("CHECK_DEADLOCK FALSE\n")


def families(ctx):
    """(name, kwargs) of the block families: `mc` are model-checked (theorems), `emit` are replayed.
    Family P runs every shape under four environments, Q under one (for the largest bound)."""
    full_o = ("a1e", "a1i", "a2e", "f")
    full_s = ("t1", "t2", "u", "x")
    red = dict(owners=("a1e", "f"), spends=("t1", "u"))
    q = ctx.quick()
    if q:
        mc = [
            ("D", dict(family="D", maxtx=1)),
            ("A", dict(family="P", pool="S", maxtx=3, maxout=2, maxsp=1, **red)),
            ("B", dict(family="P", pool="O", owners=full_o + ("m",), spends=full_s + ("m",), action=True, maxtx=1, maxout=2)),
            ("Bs", dict(family="P", pool="S", owners=full_o + ("m",), spends=full_s + ("m",), maxtx=1, maxout=2, maxsp=2)),
            ("X", dict(family="X", maxtx=1)),
        ]
        emit = [
            ("D", dict(family="D", maxtx=1)),
            ("S", dict(family="P", pool="S", owners=("a1e", "a1i", "f"), spends=("t1", "t2", "u"), maxtx=2, maxout=2, maxsp=1)),
            ("Sm", dict(family="P", pool="S", owners=full_o + ("m",), spends=full_s + ("m",), maxtx=1, maxout=2, maxsp=1)),
            ("X", dict(family="X", maxtx=1)),
        ]
        for p in ("O", "I"):
            emit.append((p, dict(family="P", pool=p, owners=("a1i", "a2e", "f"), spends=("t1", "u"), action=True, maxtx=2, maxout=2)))
            emit.append((p + "m", dict(family="P", pool=p, owners=full_o + ("m",), spends=full_s + ("m",), action=True, maxtx=1, maxout=2)))
        return mc, emit
    mc = [
        ("D", dict(family="D", maxtx=2)),
        # reduced alphabet, one environment: <=3 txs x <=3 outputs x <=1 spend and <=2 txs x <=3 outputs x <=2 spends;
        # the full bound of the property text (<=3 x <=3 x <=2: 1 168 757 states, ~3 ms each) with C05_FULL_BOUND=1
        ("A", dict(family="Q", pool="S", maxtx=3, maxout=3, maxsp=1, **red)),
        ("A3", dict(family="Q", pool="S", maxtx=2, maxout=3, maxsp=2, **red)),
        ("A2", dict(family="P", pool="S", maxtx=3, maxout=2, maxsp=1, **red)),
        ("B", dict(family="Q", pool="O", owners=full_o + ("m",), spends=full_s + ("m",), action=True, maxtx=2, maxout=2)),
        ("Bs", dict(family="P", pool="S", owners=full_o + ("m",), spends=full_s + ("m",), maxtx=2, maxout=2, maxsp=1)),
        ("X", dict(family="X", maxtx=2)),
    ]
    # (Orchard / Ironwood blocks cost ~5 ms each to scan: their families are kept smaller than Sapling's)
    emit = [
        ("D", dict(family="D", maxtx=2)),
        ("S", dict(family="P", pool="S", owners=full_o, spends=("t1", "t2", "u"), maxtx=2, maxout=2, maxsp=1)),
        ("S3", dict(family="P", pool="S", maxtx=3, maxout=2, maxsp=1, **red)),
        ("Sm", dict(family="P", pool="S", owners=full_o + ("m",), spends=full_s + ("m",), maxtx=1, maxout=2, maxsp=2)),
        ("X", dict(family="X", maxtx=2)),
    ]
    if os.environ.get("C05_FULL_BOUND") == "1":
        mc.append(("Afull", dict(family="Q", pool="S", maxtx=3, maxout=3, maxsp=2, inv="CoreTheorems", **red)))
    for p in ("O", "I"):
        emit.append((p, dict(family="P", pool=p, owners=full_o, spends=("t1", "u"), action=True, maxtx=2, maxout=2)))
        emit.append((p + "3", dict(family="Q", pool=p, owners=("a1i", "f"), spends=("t1", "u"), action=True, maxtx=3, maxout=1)))
        emit.append((p + "m", dict(family="P", pool=p, owners=full_o + ("m",), spends=full_s + ("m",), action=True, maxtx=1, maxout=2)))
    return mc, emit


# ------------------------------------------------------------------------------------------------
# seeded generators of abstract cases (evaluated by TLC, not here)

def spend_of(label, p):
    if label == "t1":
        return {"k": "t", "n": 10 * PIDX[p] + 1}
    if label == "t2":
        return {"k": "t", "n": 10 * PIDX[p] + 2}
    if label == "x":
        return {"k": "t", "n": 99 if p == "S" else 10 * PIDX[SIB[p]] + 1}
    return {"k": label, "n": 0}


def out_of(label, t, p, i):
    return {"o": label, "v": 1000 * t + 100 * PIDX[p] + 10 * i + 1, "n": 0 if label in ("f", "m") else 100 * t + 10 * PIDX[p] + i}


def rand_block_case(rng, clean=False):
    """One abstract block of the big shape (<=3 txs x <=3 outputs per pool x <=2 Sapling spends), any
    prior / continuity / metadata / key set (clean: connected, consistent, well-formed, prior known)."""
    ntx = rng.choice([0, 1, 1, 2, 2, 3, 3])
    pm = 0.04 if rng.random() < 0.3 and not clean else 0.0
    txs = []
    for t in range(1, ntx + 1):
        tx = {}
        for p in POOLS:
            if rng.random() < 0.3:
                tx[p] = {"sp": [], "out": []}
                continue
            nout = rng.randint(0, 3)
            nsp = rng.randint(0, 2) if p == "S" else nout
            sp = [spend_of("m" if rng.random() < pm else rng.choice(["t1", "t2", "u", "u", "x"]), p) for _ in range(nsp)]
            out = [out_of("m" if rng.random() < pm else rng.choice(["a1e", "a1i", "a2e", "a2i", "f", "f"]), t, p, i) for i in range(1, nout + 1)]
            tx[p] = {"sp": sp, "out": out}
        txs.append(tx)
    count = {p: sum(len(tx[p]["out"]) for tx in txs) for p in POOLS}
    if rng.random() < 0.25 and not clean:
        prior = {"k": "none"}
        known = {p: False for p in POOLS}
    else:
        known = {p: rng.random() < 0.8 for p in POOLS}
        prior = {"k": "some", "h": 10, "hash": 1, "sz": {p: (rng.randint(0, 40) if known[p] else -1) for p in POOLS}}
    start = {p: (prior["sz"][p] if prior["k"] == "some" and known[p] else rng.randint(0, 40)) for p in POOLS}
    tru = {p: start[p] + count[p] for p in POOLS}
    mk = rng.choice(["ok", "ok", "ok", "absent", "absent", "short", "long", "lt", "zero"])
    if clean:
        mk = "ok"
        known = {p: True for p in POOLS}
        prior["sz"] = dict(start)
    mp = rng.choice(POOLS)
    if mk == "absent":
        meta = {"k": "absent"}
    else:
        sz = dict(tru)
        if mk == "short":
            sz[mp] = max(0, sz[mp] - rng.randint(1, 2))
        elif mk == "long":
            sz[mp] += rng.randint(1, 3)
        elif mk == "lt":
            sz[mp] = max(0, count[mp] - 1)
        elif mk == "zero":
            sz = {p: 0 for p in POOLS}
        meta = {"k": "given", "sz": sz}
    nact = rng.choice([0, 1, 2, 3, 3, 3])
    block = {"h": 11 if clean else 10 + rng.choice([1, 1, 1, 1, 1, 1, 0, 2, 5]), "hash": 2, "prev": 1 if clean else rng.choice([1, 1, 1, 1, 3]), "bad": "none",
             "act": {p: PIDX[p] <= nact for p in POOLS}, "meta": meta, "txs": txs}
    keys = rng.choice([K12, K12, K12, ["a1e", "a1i"], ["a1i", "a2e"], ["a2e", "a2i"], ["a1e"]])
    return {"kind": "block", "prior": prior, "block": block, "keys": keys, "tracked": SETUP_TRACKED}


def header_block_cases(rng, per_kind):
    """Blocks with a header-level field that cannot be parsed (otherwise arbitrary)."""
    out = []
    for kind in HEADER_KINDS:
        n = 0
        while n < per_kind:
            # the first of each kind is otherwise clean, so that the malformed field is certainly reached
            c = rand_block_case(rng, clean=(n == 0))
            b = c["block"]
            if not b["txs"] or (kind == "prev_len" and (c["prior"]["k"] != "some" or b["h"] != 11)):
                continue
            b["bad"] = kind
            out.append(c)
            n += 1
    return out


class WalletGen:
    """Generates ranges for the wallet replay and tracks what the wallet should hold afterwards (the
    generator's own bookkeeping is cross-checked against TLC's evaluation)."""

    def __init__(self, rng):
        self.rng = rng
        self.top = 0
        self.tag = 0          # hash tag of the last accepted block (0: none scanned)
        self.sizes = None     # sizes after the last accepted block, None before the first
        self.true_sizes = {p: 0 for p in POOLS}
        self.unspent = []     # [{"n", "p", "a"}]
        self.next_note = 1000
        self.next_tag = 1
        self.next_x = 1
        self.scenarios = []

    def prior(self):
        if self.sizes is None:
            return {"k": "none"}
        return {"k": "some", "h": self.top, "hash": self.tag, "sz": dict(self.sizes)}

    def fresh_out(self, owner, t, p, i):
        n = 0
        if owner not in ("f", "m"):
            n = self.next_note
            self.next_note += 1
        return {"o": owner, "v": 10000 + 1000 * t + 100 * PIDX[p] + i, "n": n}

    def tx(self, t, spec, avail):
        """spec: {pool: (owners list, number of tracked spends wanted, number of untracked spends)}"""
        tx = {}
        for p in POOLS:
            owners, nt, nu = spec.get(p, ([], 0, 0))
            sps = []
            for _ in range(nt):
                cands = [x for x in avail if x["p"] == p]
                if cands:
                    x = self.rng.choice(cands)
                    avail.remove(x)
                    sps.append({"k": "t", "n": x["n"]})
            sps += [{"k": "u", "n": 0} for _ in range(nu)]
            owners = list(owners)
            if p != "S":
                # action-shaped: pad the shorter side
                while len(sps) < len(owners):
                    sps.append({"k": "u", "n": 0})
                while len(owners) < len(sps):
                    owners.append("f")
                self.rng.shuffle(sps)
            tx[p] = {"sp": sps, "out": [self.fresh_out(o, t, p, i) for i, o in enumerate(owners)]}
        return tx

    def rand_tx(self, t, avail, rich=False):
        spec = {}
        for p in POOLS:
            if self.rng.random() < (0.15 if rich else 0.4):
                continue
            n = self.rng.randint(1, 3)
            owners = [self.rng.choice(["a1e", "a1i", "a2e", "a2i", "f", "f"]) for _ in range(n)]
            spec[p] = (owners, self.rng.choice([0, 0, 1, 1, 2]), self.rng.choice([0, 0, 1]))
        return self.tx(t, spec, avail)

    def block(self, k, txs, meta="ok"):
        tag = 100 + self.next_tag
        self.next_tag += 1
        return {"h": self.top + k, "hreal": self.top + k, "hash": tag, "prev": None, "bad": "none", "act": {p: True for p in POOLS},
                "meta": meta, "txs": txs}

    def finish(self, blocks, kind, bad_at=0, note=""):
        # link hashes, fill consistent metadata
        prev = self.tag
        sizes = dict(self.true_sizes)
        for b in blocks:
            if b["prev"] is None:
                b["prev"] = prev
            prev = b["hash"]
            for p in POOLS:
                sizes[p] += sum(len(tx[p]["out"]) for tx in b["txs"])
            m = b["meta"]
            if m == "ok":
                b["meta"] = {"k": "given", "sz": dict(sizes)}
            elif m == "absent":
                b["meta"] = {"k": "absent"}
            elif isinstance(m, tuple):
                kindm, p, d = m
                sz = dict(sizes)
                sz[p] = 0 if kindm == "zero" else max(0, sz[p] + d)
                if kindm == "zero":
                    sz = {q: 0 for q in POOLS}
                b["meta"] = {"k": "given", "sz": sz}
        sc = {"id": len(self.scenarios) + 1, "kind": "range", "what": kind, "note": note, "bad_at": bad_at, "prior": self.prior(),
              "blocks": blocks, "keys": K12, "tracked": [dict(x) for x in self.unspent]}
        self.scenarios.append(sc)
        if bad_at == 0:
            # accepted: fold into the bookkeeping
            for b in blocks:
                for tx in b["txs"]:
                    for p in POOLS:
                        for s in tx[p]["sp"]:
                            if s["k"] == "t":
                                self.unspent = [x for x in self.unspent if not (x["n"] == s["n"] and x["p"] == p)]
                for tx in b["txs"]:
                    for p in POOLS:
                        for o in tx[p]["out"]:
                            if o["n"] > 0:
                                self.unspent.append({"n": o["n"], "p": p, "a": 1 if o["o"].startswith("a1") else 2})
            self.top += len(blocks)
            self.tag = blocks[-1]["hash"]
            self.true_sizes = sizes
            self.sizes = dict(sizes)
        return sc

    # -- scenario kinds -------------------------------------------------------------------------
    def valid_range(self, nblocks, rich=False, meta=None):
        avail = [dict(x) for x in self.unspent]
        blocks = []
        for k in range(1, nblocks + 1):
            txs = [self.rand_tx(t, avail, rich) for t in range(1, self.rng.randint(1, 3) + 1)]
            blocks.append(self.block(k, txs, meta or ("ok" if self.sizes is None else self.rng.choice(["ok", "ok", "absent"]))))
            # notes received in this block may be spent by the following blocks of the range
            for tx in txs:
                for p in POOLS:
                    for o in tx[p]["out"]:
                        if o["n"] > 0:
                            avail.append({"n": o["n"], "p": p, "a": 1 if o["o"].startswith("a1") else 2})
        return self.finish(blocks, "valid")

    def corrupt_range(self, what, nblocks, k):
        avail = [dict(x) for x in self.unspent]
        blocks = []
        for j in range(1, nblocks + 1):
            txs = [self.rand_tx(t, avail, True) for t in range(1, self.rng.randint(1, 2) + 1)]
            blocks.append(self.block(j, txs, "ok"))
        b = blocks[k - 1]
        pool = self.rng.choice(POOLS)
        if what == "height":
            b["h"] += self.rng.choice([1, 2])
        elif what == "height_same":
            b["h"] -= 1
        elif what == "prev":
            b["prev"] = 999000 + k
        elif what == "meta_short":
            b["meta"] = ("short", pool, -1)
        elif what == "meta_long":
            b["meta"] = ("long", pool, self.rng.choice([1, 7]))
        elif what == "meta_zero":
            b["meta"] = ("zero", pool, 0)
        elif what.startswith("hdr:"):
            b["bad"] = what[4:]
        elif what == "nf":
            p = self.rng.choice(POOLS)
            tx = b["txs"][-1]
            if p == "S" or not tx[p]["sp"]:
                p = "S"
                tx[p]["sp"].append({"k": "m", "n": 0})
            else:
                tx[p]["sp"][self.rng.randrange(len(tx[p]["sp"]))] = {"k": "m", "n": 0}
        elif what == "out":
            p = self.rng.choice(POOLS)
            tx = b["txs"][0]
            if not tx[p]["out"]:
                tx[p]["out"].append(self.fresh_out("m", 1, p, 9))
                if p != "S":
                    tx[p]["sp"].append({"k": "u", "n": 0})
            else:
                i = self.rng.randrange(len(tx[p]["out"]))
                tx[p]["out"][i] = dict(tx[p]["out"][i], o="m", n=0)
        return self.finish(blocks, "corrupt:" + what, bad_at=k)

    def padded(self, pool, split, marks, extra_block=None):
        """One block whose transactions hold `split` outputs of `pool` (foreign except at the
        block-wide indices `marks`), optionally preceded by a block with `extra_block` outputs."""
        blocks = []
        avail = [dict(x) for x in self.unspent]
        owners_cycle = ["a1e", "a2e", "a1i", "a2i"]
        k = 1
        if extra_block:
            owners = ["f"] * extra_block
            owners[-1] = "a2e"
            blocks.append(self.block(k, [self.tx(1, {pool: (owners, 0, 0)}, avail)], "ok"))
            k += 1
        txs = []
        seen = 0
        for t, n in enumerate(split, start=1):
            owners = []
            for i in range(n):
                owners.append(owners_cycle[(seen + i) % 4] if (seen + i) in marks else "f")
            seen += n
            txs.append(self.tx(t, {pool: (owners, 1 if t == 1 else 0, 0)}, avail))
        blocks.append(self.block(k, txs, "ok"))
        return self.finish(blocks, "padded", note="%s %s%s" % (pool, split, " after %d" % extra_block if extra_block else ""))


    def big_tx(self, pool, n, small_before):
        """One transaction that alone holds n > threshold outputs of `pool`, the wallet's at the indices
        0, 99, 100, 101, 199, 200, n-1 and at (i mod 100) of each of those (so that an index taken modulo
        the batching threshold would collide with another wallet output of a different account / scope),
        optionally preceded in the same block by a small transaction (the accumulating batch is then not
        empty when the large one arrives)."""
        avail = [dict(x) for x in self.unspent]
        owners_cycle = ["a1e", "a2e", "a1i", "a2i"]
        marks = {i for i in (0, 99, 100, 101, 199, 200, n - 1) if i < n}
        marks |= {i % 100 for i in marks}
        owners = [owners_cycle[(i // 100 + i) % 4] if i in marks else "f" for i in range(n)]
        txs = []
        if small_before:
            txs.append(self.tx(1, {pool: (["f", "a2e", "f"][:small_before], 0, 0)}, avail))
        txs.append(self.tx(len(txs) + 1, {pool: (owners, 1, 0)}, avail))
        return self.finish([self.block(1, txs, "ok")], "bigtx", note="%s one tx of %d%s" % (pool, n, " after a tx of %d" % small_before if small_before else ""))


def wallet_scenarios(ctx, rng):
    g = WalletGen(rng)
    q = ctx.quick()
    # nothing scanned yet and no metadata: the tree sizes cannot be known
    b = g.block(1, [g.rand_tx(1, [], True)], "absent")
    g.finish([b], "corrupt:meta_absent_first", bad_at=1)
    g.valid_range(2, rich=True, meta="ok")
    g.valid_range(1, rich=True)
    plan = []
    for what in ["height", "height_same", "prev", "meta_short", "meta_long", "meta_zero", "nf", "nf", "out", "out", "out"]:
        for (nb, k) in ([(1, 1), (3, 3)] if q else [(1, 1), (2, 2), (3, 2), (3, 3)]):
            plan.append(("corrupt", what, nb, k))
    for kind in HEADER_KINDS:
        plan.append(("corrupt", "hdr:" + kind, 2, rng.choice([1, 2])))
    pads = []
    for i, total in enumerate([99, 100, 101, 250]):
        pool = POOLS[(i + ctx.seed) % 3]
        if total == 250:
            split = [99, 1, 100, 50]
        else:
            split = [60, total - 60]
        marks = {0, split[0] - 1, split[0], total - 1, 98, 99, 100}
        pads.append(("padded", pool, split, {m for m in marks if m < total}, None))
    pads.append(("padded", POOLS[(ctx.seed + 1) % 3], [50], {0, 29, 49}, 70))       # threshold crossed between blocks
    pads.append(("padded", POOLS[(ctx.seed + 2) % 3], [100, 100], {99, 100, 199}, None))   # exactly at the threshold, twice
    if not q:
        for pool in POOLS:
            pads.append(("padded", pool, [33, 33, 33, 1, 1], {0, 32, 33, 98, 99, 100}, None))
            pads.append(("padded", pool, [101], {0, 99, 100}, 99))
    plan += pads
    # a single transaction beyond the batching threshold, in every pool
    for j, pool in enumerate(POOLS):
        for i, n in enumerate([101, 150, 250]):
            plan.append(("bigtx", pool, n, [0, 3, 1][(i + j + ctx.seed) % 3]))
        if not q:
            plan.append(("bigtx", pool, 201, 2))
            plan.append(("bigtx", pool, 300, 0))
    plan += [("valid", rng.randint(1, 3)) for _ in range(10 if q else 40)]
    rng.shuffle(plan)
    for item in plan:
        if item[0] == "corrupt":
            g.corrupt_range(item[1], item[2], item[3])
        elif item[0] == "padded":
            g.padded(item[1], item[2], item[3], item[4])
        elif item[0] == "bigtx":
            g.big_tx(item[1], item[2], item[3])
        else:
            g.valid_range(item[1], rich=True)
    g.valid_range(2, rich=True)
    return g.scenarios


# ------------------------------------------------------------------------------------------------
# TLC plumbing

def emit_family(ctx, d, name, kw):
    cfg = "Emit_%s.cfg" % name
    write_cfg(os.path.join(d, cfg), emit=True, invariants=False, **kw)
    r = lib.tlc(ctx, d, "Emit_ScanBlock", cfg, workers=1, timeout=1500, coverage=False)
    cases = r.prints("CASE")
    if not cases:
        raise lib.ToolError("family %s emitted no case" % name)
    for c in cases:
        c["fam"] = name
    return cases


def tlc_eval(ctx, d, cases, name):
    """TLC's prediction for externally generated cases (one JVM run, constant-level evaluation)."""
    path = ctx.path("eval_%s.ndjson" % name)
    with open(path, "w") as f:
        for c in cases:
            f.write(json.dumps(c) + "\n")
    r = lib.tlc(ctx, d, "Eval_ScanBlock", "Eval_ScanBlock.cfg", workers=1, timeout=1500, coverage=False,
                env_extra={"CASES": path}, xss="512m")
    preds = r.prints("PRED")
    if len(preds) != len(cases):
        raise lib.ToolError("TLC evaluated %d of %d %s cases" % (len(preds), len(cases), name))
    for p in preds:
        cases[p["i"] - 1]["exp"] = p["exp"]
    return r


def harness_env(ctx):
    return {"VERIF_SEED": str(ctx.seed)}


def run_block_mode(ctx, bindir, cases, name):
    inp = ctx.path("cases_%s.ndjson" % name)
    with open(inp, "w") as f:
        for c in cases:
            f.write(json.dumps(c) + "\n")
    out = ctx.path("out_%s.json" % name)
    lib.run_bin(os.path.join(bindir, "c05_replay"), ["block", inp, out], env_extra=harness_env(ctx), timeout=2400)
    with open(out) as f:
        return json.load(f)


def run_wallet_mode(ctx, bindir, scenarios, threads, name, hang_secs=None):
    inp = ctx.path("scen_%s.ndjson" % name)
    with open(inp, "w") as f:
        for c in scenarios:
            f.write(json.dumps(c) + "\n")
    out = ctx.path("out_%s.json" % name)
    if os.path.exists(out):
        os.remove(out)
    env = harness_env(ctx)
    env["RAYON_NUM_THREADS"] = str(threads)
    if hang_secs:
        env["C05_HANG_SECS"] = str(hang_secs)
    # a crash of the process (a panic on a pool thread aborts it) is an outcome, not a tool error
    p = lib.run_bin(os.path.join(bindir, "c05_replay"), ["wallet", inp, out], env_extra=env, timeout=2400,
                    ok_codes=tuple(range(-64, 256)))
    if p.returncode != 0 or not os.path.exists(out):
        return {"mode": "wallet", "scenarios": -1, "stats": {}, "crashed": p.returncode,
                "mismatches": [{"case": -1, "kind": "wallet", "input": None, "got": {"crash": p.returncode},
                                "why": ["the scanning process died (exit %s): %s" % (p.returncode, (p.stderr or "")[-300:])]}]}
    with open(out) as f:
        return json.load(f)


def judge_block(ctx, res):
    n = 0
    for m in res["mismatches"]:
        if n >= 3:
            break
        n += 1
        lib.violation(ctx, {"property": "C05", "kind": "block", "seed": ctx.seed, "case": m.get("input"), "got": m.get("got")},
                      "scan_block disagrees with ScanBlock.tla on a materialised block: %s | prior %s block %s"
                      % ("; ".join(m["why"])[:900], json.dumps((m.get("input") or {}).get("prior"))[:200],
                         json.dumps((m.get("input") or {}).get("block"))[:700]))

def open_header_findings():
    return {f["match"]["corruption"]: f for f in lib.load_known_findings()
            if f.get("property") == "C05" and f.get("status") == "open" and f.get("match", {}).get("outcome") == "panic"
            and f["match"].get("corruption") and f["match"].get("panic_contains")}


def header_excuse(findings, kind, messages):
    """The open finding that excuses panics with these messages on a block with this corruption."""
    f = findings.get(kind)
    if f and messages and all(f["match"]["panic_contains"] in m for m in messages):
        return f
    return None


def judge_header_panics(ctx, res, mode, scenarios=None, threads=None):
    """Panics on blocks whose header-level fields cannot be parsed are excused exactly while
    known_findings.json lists (corruption kind, outcome panic, message fragment) as open."""
    findings = open_header_findings()
    seen = {}
    for kind, h in sorted((res.get("header_panics") or {}).items()):
        f = header_excuse(findings, kind, h["messages"])
        if f:
            lib.known_finding(ctx, "id=%s %s" % (f["id"], f["what"][:300]))
            seen[kind] = h["count"]
            continue
        if mode == "block":
            rep = {"property": "C05", "kind": "block", "seed": ctx.seed, "case": h["example"], "got": {"panic": h["messages"]}}
        else:
            sid = h["example"]["id"]
            rep = {"property": "C05", "kind": "wallet", "seed": ctx.seed, "threads": threads,
                   "scenarios": [s for s in scenarios if s["id"] <= sid], "got": {"panic": h["messages"]}}
        lib.violation(ctx, rep, "%s panicked on a block whose %s cannot be parsed (%d blocks): %s"
                      % ("scan_block" if mode == "block" else "scan_cached_blocks", kind, h["count"], h["messages"][:2]))
    return seen


def judge_wallet(ctx, res, scenarios, threads):
    for m in res["mismatches"][:1]:
        sid = m.get("case")
        prefix = [s for s in scenarios if sid in (-1, None) or s["id"] <= sid]
        lib.violation(ctx, {"property": "C05", "kind": "wallet", "seed": ctx.seed, "threads": threads, "scenarios": prefix,
                            "got": m.get("got")},
                      "scan_cached_blocks (RAYON_NUM_THREADS=%s) disagrees with ScanBlock.tla on scenario %s (%s): %s"
                      % (threads, sid, (m.get("input") or {}).get("what"), "; ".join(m["why"])[:1200]))


def check_generator(scenarios):
    """The generator's intent must be what the specification says about its ranges."""
    for s in scenarios:
        e = s["exp"]
        if (s["bad_at"] == 0) != bool(e["ok"]) or (s["bad_at"] != 0 and e["at"] != s["bad_at"]):
            raise lib.ToolError("generator and specification disagree on scenario %d (%s): intended bad_at=%d, TLC says ok=%s at=%s %s"
                                % (s["id"], s["what"], s["bad_at"], e["ok"], e.get("at"), json.dumps(e["res"][-1])[:300]))


# ------------------------------------------------------------------------------------------------

def model_check(ctx, d):
    mc, _ = families(ctx)
    total = 0
    for name, kw in mc:
        cfg = "MC_%s.cfg" % name
        write_cfg(os.path.join(d, cfg), emit=False, invariants=True, **kw)
        r = lib.tlc(ctx, d, "MC_ScanBlock", cfg, workers=8, timeout=3000)
        lib.require_coverage(r, ["Begin", "AddTx"])
        lib.account_tlc(ctx, r)
        total += r.distinct
    # the concurrent part
    br = dict(MaxTxs=3, MaxOuts=2, MaxThreshold=3, MaxWorkers=2) if ctx.quick() else dict(MaxTxs=3, MaxOuts=2, MaxThreshold=4, MaxWorkers=3)

    def br_cfg(name, final_flush, key_with_block, live=False, small=False):
        c = dict(br)
        if small:
            c.update(MaxTxs=2)
        with open(os.path.join(d, name), "w") as f:
            f.write("SPECIFICATION %s\nCONSTANTS\n" % ("FairSpec" if live else "Spec"))
            for k, v in c.items():
                f.write("  %s = %d\n" % (k, v))
            f.write("  FinalFlush = %s\n  KeyWithBlock = %s\n" % ("TRUE" if final_flush else "FALSE", "TRUE" if key_with_block else "FALSE"))
            f.write("PROPERTY Terminates\n" if live else "INVARIANTS CollectExact SentOnce SendersOk\n")
            f.write("CHECK_DEADLOCK TRUE\n")
    br_cfg("BR.cfg", True, True)
    r = lib.tlc(ctx, d, "BatchRunner", "BR.cfg", workers=8, timeout=3000)
    lib.require_coverage(r, ["Add", "Flush", "Start", "RunOutput", "Finish", "Collect"])
    lib.account_tlc(ctx, r)
    br_cfg("BR_live.cfg", True, True, live=True, small=True)
    r = lib.tlc(ctx, d, "BatchRunner", "BR_live.cfg", workers=4, timeout=3000, coverage=False)
    lib.account_tlc(ctx, r)
    # the safeguards are needed (non-vacuity of the two invariants)
    br_cfg("BR_noflush.cfg", False, True, small=True)
    r = lib.tlc(ctx, d, "BatchRunner", "BR_noflush.cfg", workers=4, timeout=3000, coverage=False, expect_ok=False)
    if "Deadlock reached" not in r.out:
        raise lib.ToolError("BatchRunner without the final flush did not deadlock in the model")
    br_cfg("BR_txidkey.cfg", True, False, small=True)
    r = lib.tlc(ctx, d, "BatchRunner", "BR_txidkey.cfg", workers=4, timeout=3000, coverage=False, expect_ok=False)
    if r.invariant != "CollectExact":
        raise lib.ToolError("BatchRunner keyed by txid only did not violate CollectExact in the model")
    return total


def nontrivial(c):
    e = c["exp"]
    return (not e["ok"]) or bool(e.get("recv")) or bool(e.get("spent"))


class BlockTally:
    """Accumulates what the scan_block replay covered, one batch of cases at a time."""

    def __init__(self):
        self.n = 0
        self.fam = {}
        self.classes = {}
        self.changes = 0
        self.internal = 0
        self.hdr = set()
        self.distinct = set()
        self.stats = {}
        self.excused = {}
        self.ex_ok = None
        self.ex_bad = None

    def add(self, name, cases, res, excused):
        self.n += len(cases)
        for c in cases:
            self.fam[c.get("fam", name)] = self.fam.get(c.get("fam", name), 0) + 1
            e = c["exp"]
            k = "accepted" if e["ok"] else e["err"]
            self.classes[k] = self.classes.get(k, 0) + 1
            if e["ok"]:
                self.changes += any(r["chg"] for r in e["recv"])
                self.internal += any(r["sc"] == "int" for r in e["recv"])
                if self.ex_ok is None and len(e["recv"]) >= 2 and e["spent"]:
                    self.ex_ok = c
            elif self.ex_bad is None and len(e["all"]) >= 2:
                self.ex_bad = c
            if c["block"].get("bad", "none") != "none":
                self.hdr.add(c["block"]["bad"])
            if nontrivial(c):
                self.distinct.add(hashlib.sha256(json.dumps([c["prior"], c["block"], c["keys"]], sort_keys=True).encode()).digest()[:12])
        for k, v in (res.get("stats") or {}).items():
            self.stats[k] = self.stats.get(k, 0) + v
        for k, v in excused.items():
            self.excused[k] = self.excused.get(k, 0) + v


def replay_blocks(ctx, bindir, tally, name, cases):
    t0 = time.time()
    res = run_block_mode(ctx, bindir, cases, name)
    lib.log("[replay] scan_block %s: %d cases in %.1fs, %s" % (name, len(cases), time.time() - t0, res.get("stats")))
    if res["cases"] != len(cases) and not any(m.get("kind") == "setup" for m in res["mismatches"]):
        raise lib.ToolError("block replay consumed %d of %d cases" % (res["cases"], len(cases)))
    judge_block(ctx, res)
    tally.add(name, cases, res, judge_header_panics(ctx, res, "block"))


def run(ctx):
    bindir = lib.cargo_build("h_wallet", ["c05_replay"])
    d = lib.stage_specs(ctx, AREA)
    for m in ("ScanBlock", "MC_ScanBlock", "Emit_ScanBlock", "Eval_ScanBlock", "BatchRunner"):
        lib.sany(os.path.join(d, m + ".tla"))
    rng = random.Random(ctx.seed * 7919 + 5)

    # (2b) wallet ranges first (their TLC evaluation is quick); the subprocesses then run in the
    # background while TLC works
    scenarios = wallet_scenarios(ctx, rng)
    tlc_eval(ctx, d, scenarios, "wallet")
    check_generator(scenarios)
    pool = concurrent.futures.ThreadPoolExecutor(max_workers=len(THREADS) + 1)
    futs = {n: pool.submit(run_wallet_mode, ctx, bindir, scenarios, n, "wallet_t%d" % n) for n in THREADS}

    # (1) the specification alone (theorems, BatchRunner), next to the emission runs below
    mc_future = pool.submit(model_check, ctx, d)

    # (2a) blocks: TLC-enumerated families, then TLC-evaluated seeded random big shapes
    tally = BlockTally()
    _, emit = families(ctx)
    batch, names = [], []
    for name, kw in emit:
        batch += emit_family(ctx, d, name, kw)
        names.append(name)
        if len(batch) >= 60000 or name == emit[-1][0]:
            replay_blocks(ctx, bindir, tally, "+".join(names), batch)
            batch, names = [], []
    rnd = [rand_block_case(rng) for _ in range(1500 if ctx.quick() else 8000)]
    rnd += header_block_cases(rng, 4 if ctx.quick() else 40)
    tlc_eval(ctx, d, rnd, "random")
    for c in rnd:
        c["fam"] = "random"
    replay_blocks(ctx, bindir, tally, "random", rnd)
    excused = {"scan_block": tally.excused}
    mc_future.result()

    wallet_stats = {}
    for n in THREADS:
        wr = futs[n].result()
        lib.log("[replay] scan_cached_blocks threads=%d: %s scenarios, stats %s" % (n, wr["scenarios"], wr.get("stats")))
        wallet_stats[str(n)] = {"scenarios": wr["scenarios"], "stats": wr.get("stats", {})}
        judge_wallet(ctx, wr, scenarios, n)
        excused["scan_cached_blocks threads=%d" % n] = judge_header_panics(ctx, wr, "wallet", scenarios, n)
        if not wr["mismatches"] and wr["scenarios"] != len(scenarios):
            raise lib.ToolError("wallet replay (threads=%d) ran %s of %d scenarios" % (n, wr["scenarios"], len(scenarios)))

    # vacuity guards: every error class, accepted blocks with receipts / spends / change / internal scope,
    # every header-level malformation and the padded ranges were replayed
    need = ["accepted", "BlockHeightDiscontinuity", "PrevHashMismatch", "TreeSizeUnknown", "TreeSizeInvalid", "TreeSizeMismatch",
            "EncodingInvalid", "MalformedHeader"]
    missing = [k for k in need if not tally.classes.get(k)]
    wkinds = {}
    for s in scenarios:
        wkinds[s["what"]] = wkinds.get(s["what"], 0) + 1
    hdr_missing = [k for k in HEADER_KINDS if k not in tally.hdr or not wkinds.get("corrupt:hdr:" + k)]
    if missing or hdr_missing or not tally.changes or not tally.internal or not wkinds.get("padded") or wkinds.get("bigtx", 0) < 9 or not wkinds.get("valid") \
            or tally.ex_ok is None or tally.ex_bad is None:
        raise lib.ToolError("vacuity: classes %s change=%d internal=%d header kinds %s wallet kinds %s"
                            % (tally.classes, tally.changes, tally.internal, sorted(tally.hdr), wkinds))

    ctx.traces = tally.n + len(scenarios) * len(THREADS)
    ex = tally.ex_ok
    ctx.add_sample({"mode": "scan_block", "prior": ex["prior"], "block_txs": ex["block"]["txs"],
                    "predicted": {k: ex["exp"][k] for k in ("recv", "spent", "final", "wtx")}})
    ex = tally.ex_bad
    ctx.add_sample({"mode": "scan_block", "prior": ex["prior"], "block": {k: ex["block"][k] for k in ("h", "prev", "meta", "act", "bad")},
                    "predicted": ex["exp"]})
    ex = next(s for s in scenarios if s["what"] == "padded")
    ctx.add_sample({"mode": "scan_cached_blocks", "what": ex["what"], "note": ex["note"], "threads": THREADS,
                    "predicted_receipts": [r for b in ex["exp"]["res"] for r in b["recv"]][:6]})
    ctx.extra["block_replay"] = {"families": tally.fam, "expected_classes": tally.classes, "with_change": tally.changes,
                                 "with_internal_scope": tally.internal, "harness_stats": tally.stats}
    ctx.extra["header_panics_excused_as_known_findings"] = excused
    ctx.extra["wallet_replay"] = {"scenario_kinds": wkinds, "per_thread_count": wallet_stats}
    q = ctx.quick()
    lib.mc_evidence(
        ctx,
        rule="every abstract block of the TLC-enumerated families (continuity/metadata lattice; per-pool shapes; cross-pool "
             "menu) and of the seeded big-shape sample is materialised with real note encryption and scanned by scan_block; "
             "every wallet range is scanned by scan_cached_blocks under each thread count; distinct_nontrivial = distinct "
             "(prior, block, keys) whose prediction is a rejection or holds a receipt or a spend",
        evaluations=ctx.traces, distinct_nontrivial=len(tally.distinct),
        extra={"exhaustive": True,
               "bounds": {"theorems": "one pool over {wallet, foreign} x {tracked, untracked}: %s; "
                                      "full alphabet <=%d txs x <=2 actions; cross-pool menu <=%d txs; continuity lattice"
                                      % (("<=3 txs x <=2 outputs x <=1 spend", 1, 1) if q else
                                         ("<=3 txs x <=3 outputs x <=1 spend and <=2 txs x <=3 outputs x <=2 spends"
                                          + (" and <=3 x <=3 x <=2" if os.environ.get("C05_FULL_BOUND") == "1" else ""), 2, 2)),
                          "replayed_families": "see block_replay.families; random sample: 3 pools x <=3 txs x <=3 outputs x <=2 spends",
                          "thread_counts": THREADS, "batch_threshold": 100}},
        assumptions=["note encryption / decryption itself (sapling-crypto, orchard, zcash_note_encryption) is the trusted base",
                     "task schedules of the batched decryptor are exercised by a thread-count sweep (1, 2, 4, 16 pool threads), "
                     "not enumerated: hook H1 is not installed; BatchRunner.tla covers the interleavings in the model only",
                     "error classes: the class reported must be one of the block's defects (any class for a header-level "
                     "malformation); which one of several defects is reported is informational",
                     "the async sync-decryptor path is not in the baseline build and is not exercised"])


def replay(ctx, path):
    bindir = lib.cargo_build("h_wallet", ["c05_replay"])
    with open(path) as f:
        rep = json.load(f)
    ctx.seed = rep.get("seed", ctx.seed)
    if rep["kind"] == "block":
        res = run_block_mode(ctx, bindir, [rep["case"]], "replay")
        judge_block(ctx, res)
        judge_header_panics(ctx, res, "block")
        if not res["mismatches"] and not ctx.violations:
            lib.log("replay: the block now agrees with the specification")
    else:
        res = run_wallet_mode(ctx, bindir, rep["scenarios"], rep["threads"], "replay")
        judge_wallet(ctx, res, rep["scenarios"], rep["threads"])
        judge_header_panics(ctx, res, "wallet", rep["scenarios"], rep["threads"])
        if not res["mismatches"] and not ctx.violations:
            lib.log("replay: the scenarios now agree with the specification")


def selftest(ctx):
    """Binding demonstration (R): perturbed predictions must be reported by the harness."""
    bindir = lib.cargo_build("h_wallet", ["c05_replay"])
    d = lib.stage_specs(ctx, AREA)
    cases = emit_family(ctx, d, "X", dict(family="X", maxtx=1))
    base = next(c for c in cases if c["exp"]["ok"] and len(c["exp"]["recv"]) >= 2 and c["exp"]["spent"] and c["env"]["pk"] == "all")
    bad = next(c for c in cases if not c["exp"]["ok"]) if any(not c["exp"]["ok"] for c in cases) else None

    def perturbed(f):
        c = json.loads(json.dumps(base))
        f(c["exp"])
        return c
    muts = [
        ("position", lambda e: e["recv"][0].__setitem__("pos", e["recv"][0]["pos"] + 1)),
        ("account", lambda e: e["recv"][0].__setitem__("a", 3 - e["recv"][0]["a"])),
        ("scope", lambda e: e["recv"][0].__setitem__("sc", "int" if e["recv"][0]["sc"] == "ext" else "ext")),
        ("value", lambda e: e["recv"][0].__setitem__("v", e["recv"][0]["v"] + 1)),
        ("change", lambda e: e["recv"][0].__setitem__("chg", not e["recv"][0]["chg"])),
        ("drop receipt", lambda e: e["recv"].pop()),
        ("drop spend", lambda e: e["spent"].pop()),
        ("final size", lambda e: e["final"].__setitem__("S", e["final"]["S"] + 1)),
        ("retention", lambda e: [e["cms"][p][-1].__setitem__("ret", "E") for p in POOLS if e["cms"][p]]),
        ("unlinked", lambda e: e["unl"]["O"].__setitem__(0, [])),
        ("reject", lambda e: (e.clear(), e.update({"ok": False, "err": "PrevHashMismatch", "all": ["PrevHashMismatch"]}))),
    ]
    batch = [base] + [perturbed(f) for _, f in muts]
    if bad is None:
        cs = emit_family(ctx, d, "D", dict(family="D", maxtx=1))
        bad = next(c for c in cs if not c["exp"]["ok"] and c["exp"]["all"] == ["TreeSizeMismatch"])
    wrong = json.loads(json.dumps(bad))
    wrong["exp"] = {"ok": False, "err": "EncodingInvalid", "all": ["EncodingInvalid"]} if "EncodingInvalid" not in bad["exp"]["all"] \
        else {"ok": False, "err": "TreeSizeUnknown", "all": ["TreeSizeUnknown"]}
    batch.append(wrong)
    res = run_block_mode(ctx, bindir, batch, "selftest")
    flagged = {m["case"] for m in res["mismatches"]}
    if 0 in flagged:
        raise lib.ToolError("selftest: the unperturbed case is reported as a mismatch: %s" % res["mismatches"][0]["why"])
    for i, (name, _) in enumerate(muts, start=1):
        if i not in flagged:
            raise lib.ToolError("selftest: a perturbed %s was not reported" % name)
    if len(batch) - 1 not in flagged:
        raise lib.ToolError("selftest: a perturbed error class was not reported")
    lib.log("selftest ok (scan_block): %d perturbed predictions rejected, the unperturbed one accepted" % (len(muts) + 1))

    # wallet rows
    rng = random.Random(ctx.seed)
    g = WalletGen(rng)
    g.valid_range(2, rich=True, meta="ok")
    g.corrupt_range("prev", 2, 2)
    g.valid_range(1, rich=True)
    scen = g.scenarios
    tlc_eval(ctx, d, scen, "selftest_wallet")
    check_generator(scen)
    ok = run_wallet_mode(ctx, bindir, scen, 2, "selftest_w0")
    if ok["mismatches"]:
        raise lib.ToolError("selftest: unperturbed wallet scenarios mismatch: %s" % ok["mismatches"][0]["why"])
    s2 = json.loads(json.dumps(scen))
    tgt = next(b for s in s2 for b in s["exp"]["res"] if b["ok"] and b["recv"])
    tgt["recv"][0]["pos"] += 1
    r1 = run_wallet_mode(ctx, bindir, s2, 2, "selftest_w1")
    s3 = json.loads(json.dumps(scen))
    s3[1]["exp"] = s3[0]["exp"]      # claim the corrupt range is accepted
    r2 = run_wallet_mode(ctx, bindir, s3, 2, "selftest_w2")
    if not r1["mismatches"] or not r2["mismatches"]:
        raise lib.ToolError("selftest: a perturbed wallet prediction was not reported")
    # model side: the two safeguards of BatchRunner.tla are needed (checked inside model_check)
    lib.log("selftest ok (scan_cached_blocks): perturbed position and perturbed verdict rejected")
    # the known-finding filter excuses exactly (kind, message fragment) of an open entry
    fnd = {"txid_len": {"id": "x", "match": {"corruption": "txid_len", "outcome": "panic", "panic_contains": "copy_from_slice"}}}
    if header_excuse(fnd, "txid_len", ["copy_from_slice: source slice length (31)"]) is None \
            or header_excuse(fnd, "txid_len", ["index out of bounds"]) is not None \
            or header_excuse(fnd, "hash_len", ["copy_from_slice: x"]) is not None \
            or header_excuse({}, "txid_len", ["copy_from_slice: x"]) is not None:
        raise lib.ToolError("selftest: the known-finding filter does not excuse exactly the listed (kind, message)")
    lib.log("selftest ok: a panic of another kind / with another message / with no open entry is not excused")
