"""C05 — compact-block scanning finds exactly the wallet's notes and spends (spec/Scan).

1. TLC checks the theorems of ScanBlock.tla (positions are a bijection onto start..final-1, received
   + foreign partition the outputs, spent + unlinked partition the spends, marked/checkpoint/change
   rules, error precedence, hash-tag independence) on every block of several finite families, and
   BatchRunner.tla (every interleaving of the batched decryptor's critical sections, thresholds,
   pool sizes: Collect returns exactly the decryptable outputs, no deadlock; the two safeguards
   switched off must produce a deadlock / a wrong collection).
2. spec -> code: TLC enumerates the abstract blocks of the families and prints each with the result
   the definition predicts; seeded random big shapes, padded blocks and wallet ranges are generated
   here and *evaluated by TLC* (Eval_ScanBlock). The harness materialises every block with real note
   encryption and corrupts the protobuf fields as asked, and runs it
     (a) through scanning::scan_block (inline decryption), comparing every ScannedBlock accessor /
         the error class with the prediction;
     (b) as ranges through data_api::chain::scan_cached_blocks on the real SQLite wallet (batched
         decryption, threshold 100) in subprocesses with RAYON_NUM_THREADS in {1, 2, 4, 16},
         comparing the wallet's note rows, spend links and block rows with the prediction; a
         rejected range must leave the dump of every table unchanged.
   The schedule clause ("the same whether trial decryption runs inline or batched across any number
   of threads") is bound in two ways: by that thread-count sweep, and - with the verification hook
   zcash_client_backend::scan::verif (H1, compiled only with --cfg zcash_librustzcash_verif) - by
   SCHEDULES: Emit_BatchRunner.tla enumerates a family of small configurations of the batched
   decryptor (two runners, <=4 add_outputs calls over two blocks, thresholds 1..3, 2..4 tasks), a
   seeded sample of them is explored by TLC in every interleaving (ScheduleIndependent: what Collect
   returns is a function of the workload alone) and every order in which the tasks can complete is
   printed; the check scales each configuration to the real threshold of 100 (padding with foreign
   outputs), lets TLC evaluate ScanRange on it, and the harness scans it (c) block by block through
   scan_block (inline), on a fresh wallet with the tasks on the rayon pool (reference), and on a
   fresh wallet per completion order with the hook running the queued tasks in exactly that order;
   every run must produce the predicted wallet rows (= the reference's). The number of tasks the
   hook drained is compared with the partition the model computes (vacuity guard).
"""
import concurrent.futures
import hashlib
import json
import os
import random
import time

from . import lib

AREA = "Scan"
POOLS = ["S", "O", "I"]
PIDX = {"S": 1, "O": 2, "I": 3}
SIB = {"S": "S", "O": "I", "I": "O"}
K12 = ["a1e", "a1i", "a2e", "a2i"]
THREADS = [1, 2, 4, 16]
HEADER_KINDS = ["txid_len", "hash_len", "prev_len", "height_big", "txindex_big"]
SETUP_TRACKED = [{"n": 10 * PIDX[p] + a, "p": p, "a": a} for p in POOLS for a in (1, 2)]


# ------------------------------------------------------------------------------------------------
# TLC configurations

def sset(xs):
    return "{" + ", ".join('"%s"' % x for x in xs) + "}"


def write_cfg(path, family, pool="S", owners=("a1e", "f"), spends=("t1", "u"), action=False, maxtx=1, maxout=1,
              maxsp=1, emit=False, invariants=True, inv="AllTheorems"):
    with open(path, "w") as f:
        f.write("SPECIFICATION Spec\nCONSTANTS\n")
        f.write('  Family = "%s"\n  OnePool = "%s"\n  OwnersDom = %s\n  SpendsDom = %s\n' % (family, pool, sset(owners), sset(spends)))
        f.write("  ActionShaped = %s\n  MaxTx = %d\n  MaxOut = %d\n  MaxSp = %d\n  Emit = %s\n"
                % ("TRUE" if action else "FALSE", maxtx, maxout, maxsp, "TRUE" if emit else "FALSE"))
        if invariants:
            f.write("INVARIANTS %s\n" % inv)
        f.write("CHECK_DEADLOCK FALSE\n")


def families(ctx):
    """(name, kwargs) of the block families: `mc` are model-checked (theorems), `emit` are replayed.
    Family P runs every shape under four environments, Q under one (for the largest bound)."""
    full_o = ("a1e", "a1i", "a2e", "f")
    full_s = ("t1", "t2", "u", "x")
    red = dict(owners=("a1e", "f"), spends=("t1", "u"))
    q = ctx.quick()
    if q:
        mc = [
            ("D", dict(family="D", maxtx=1)),
            ("A", dict(family="P", pool="S", maxtx=3, maxout=2, maxsp=1, **red)),
            ("B", dict(family="P", pool="O", owners=full_o + ("m",), spends=full_s + ("m",), action=True, maxtx=1, maxout=2)),
            ("Bs", dict(family="P", pool="S", owners=full_o + ("m",), spends=full_s + ("m",), maxtx=1, maxout=2, maxsp=2)),
            ("X", dict(family="X", maxtx=1)),
        ]
        emit = [
            ("D", dict(family="D", maxtx=1)),
            ("S", dict(family="P", pool="S", owners=("a1e", "a1i", "f"), spends=("t1", "t2", "u"), maxtx=2, maxout=2, maxsp=1)),
            ("Sm", dict(family="P", pool="S", owners=full_o + ("m",), spends=full_s + ("m",), maxtx=1, maxout=2, maxsp=1)),
            ("X", dict(family="X", maxtx=1)),
        ]
        for p in ("O", "I"):
            emit.append((p, dict(family="P", pool=p, owners=("a1i", "a2e", "f"), spends=("t1", "u"), action=True, maxtx=2, maxout=2)))
            emit.append((p + "m", dict(family="P", pool=p, owners=full_o + ("m",), spends=full_s + ("m",), action=True, maxtx=1, maxout=2)))
        return mc, emit
    mc = [
        ("D", dict(family="D", maxtx=2)),
        # reduced alphabet, one environment: <=3 txs x <=3 outputs x <=1 spend and <=2 txs x <=3 outputs x <=2 spends;
        # the full bound of the property text (<=3 x <=3 x <=2: 1 168 757 states, ~3 ms each) with C05_FULL_BOUND=1
        ("A", dict(family="Q", pool="S", maxtx=3, maxout=3, maxsp=1, **red)),
        ("A3", dict(family="Q", pool="S", maxtx=2, maxout=3, maxsp=2, **red)),
        ("A2", dict(family="P", pool="S", maxtx=3, maxout=2, maxsp=1, **red)),
        ("B", dict(family="Q", pool="O", owners=full_o + ("m",), spends=full_s + ("m",), action=True, maxtx=2, maxout=2)),
        ("Bs", dict(family="P", pool="S", owners=full_o + ("m",), spends=full_s + ("m",), maxtx=2, maxout=2, maxsp=1)),
        ("X", dict(family="X", maxtx=2)),
    ]
    # (Orchard / Ironwood blocks cost ~5 ms each to scan: their families are kept smaller than Sapling's)
    emit = [
        ("D", dict(family="D", maxtx=2)),
        ("S", dict(family="P", pool="S", owners=full_o, spends=("t1", "t2", "u"), maxtx=2, maxout=2, maxsp=1)),
        ("S3", dict(family="P", pool="S", maxtx=3, maxout=2, maxsp=1, **red)),
        ("Sm", dict(family="P", pool="S", owners=full_o + ("m",), spends=full_s + ("m",), maxtx=1, maxout=2, maxsp=2)),
        ("X", dict(family="X", maxtx=2)),
    ]
    if os.environ.get("C05_FULL_BOUND") == "1":
        mc.append(("Afull", dict(family="Q", pool="S", maxtx=3, maxout=3, maxsp=2, inv="CoreTheorems", **red)))
    for p in ("O", "I"):
        emit.append((p, dict(family="P", pool=p, owners=full_o, spends=("t1", "u"), action=True, maxtx=2, maxout=2)))
        emit.append((p + "3", dict(family="Q", pool=p, owners=("a1i", "f"), spends=("t1", "u"), action=True, maxtx=3, maxout=1)))
        emit.append((p + "m", dict(family="P", pool=p, owners=full_o + ("m",), spends=full_s + ("m",), action=True, maxtx=1, maxout=2)))
    return mc, emit


# ------------------------------------------------------------------------------------------------
# seeded generators of abstract cases (evaluated by TLC, not here)

def spend_of(label, p):
    if label == "t1":
        return {"k": "t", "n": 10 * PIDX[p] + 1}
    if label == "t2":
        return {"k": "t", "n": 10 * PIDX[p] + 2}
    if label == "x":
        return {"k": "t", "n": 99 if p == "S" else 10 * PIDX[SIB[p]] + 1}
    return {"k": label, "n": 0}


def out_of(label, t, p, i):
    return {"o": label, "v": 1000 * t + 100 * PIDX[p] + 10 * i + 1, "n": 0 if label in ("f", "m") else 100 * t + 10 * PIDX[p] + i}


def rand_block_case(rng, clean=False):
    """One abstract block of the big shape (<=3 txs x <=3 outputs per pool x <=2 Sapling spends), any
    prior / continuity / metadata / key set (clean: connected, consistent, well-formed, prior known)."""
    ntx = rng.choice([0, 1, 1, 2, 2, 3, 3])
    pm = 0.04 if rng.random() < 0.3 and not clean else 0.0
    txs = []
    for t in range(1, ntx + 1):
        tx = {}
        for p in POOLS:
            if rng.random() < 0.3:
                tx[p] = {"sp": [], "out": []}
                continue
            nout = rng.randint(0, 3)
            nsp = rng.randint(0, 2) if p == "S" else nout
            sp = [spend_of("m" if rng.random() < pm else rng.choice(["t1", "t2", "u", "u", "x"]), p) for _ in range(nsp)]
            out = [out_of("m" if rng.random() < pm else rng.choice(["a1e", "a1i", "a2e", "a2i", "f", "f"]), t, p, i) for i in range(1, nout + 1)]
            tx[p] = {"sp": sp, "out": out}
        txs.append(tx)
    count = {p: sum(len(tx[p]["out"]) for tx in txs) for p in POOLS}
    if rng.random() < 0.25 and not clean:
        prior = {"k": "none"}
        known = {p: False for p in POOLS}
    else:
        known = {p: rng.random() < 0.8 for p in POOLS}
        prior = {"k": "some", "h": 10, "hash": 1, "sz": {p: (rng.randint(0, 40) if known[p] else -1) for p in POOLS}}
    start = {p: (prior["sz"][p] if prior["k"] == "some" and known[p] else rng.randint(0, 40)) for p in POOLS}
    tru = {p: start[p] + count[p] for p in POOLS}
    mk = rng.choice(["ok", "ok", "ok", "absent", "absent", "short", "long", "lt", "zero"])
    if clean:
        mk = "ok"
        known = {p: True for p in POOLS}
        prior["sz"] = dict(start)
    mp = rng.choice(POOLS)
    if mk == "absent":
        meta = {"k": "absent"}
    else:
        sz = dict(tru)
        if mk == "short":
            sz[mp] = max(0, sz[mp] - rng.randint(1, 2))
        elif mk == "long":
            sz[mp] += rng.randint(1, 3)
        elif mk == "lt":
            sz[mp] = max(0, count[mp] - 1)
        elif mk == "zero":
            sz = {p: 0 for p in POOLS}
        meta = {"k": "given", "sz": sz}
    nact = rng.choice([0, 1, 2, 3, 3, 3])
    block = {"h": 11 if clean else 10 + rng.choice([1, 1, 1, 1, 1, 1, 0, 2, 5]), "hash": 2, "prev": 1 if clean else rng.choice([1, 1, 1, 1, 3]), "bad": "none",
             "act": {p: PIDX[p] <= nact for p in POOLS}, "meta": meta, "txs": txs}
    keys = rng.choice([K12, K12, K12, ["a1e", "a1i"], ["a1i", "a2e"], ["a2e", "a2i"], ["a1e"]])
    return {"kind": "block", "prior": prior, "block": block, "keys": keys, "tracked": SETUP_TRACKED}


def header_block_cases(rng, per_kind):
    """Blocks with a header-level field that cannot be parsed (otherwise arbitrary)."""
    out = []
    for kind in HEADER_KINDS:
        n = 0
        while n < per_kind:
            # the first of each kind is otherwise clean, so that the malformed field is certainly reached
            c = rand_block_case(rng, clean=(n == 0))
            b = c["block"]
            if not b["txs"] or (kind == "prev_len" and (c["prior"]["k"] != "some" or b["h"] != 11)):
                continue
            b["bad"] = kind
            out.append(c)
            n += 1
    return out


class WalletGen:
    """Generates ranges for the wallet replay and tracks what the wallet should hold afterwards (the
    generator's own bookkeeping is cross-checked against TLC's evaluation)."""

    def __init__(self, rng):
        self.rng = rng
        self.top = 0
        self.tag = 0          # hash tag of the last accepted block (0: none scanned)
        self.sizes = None     # sizes after the last accepted block, None before the first
        self.true_sizes = {p: 0 for p in POOLS}
        self.unspent = []     # [{"n", "p", "a"}]
        self.next_note = 1000
        self.next_tag = 1
        self.next_x = 1
        self.scenarios = []

    def prior(self):
        if self.sizes is None:
            return {"k": "none"}
        return {"k": "some", "h": self.top, "hash": self.tag, "sz": dict(self.sizes)}

    def fresh_out(self, owner, t, p, i):
        n = 0
        if owner not in ("f", "m"):
            n = self.next_note
            self.next_note += 1
        return {"o": owner, "v": 10000 + 1000 * t + 100 * PIDX[p] + i, "n": n}

    def tx(self, t, spec, avail):
        """spec: {pool: (owners list, number of tracked spends wanted, number of untracked spends)}"""
        tx = {}
        for p in POOLS:
            owners, nt, nu = spec.get(p, ([], 0, 0))
            sps = []
            for _ in range(nt):
                cands = [x for x in avail if x["p"] == p]
                if cands:
                    x = self.rng.choice(cands)
                    avail.remove(x)
                    sps.append({"k": "t", "n": x["n"]})
            sps += [{"k": "u", "n": 0} for _ in range(nu)]
            owners = list(owners)
            if p != "S":
                # action-shaped: pad the shorter side
                while len(sps) < len(owners):
                    sps.append({"k": "u", "n": 0})
                while len(owners) < len(sps):
                    owners.append("f")
                self.rng.shuffle(sps)
            tx[p] = {"sp": sps, "out": [self.fresh_out(o, t, p, i) for i, o in enumerate(owners)]}
        return tx

    def rand_tx(self, t, avail, rich=False):
        spec = {}
        for p in POOLS:
            if self.rng.random() < (0.15 if rich else 0.4):
                continue
            n = self.rng.randint(1, 3)
            owners = [self.rng.choice(["a1e", "a1i", "a2e", "a2i", "f", "f"]) for _ in range(n)]
            spec[p] = (owners, self.rng.choice([0, 0, 1, 1, 2]), self.rng.choice([0, 0, 1]))
        return self.tx(t, spec, avail)

    def block(self, k, txs, meta="ok"):
        tag = 100 + self.next_tag
        self.next_tag += 1
        return {"h": self.top + k, "hreal": self.top + k, "hash": tag, "prev": None, "bad": "none", "act": {p: True for p in POOLS},
                "meta": meta, "txs": txs}

    def finish(self, blocks, kind, bad_at=0, note=""):
        # link hashes, fill consistent metadata
        prev = self.tag
        sizes = dict(self.true_sizes)
        for b in blocks:
            if b["prev"] is None:
                b["prev"] = prev
            prev = b["hash"]
            for p in POOLS:
                sizes[p] += sum(len(tx[p]["out"]) for tx in b["txs"])
            m = b["meta"]
            if m == "ok":
                b["meta"] = {"k": "given", "sz": dict(sizes)}
            elif m == "absent":
                b["meta"] = {"k": "absent"}
            elif isinstance(m, tuple):
                kindm, p, d = m
                sz = dict(sizes)
                sz[p] = 0 if kindm == "zero" else max(0, sz[p] + d)
                if kindm == "zero":
                    sz = {q: 0 for q in POOLS}
                b["meta"] = {"k": "given", "sz": sz}
        sc = {"id": len(self.scenarios) + 1, "kind": "range", "what": kind, "note": note, "bad_at": bad_at, "prior": self.prior(),
              "blocks": blocks, "keys": K12, "tracked": [dict(x) for x in self.unspent]}
        self.scenarios.append(sc)
        if bad_at == 0:
            # accepted: fold into the bookkeeping
            for b in blocks:
                for tx in b["txs"]:
                    for p in POOLS:
                        for s in tx[p]["sp"]:
                            if s["k"] == "t":
                                self.unspent = [x for x in self.unspent if not (x["n"] == s["n"] and x["p"] == p)]
                for tx in b["txs"]:
                    for p in POOLS:
                        for o in tx[p]["out"]:
                            if o["n"] > 0:
                                self.unspent.append({"n": o["n"], "p": p, "a": 1 if o["o"].startswith("a1") else 2})
            self.top += len(blocks)
            self.tag = blocks[-1]["hash"]
            self.true_sizes = sizes
            self.sizes = dict(sizes)
        return sc

    # -- scenario kinds -------------------------------------------------------------------------
    def valid_range(self, nblocks, rich=False, meta=None):
        avail = [dict(x) for x in self.unspent]
        blocks = []
        for k in range(1, nblocks + 1):
            txs = [self.rand_tx(t, avail, rich) for t in range(1, self.rng.randint(1, 3) + 1)]
            blocks.append(self.block(k, txs, meta or ("ok" if self.sizes is None else self.rng.choice(["ok", "ok", "absent"]))))
            # notes received in this block may be spent by the following blocks of the range
            for tx in txs:
                for p in POOLS:
                    for o in tx[p]["out"]:
                        if o["n"] > 0:
                            avail.append({"n": o["n"], "p": p, "a": 1 if o["o"].startswith("a1") else 2})
        return self.finish(blocks, "valid")

    def corrupt_range(self, what, nblocks, k):
        avail = [dict(x) for x in self.unspent]
        blocks = []
        for j in range(1, nblocks + 1):
            txs = [self.rand_tx(t, avail, True) for t in range(1, self.rng.randint(1, 2) + 1)]
            blocks.append(self.block(j, txs, "ok"))
        b = blocks[k - 1]
        pool = self.rng.choice(POOLS)
        if what == "height":
            b["h"] += self.rng.choice([1, 2])
        elif what == "height_same":
            b["h"] -= 1
        elif what == "prev":
            b["prev"] = 999000 + k
        elif what == "meta_short":
            b["meta"] = ("short", pool, -1)
        elif what == "meta_long":
            b["meta"] = ("long", pool, self.rng.choice([1, 7]))
        elif what == "meta_zero":
            b["meta"] = ("zero", pool, 0)
        elif what.startswith("hdr:"):
            b["bad"] = what[4:]
        elif what == "nf":
            p = self.rng.choice(POOLS)
            tx = b["txs"][-1]
            if p == "S" or not tx[p]["sp"]:
                p = "S"
                tx[p]["sp"].append({"k": "m", "n": 0})
            else:
                tx[p]["sp"][self.rng.randrange(len(tx[p]["sp"]))] = {"k": "m", "n": 0}
        elif what == "out":
            p = self.rng.choice(POOLS)
            tx = b["txs"][0]
            if not tx[p]["out"]:
                tx[p]["out"].append(self.fresh_out("m", 1, p, 9))
                if p != "S":
                    tx[p]["sp"].append({"k": "u", "n": 0})
            else:
                i = self.rng.randrange(len(tx[p]["out"]))
                tx[p]["out"][i] = dict(tx[p]["out"][i], o="m", n=0)
        return self.finish(blocks, "corrupt:" + what, bad_at=k)

    def padded(self, pool, split, marks, extra_block=None):
        """One block whose transactions hold `split` outputs of `pool` (foreign except at the
        block-wide indices `marks`), optionally preceded by a block with `extra_block` outputs."""
        blocks = []
        avail = [dict(x) for x in self.unspent]
        owners_cycle = ["a1e", "a2e", "a1i", "a2i"]
        k = 1
        if extra_block:
            owners = ["f"] * extra_block
            owners[-1] = "a2e"
            blocks.append(self.block(k, [self.tx(1, {pool: (owners, 0, 0)}, avail)], "ok"))
            k += 1
        txs = []
        seen = 0
        for t, n in enumerate(split, start=1):
            owners = []
            for i in range(n):
                owners.append(owners_cycle[(seen + i) % 4] if (seen + i) in marks else "f")
            seen += n
            txs.append(self.tx(t, {pool: (owners, 1 if t == 1 else 0, 0)}, avail))
        blocks.append(self.block(k, txs, "ok"))
        return self.finish(blocks, "padded", note="%s %s%s" % (pool, split, " after %d" % extra_block if extra_block else ""))


    def big_tx(self, pool, n, small_before):
        """One transaction that alone holds n > threshold outputs of `pool`, the wallet's at the indices
        0, 99, 100, 101, 199, 200, n-1 and at (i mod 100) of each of those (so that an index taken modulo
        the batching threshold would collide with another wallet output of a different account / scope),
        optionally preceded in the same block by a small transaction (the accumulating batch is then not
        empty when the large one arrives)."""
        avail = [dict(x) for x in self.unspent]
        owners_cycle = ["a1e", "a2e", "a1i", "a2i"]
        marks = {i for i in (0, 99, 100, 101, 199, 200, n - 1) if i < n}
        marks |= {i % 100 for i in marks}
        owners = [owners_cycle[(i // 100 + i) % 4] if i in marks else "f" for i in range(n)]
        txs = []
        if small_before:
            txs.append(self.tx(1, {pool: (["f", "a2e", "f"][:small_before], 0, 0)}, avail))
        txs.append(self.tx(len(txs) + 1, {pool: (owners, 1, 0)}, avail))
        return self.finish([self.block(1, txs, "ok")], "bigtx", note="%s one tx of %d%s" % (pool, n, " after a tx of %d" % small_before if small_before else ""))


def wallet_scenarios(ctx, rng):
    g = WalletGen(rng)
    q = ctx.quick()
    # nothing scanned yet and no metadata: the tree sizes cannot be known
    b = g.block(1, [g.rand_tx(1, [], True)], "absent")
    g.finish([b], "corrupt:meta_absent_first", bad_at=1)
    g.valid_range(2, rich=True, meta="ok")
    g.valid_range(1, rich=True)
    plan = []
    for what in ["height", "height_same", "prev", "meta_short", "meta_long", "meta_zero", "nf", "nf", "out", "out", "out"]:
        for (nb, k) in ([(1, 1), (3, 3)] if q else [(1, 1), (2, 2), (3, 2), (3, 3)]):
            plan.append(("corrupt", what, nb, k))
    for kind in HEADER_KINDS:
        plan.append(("corrupt", "hdr:" + kind, 2, rng.choice([1, 2])))
    pads = []
    for i, total in enumerate([99, 100, 101, 250]):
        pool = POOLS[(i + ctx.seed) % 3]
        if total == 250:
            split = [99, 1, 100, 50]
        else:
            split = [60, total - 60]
        marks = {0, split[0] - 1, split[0], total - 1, 98, 99, 100}
        pads.append(("padded", pool, split, {m for m in marks if m < total}, None))
    pads.append(("padded", POOLS[(ctx.seed + 1) % 3], [50], {0, 29, 49}, 70))       # threshold crossed between blocks
    pads.append(("padded", POOLS[(ctx.seed + 2) % 3], [100, 100], {99, 100, 199}, None))   # exactly at the threshold, twice
    if not q:
        for pool in POOLS:
            pads.append(("padded", pool, [33, 33, 33, 1, 1], {0, 32, 33, 98, 99, 100}, None))
            pads.append(("padded", pool, [101], {0, 99, 100}, 99))
    plan += pads
    # a single transaction beyond the batching threshold, in every pool
    for j, pool in enumerate(POOLS):
        for i, n in enumerate([101, 150, 250]):
            plan.append(("bigtx", pool, n, [0, 3, 1][(i + j + ctx.seed) % 3]))
        if not q:
            plan.append(("bigtx", pool, 201, 2))
            plan.append(("bigtx", pool, 300, 0))
    plan += [("valid", rng.randint(1, 3)) for _ in range(10 if q else 40)]
    rng.shuffle(plan)
    for item in plan:
        if item[0] == "corrupt":
            g.corrupt_range(item[1], item[2], item[3])
        elif item[0] == "padded":
            g.padded(item[1], item[2], item[3], item[4])
        elif item[0] == "bigtx":
            g.big_tx(item[1], item[2], item[3])
        else:
            g.valid_range(item[1], rich=True)
    g.valid_range(2, rich=True)
    return g.scenarios


# ------------------------------------------------------------------------------------------------
# TLC plumbing

def emit_family(ctx, d, name, kw):
    cfg = "Emit_%s.cfg" % name
    write_cfg(os.path.join(d, cfg), emit=True, invariants=False, **kw)
    r = lib.tlc(ctx, d, "Emit_ScanBlock", cfg, workers=1, timeout=1500, coverage=False)
    cases = r.prints("CASE")
    if not cases:
        raise lib.ToolError("family %s emitted no case" % name)
    for c in cases:
        c["fam"] = name
    return cases


def tlc_eval(ctx, d, cases, name):
    """TLC's prediction for externally generated cases (one JVM run, constant-level evaluation)."""
    path = ctx.path("eval_%s.ndjson" % name)
    with open(path, "w") as f:
        for c in cases:
            f.write(json.dumps(c) + "\n")
    r = lib.tlc(ctx, d, "Eval_ScanBlock", "Eval_ScanBlock.cfg", workers=1, timeout=1500, coverage=False,
                env_extra={"CASES": path}, xss="512m")
    preds = r.prints("PRED")
    if len(preds) != len(cases):
        raise lib.ToolError("TLC evaluated %d of %d %s cases" % (len(preds), len(cases), name))
    for p in preds:
        cases[p["i"] - 1]["exp"] = p["exp"]
    return r


def harness_env(ctx):
    return {"VERIF_SEED": str(ctx.seed)}


def run_block_mode(ctx, bindir, cases, name):
    inp = ctx.path("cases_%s.ndjson" % name)
    with open(inp, "w") as f:
        for c in cases:
            f.write(json.dumps(c) + "\n")
    out = ctx.path("out_%s.json" % name)
    lib.run_bin(os.path.join(bindir, "c05_replay"), ["block", inp, out], env_extra=harness_env(ctx), timeout=2400)
    with open(out) as f:
        return json.load(f)


def run_wallet_mode(ctx, bindir, scenarios, threads, name, hang_secs=None):
    inp = ctx.path("scen_%s.ndjson" % name)
    with open(inp, "w") as f:
        for c in scenarios:
            f.write(json.dumps(c) + "\n")
    out = ctx.path("out_%s.json" % name)
    if os.path.exists(out):
        os.remove(out)
    env = harness_env(ctx)
    env["RAYON_NUM_THREADS"] = str(threads)
    if hang_secs:
        env["C05_HANG_SECS"] = str(hang_secs)
    # a crash of the process (a panic on a pool thread aborts it) is an outcome, not a tool error
    p = lib.run_bin(os.path.join(bindir, "c05_replay"), ["wallet", inp, out], env_extra=env, timeout=2400,
                    ok_codes=tuple(range(-64, 256)))
    if p.returncode != 0 or not os.path.exists(out):
        return {"mode": "wallet", "scenarios": -1, "stats": {}, "crashed": p.returncode,
                "mismatches": [{"case": -1, "kind": "wallet", "input": None, "got": {"crash": p.returncode},
                                "why": ["the scanning process died (exit %s): %s" % (p.returncode, (p.stderr or "")[-300:])]}]}
    with open(out) as f:
        return json.load(f)


def judge_block(ctx, res):
    n = 0
    for m in res["mismatches"]:
        if n >= 3:
            break
        n += 1
        lib.violation(ctx, {"property": "C05", "kind": "block", "seed": ctx.seed, "case": m.get("input"), "got": m.get("got")},
                      "scan_block disagrees with ScanBlock.tla on a materialised block: %s | prior %s block %s"
                      % ("; ".join(m["why"])[:900], json.dumps((m.get("input") or {}).get("prior"))[:200],
                         json.dumps((m.get("input") or {}).get("block"))[:700]))

def open_header_findings():
    return {f["match"]["corruption"]: f for f in lib.load_known_findings()
            if f.get("property") == "C05" and f.get("status") == "open" and f.get("match", {}).get("outcome") == "panic"
            and f["match"].get("corruption") and f["match"].get("panic_contains")}


def header_excuse(findings, kind, messages):
    """The open finding that excuses panics with these messages on a block with this corruption."""
    f = findings.get(kind)
    if f and messages and all(f["match"]["panic_contains"] in m for m in messages):
        return f
    return None


def judge_header_panics(ctx, res, mode, scenarios=None, threads=None):
    """Panics on blocks whose header-level fields cannot be parsed are excused exactly while
    known_findings.json lists (corruption kind, outcome panic, message fragment) as open."""
    findings = open_header_findings()
    seen = {}
    for kind, h in sorted((res.get("header_panics") or {}).items()):
        f = header_excuse(findings, kind, h["messages"])
        if f:
            lib.known_finding(ctx, "id=%s %s" % (f["id"], f["what"][:300]))
            seen[kind] = h["count"]
            continue
        if mode == "block":
            rep = {"property": "C05", "kind": "block", "seed": ctx.seed, "case": h["example"], "got": {"panic": h["messages"]}}
        else:
            sid = h["example"]["id"]
            rep = {"property": "C05", "kind": "wallet", "seed": ctx.seed, "threads": threads,
                   "scenarios": [s for s in scenarios if s["id"] <= sid], "got": {"panic": h["messages"]}}
        lib.violation(ctx, rep, "%s panicked on a block whose %s cannot be parsed (%d blocks): %s"
                      % ("scan_block" if mode == "block" else "scan_cached_blocks", kind, h["count"], h["messages"][:2]))
    return seen


def judge_wallet(ctx, res, scenarios, threads):
    for m in res["mismatches"][:1]:
        sid = m.get("case")
        prefix = [s for s in scenarios if sid in (-1, None) or s["id"] <= sid]
        lib.violation(ctx, {"property": "C05", "kind": "wallet", "seed": ctx.seed, "threads": threads, "scenarios": prefix,
                            "got": m.get("got")},
                      "scan_cached_blocks (RAYON_NUM_THREADS=%s) disagrees with ScanBlock.tla on scenario %s (%s): %s"
                      % (threads, sid, (m.get("input") or {}).get("what"), "; ".join(m["why"])[:1200]))


def check_generator(scenarios):
    """The generator's intent must be what the specification says about its ranges."""
    for s in scenarios:
        e = s["exp"]
        if (s["bad_at"] == 0) != bool(e["ok"]) or (s["bad_at"] != 0 and e["at"] != s["bad_at"]):
            raise lib.ToolError("generator and specification disagree on scenario %d (%s): intended bad_at=%d, TLC says ok=%s at=%s %s"
                                % (s["id"], s["what"], s["bad_at"], e["ok"], e.get("at"), json.dumps(e["res"][-1])[:300]))


# ------------------------------------------------------------------------------------------------
# schedules (Emit_BatchRunner.tla -> scan_cached_blocks with the tasks run in a chosen order)

REAL_THRESHOLD = 100          # scan_cached_blocks: BatchRunners::for_keys(100, ..)
POOL_PAIRS = [("S", "O"), ("S", "I"), ("O", "I")]     # runner 1 is the pool add_block feeds first
SCHED_CONST = dict(MaxTxs=4, MaxOuts=3, MaxThreshold=3, MaxWorkers=4, Runners=2)


def sched_cfg(path, spec, max_tasks=4, min_tasks=2, thresholds=(1, 2, 3), shapes="small", invariants=False, maxtxs=4, runners=2,
              key_with_block=True):
    c = dict(SCHED_CONST)
    c.update(MaxTxs=maxtxs, Runners=runners)
    with open(path, "w") as f:
        f.write("SPECIFICATION %s\nCONSTANTS\n" % spec)
        for k, v in c.items():
            f.write("  %s = %d\n" % (k, v))
        f.write("  FinalFlush = TRUE\n  KeyWithBlock = %s\n  MaxTasks = %d\n  MinTasks = %d\n  FamThresholds = {%s}\n  ShapeSet = \"%s\"\n"
                % ("TRUE" if key_with_block else "FALSE", max_tasks, min_tasks, ", ".join(str(t) for t in thresholds), shapes))
        if invariants:
            f.write("INVARIANTS %s\n" % (invariants if isinstance(invariants, str) else
                                         "ScheduleIndependent PartitionIsTasksOf OrderIsPermutation CollectExact SentOnce SendersOk"))
            f.write("CHECK_DEADLOCK TRUE\n")
        else:
            f.write("CHECK_DEADLOCK FALSE\n")


def sched_family(ctx, d, name="fam", **kw):
    """Every configuration of the family, with TLC's partition into tasks and classification."""
    cfg = "Sched_%s.cfg" % name
    sched_cfg(os.path.join(d, cfg), "FamilySpec", **kw)
    r = lib.tlc(ctx, d, "Emit_BatchRunner", cfg, workers=1, timeout=1500, coverage=False, xss="1g")
    confs = r.prints("CONF")
    if not confs:
        raise lib.ToolError("Emit_BatchRunner: the family %s is empty" % name)
    return confs


def sched_real_outputs(c):
    return -(-REAL_THRESHOLD // c["thr"]) * sum(len(call["outs"]) for call in c["wl"])


def sched_pick(rng, confs, want, cap=650):
    """A seeded sample of the family: `want` = [(number of tasks, how many)], classes spread out; configurations
    that scale to more than `cap` real outputs are left out (cost of materialising and scanning them per order)."""
    chosen, seen = [], set()
    confs = [c for c in confs if sched_real_outputs(c) <= cap]

    def take(pred, k):
        cands = [c for c in confs if pred(c) and id(c) not in seen]
        rng.shuffle(cands)
        for c in cands[:k]:
            seen.add(id(c))
            chosen.append(c)
    for n, k in want:
        # per task count: the three structural classes together, each alone with a call above the threshold, then any
        quota = [(lambda c: c["split"] and c["multitx"] and c["multiblock"], 1),
                 (lambda c: c["big"] and c["multitx"], 1),
                 (lambda c: c["split"] and not c["multitx"], 1),
                 (lambda c: c["multiblock"] and not c["split"], 1)]
        left = k
        for pred, q in quota:
            if left <= 0:
                break
            before = len(chosen)
            take(lambda c, pred=pred: c["n"] == n and pred(c), min(q, left))
            left -= len(chosen) - before
        if left > 0:
            take(lambda c: c["n"] == n, left)
    return chosen


def sched_orders(ctx, d, chosen, name="sched"):
    """TLC explores every interleaving of the chosen configurations (invariants incl. ScheduleIndependent)
    and prints every completion order with the collected result."""
    path = ctx.path("confs_%s.ndjson" % name)
    with open(path, "w") as f:
        for c in chosen:
            f.write(json.dumps({"thr": c["thr"], "wl": c["wl"]}) + "\n")
    cfg = "Sched_%s.cfg" % name
    sched_cfg(os.path.join(d, cfg), "SchedSpec", invariants=True)
    r = lib.tlc(ctx, d, "Emit_BatchRunner", cfg, workers=1, timeout=2400, coverage=True, env_extra={"CONFS": path}, xss="512m")
    lib.require_coverage(r, ["EAdd", "EFlush", "EStart", "ERun", "EFinish", "ECollect", "EDone"])
    lib.account_tlc(ctx, r)
    by = {}
    for e in r.prints("SCHED"):
        c = chosen[e["c"] - 1]
        if e["tasks"] != c["tasks"]:
            raise lib.ToolError("Emit_BatchRunner: the batches flushed by the actions differ from TasksOf for configuration %d" % e["c"])
        if e["got"] != [call["outs"] for call in c["wl"]]:
            raise lib.ToolError("Emit_BatchRunner: a collected result differs from the decryptable outputs (configuration %d, order %s)" % (e["c"], e["order"]))
        by.setdefault(e["c"], set()).add(tuple(e["order"]))
    fact = {0: 1, 1: 1, 2: 2, 3: 6, 4: 24}
    for i, c in enumerate(chosen, start=1):
        orders = sorted(by.get(i, ()))
        # as many workers as tasks: the model must allow every permutation of the completions
        if len(orders) != fact[c["n"]]:
            raise lib.ToolError("Emit_BatchRunner: configuration %d with %d tasks has %d completion orders" % (i, c["n"], len(orders)))
        c["orders"] = [list(o) for o in orders]
    return r


def sched_guard(ctx, d):
    """ScheduleIndependent is not vacuous: with receivers keyed by txid alone (safeguard constant off) a workload with
    the same txid in two blocks must violate it in the model."""
    path = ctx.path("confs_guard.ndjson")
    with open(path, "w") as f:
        f.write(json.dumps({"thr": 2, "wl": [{"r": 1, "b": 1, "id": 1, "outs": [True]}, {"r": 1, "b": 2, "id": 1, "outs": [False, True]}]}) + "\n")
    sched_cfg(os.path.join(d, "Sched_guard.cfg"), "SchedSpec", invariants="ScheduleIndependent", key_with_block=False)
    r = lib.tlc(ctx, d, "Emit_BatchRunner", "Sched_guard.cfg", workers=1, timeout=600, coverage=False, env_extra={"CONFS": path},
                expect_ok=False)
    if r.invariant != "ScheduleIndependent":
        raise lib.ToolError("Emit_BatchRunner keyed by txid only did not violate ScheduleIndependent in the model")


def generic_orders(n, rng, nrand):
    """For more tasks than TLC enumerates orders for: reverse, rotations, seeded random permutations."""
    out = [{"k": "id"}, {"k": "rev"}] + [{"k": "rot", "by": b} for b in range(1, n)]
    out += [{"k": "rand", "s": rng.randrange(1 << 30)} for _ in range(nrand)]
    return out


def sched_case(ctx, rng, cid, conf, orders, corrupt=None):
    """Scales an abstract configuration to the real threshold: every abstract output becomes a group of
    `unit` real outputs (unit * a >= 100 iff a >= thr), the wallet's - if the abstract output decrypts -
    at a seeded place of its group, the rest foreign. The history is a setup range (notes to spend)
    followed by the range under test; both are evaluated by TLC (ScanRange) afterwards."""
    thr = conf["thr"]
    unit = -(-REAL_THRESHOLD // thr)
    if not (unit * thr >= REAL_THRESHOLD and unit * (thr - 1) < REAL_THRESHOLD):
        raise lib.ToolError("schedule scaling: threshold %d does not scale to %d" % (thr, REAL_THRESHOLD))
    pair = POOL_PAIRS[(cid + ctx.seed) % len(POOL_PAIRS)]
    g = WalletGen(rng)
    setup_tx = g.tx(1, {p: (["a1e", "a2e", "a1i", "a2e"], 0, 0) for p in POOLS}, [])
    g.finish([g.block(1, [setup_tx], "ok")], "valid", note="schedule setup")
    avail = [dict(x) for x in g.unspent]
    owners_cycle = ["a1e", "a2e", "a1i", "a2i"]
    blocks, calls = [], []
    bvals = sorted({c["b"] for c in conf["wl"]})
    seen = 0
    for bi, b in enumerate(bvals, start=1):
        ids = sorted({c["id"] for c in conf["wl"] if c["b"] == b})
        txs = []
        for t, txid in enumerate(ids, start=1):
            spec = {}
            for k, c in enumerate(conf["wl"], start=1):
                if c["b"] != b or c["id"] != txid:
                    continue
                pool = pair[c["r"] - 1]
                owners, idx = [], []
                for j, mine in enumerate(c["outs"]):
                    grp = ["f"] * unit
                    if mine:
                        off = rng.choice([0, unit - 1, rng.randrange(unit)])
                        grp[off] = owners_cycle[seen % 4]
                        seen += 1
                        idx.append(j * unit + off)
                    owners += grp
                spec[pool] = (owners, 1 if rng.random() < 0.6 else 0, 0)
                calls.append({"k": k, "blk": bi, "t": t, "p": pool, "idx": idx})
            txs.append(g.tx(t, spec, avail))
        blocks.append(g.block(bi, txs, "ok" if rng.random() < 0.7 else "absent"))
        for tx in txs:
            for p in POOLS:
                for o in tx[p]["out"]:
                    if o["n"] > 0:
                        avail.append({"n": o["n"], "p": p, "a": 1 if o["o"].startswith("a1") else 2})
    bad_at = 0
    what = "sched"
    if corrupt == "prev":
        blocks[-1]["prev"] = 999000 + cid
        bad_at, what = len(blocks), "sched:corrupt:prev"
    elif corrupt == "meta":
        blocks[-1]["meta"] = ("long", pair[0], 3)
        bad_at, what = len(blocks), "sched:corrupt:meta_long"
    g.finish(blocks, what, bad_at=bad_at, note="thr %d x %d, pools %s, %d tasks" % (thr, unit, "".join(pair), conf["n"]))
    return {"id": cid, "kind": "sched", "conf": {k: conf[k] for k in ("thr", "wl", "tasks", "n", "split", "multitx", "multiblock", "big")},
            "pools": list(pair), "unit": unit, "calls": calls, "ranges": g.scenarios, "orders": orders}


def sched_cross_check(cases):
    """The two specifications must agree: the outputs ScanRange reports as received in the range under test
    are exactly the ones BatchRunner's Collect returns (scaled), per transaction and pool."""
    for case in cases:
        test = case["ranges"][-1]
        if not test["exp"]["ok"]:
            continue
        for c in case["calls"]:
            got = sorted(r["i"] for r in test["exp"]["res"][c["blk"] - 1]["recv"] if r["t"] == c["t"] and r["p"] == c["p"])
            if got != sorted(c["idx"]):
                raise lib.ToolError("ScanRange and BatchRunner disagree on schedule case %s, call %d: received %s, collected %s"
                                    % (case["id"], c["k"], got, sorted(c["idx"])))


def sched_cases(ctx, d, rng):
    """The schedule cases of this run: a seeded sample of the TLC-enumerated family with every completion
    order (<= 4 tasks) and, thorough tier, configurations with 5-6 tasks under generic orders."""
    q = ctx.quick()
    fam = sched_family(ctx, d, "fam", shapes="small" if q else "full")
    chosen = sched_pick(rng, fam, [(4, 2), (3, 5), (2, 4)] if q else [(4, 4), (3, 14), (2, 8)])
    if not q:
        # four tasks of which some hold several transactions need five calls
        mid = sched_family(ctx, d, "mid", max_tasks=4, min_tasks=4, thresholds=(2, 3), shapes="small", maxtxs=5)
        chosen += sched_pick(rng, [c for c in mid if c["multitx"]], [(4, 4)], cap=800)
        fam = fam + mid
    r = sched_orders(ctx, d, chosen)
    sched_guard(ctx, d)
    cases = []
    for i, c in enumerate(chosen, start=1):
        cases.append(sched_case(ctx, rng, i, c, [{"k": "perm", "p": [x - 1 for x in o]} for o in c["orders"]]))
    n_tlc = len(cases)
    # a rejected range under test: the verdict and the untouched database must not depend on the order either
    for j, kind in enumerate(["prev", "meta"] if not q else ["prev"]):
        c = chosen[[k for k, x in enumerate(chosen) if x["n"] == 3][j]]
        cases.append(sched_case(ctx, rng, len(cases) + 1, c, [{"k": "perm", "p": [x - 1 for x in o]} for o in c["orders"]], corrupt=kind))
    if not q:
        big = sched_family(ctx, d, "big", max_tasks=6, min_tasks=5, thresholds=(1, 2), shapes="small", maxtxs=6)
        for c in sched_pick(rng, big, [(6, 3), (5, 3)], cap=900):
            cases.append(sched_case(ctx, rng, len(cases) + 1, c, generic_orders(c["n"], rng, 8)))
        fam = fam + big
    flat = [rg for case in cases for rg in case["ranges"]]
    tlc_eval(ctx, d, flat, "sched")
    check_generator(flat)
    sched_cross_check(cases)
    return fam, cases, n_tlc, r


def run_sched_mode(ctx, bindir, cases, name, hang_secs=None):
    inp = ctx.path("sched_%s.ndjson" % name)
    with open(inp, "w") as f:
        for c in cases:
            f.write(json.dumps(c) + "\n")
    out = ctx.path("out_sched_%s.json" % name)
    if os.path.exists(out):
        os.remove(out)
    env = harness_env(ctx)
    # the reference run of each case has its tasks on the rayon pool; the captured runs use no pool at all
    env["RAYON_NUM_THREADS"] = "2"
    if hang_secs:
        env["C05_HANG_SECS"] = str(hang_secs)
    p = lib.run_bin(os.path.join(bindir, "c05_replay"), ["sched", inp, out], env_extra=env, timeout=2400,
                    ok_codes=tuple(range(-64, 256)))
    if p.returncode != 0 or not os.path.exists(out):
        return {"mode": "sched", "cases": -1, "stats": {}, "per_case": [], "crashed": p.returncode,
                "mismatches": [{"case": -1, "kind": "sched", "order": None, "input": None, "got": {"crash": p.returncode},
                                "why": ["the scanning process died (exit %s): %s" % (p.returncode, (p.stderr or "")[-300:])]}]}
    with open(out) as f:
        return json.load(f)


def run_sched_parallel(ctx, bindir, cases, parts, name="p"):
    """The cases are independent (fresh wallets each): spread over `parts` processes, heaviest first."""
    parts = max(1, min(parts, len(cases)))
    load = [0] * parts
    chunks = [[] for _ in range(parts)]
    for c in sorted(cases, key=lambda c: -(len(c["orders"]) + 1) * (1 + c["conf"]["n"])):
        k = load.index(min(load))
        chunks[k].append(c)
        load[k] += (len(c["orders"]) + 1) * (1 + c["conf"]["n"])
    with concurrent.futures.ThreadPoolExecutor(max_workers=parts) as ex:
        futs = [ex.submit(run_sched_mode, ctx, bindir, ch, "%s%d" % (name, i)) for i, ch in enumerate(chunks)]
        res = [f.result() for f in futs]
    merged = {"mode": "sched", "cases": 0, "mismatches": [], "stats": {}, "per_case": [], "incomplete": False}
    for ch, r in zip(chunks, res):
        merged["mismatches"] += r["mismatches"]
        merged["per_case"] += r.get("per_case", [])
        if r["cases"] != len(ch):
            merged["incomplete"] = True
        else:
            merged["cases"] += r["cases"]
        for k, v in (r.get("stats") or {}).items():
            merged["stats"][k] = merged["stats"].get(k, 0) + v
    return merged


def judge_sched(ctx, res, cases):
    by_id = {c["id"]: c for c in cases}
    for m in res["mismatches"][:2]:
        case = by_id.get(m.get("case")) or m.get("input")
        o = m.get("order")
        how = {"inline": "scan_block, block by block (inline decryption)",
               "reference": "scan_cached_blocks with the batch tasks on the rayon pool (reference run)"}.get(
                   o if isinstance(o, str) else None, "scan_cached_blocks with the batch tasks completing in order %s" % json.dumps(o))
        lib.violation(ctx, {"property": "C05", "kind": "sched", "seed": ctx.seed, "cases": [case] if case else cases, "order": o,
                            "got": m.get("got")},
                      "%s disagrees with ScanBlock.tla%s on schedule case %s (%s; tasks %s): %s"
                      % (how, "" if isinstance(o, str) else " / the reference run", m.get("case"),
                         (case or {}).get("ranges", [{}])[-1].get("note"),
                         json.dumps((case or {}).get("conf", {}).get("tasks"))[:200], "; ".join(m["why"])[:1200]))


def sched_vacuity(ctx, res, cases, n_tlc):
    """The schedules must have been exercised: tasks drained = the model's partition, enough cases with >= 2 tasks,
    enough distinct non-identity orders, and the structural classes present."""
    q = ctx.quick()
    by_id = {c["id"]: c for c in cases}
    if res["incomplete"] or res["cases"] != len(cases):
        raise lib.ToolError("schedule replay ran %s of %d cases" % (res["cases"], len(cases)))
    multi, orders, classes = 0, 0, {"split": 0, "multitx+multiblock": 0, "big": 0}
    for pc in res["per_case"]:
        c = by_id[pc["id"]]
        n = c["conf"]["n"]
        test_ok = c["ranges"][-1]["exp"]["ok"]
        totals = {sum(x for x in dr) for dr in pc["drained"]}
        if totals != {n}:
            raise lib.ToolError("vacuity: schedule case %s: the hook drained %s tasks, the model's partition has %d (%s) - "
                                "the enumerated completion orders are not those of the code's tasks"
                                % (pc["id"], sorted(totals), n, json.dumps(c["conf"]["tasks"])[:200]))
        if n >= 2 and test_ok:
            multi += 1
            orders += pc["distinct_orders_applied"]
            classes["split"] += bool(c["conf"]["split"])
            classes["multitx+multiblock"] += bool(c["conf"]["multitx"] and c["conf"]["multiblock"])
            classes["big"] += bool(c["conf"]["big"])
        if pc["id"] <= n_tlc and pc["distinct_orders_applied"] != len(c["orders"]):
            raise lib.ToolError("vacuity: schedule case %s: %d of %d completion orders were applied" % (pc["id"], pc["distinct_orders_applied"], len(c["orders"])))
    need_cases, need_orders = (8, 60) if q else (24, 200)
    if multi < need_cases or orders < need_orders or not all(classes.values()) or not res["stats"].get("non_identity_orders_applied"):
        raise lib.ToolError("vacuity: %d schedule cases with >= 2 tasks (need %d), %d distinct orders (need %d), classes %s, stats %s"
                            % (multi, need_cases, orders, need_orders, classes, res["stats"]))
    return {"cases_with_2plus_tasks": multi, "distinct_orders_executed": orders, "classes": classes}


# ------------------------------------------------------------------------------------------------

def model_check(ctx, d):
    mc, _ = families(ctx)
    total = 0
    for name, kw in mc:
        cfg = "MC_%s.cfg" % name
        write_cfg(os.path.join(d, cfg), emit=False, invariants=True, **kw)
        r = lib.tlc(ctx, d, "MC_ScanBlock", cfg, workers=8, timeout=3000)
        lib.require_coverage(r, ["Begin", "AddTx"])
        lib.account_tlc(ctx, r)
        total += r.distinct
    # the concurrent part
    br = dict(MaxTxs=3, MaxOuts=2, MaxThreshold=3, MaxWorkers=2, Runners=1) if ctx.quick() \
        else dict(MaxTxs=3, MaxOuts=2, MaxThreshold=4, MaxWorkers=3, Runners=1)

    def br_cfg(name, final_flush, key_with_block, live=False, small=False):
        c = dict(br)
        if small:
            c.update(MaxTxs=2)
        with open(os.path.join(d, name), "w") as f:
            f.write("SPECIFICATION %s\nCONSTANTS\n" % ("FairSpec" if live else "Spec"))
            for k, v in c.items():
                f.write("  %s = %d\n" % (k, v))
            f.write("  FinalFlush = %s\n  KeyWithBlock = %s\n" % ("TRUE" if final_flush else "FALSE", "TRUE" if key_with_block else "FALSE"))
            f.write("PROPERTY Terminates\n" if live else "INVARIANTS CollectExact SentOnce SendersOk\n")
            f.write("CHECK_DEADLOCK TRUE\n")
    br_cfg("BR.cfg", True, True)
    r = lib.tlc(ctx, d, "BatchRunner", "BR.cfg", workers=8, timeout=3000)
    lib.require_coverage(r, ["Add", "Flush", "Start", "RunOutput", "Finish", "Collect"])
    lib.account_tlc(ctx, r)
    br_cfg("BR_live.cfg", True, True, live=True, small=True)
    r = lib.tlc(ctx, d, "BatchRunner", "BR_live.cfg", workers=4, timeout=3000, coverage=False)
    lib.account_tlc(ctx, r)
    # the safeguards are needed (non-vacuity of the two invariants)
    br_cfg("BR_noflush.cfg", False, True, small=True)
    r = lib.tlc(ctx, d, "BatchRunner", "BR_noflush.cfg", workers=4, timeout=3000, coverage=False, expect_ok=False)
    if "Deadlock reached" not in r.out:
        raise lib.ToolError("BatchRunner without the final flush did not deadlock in the model")
    br_cfg("BR_txidkey.cfg", True, False, small=True)
    r = lib.tlc(ctx, d, "BatchRunner", "BR_txidkey.cfg", workers=4, timeout=3000, coverage=False, expect_ok=False)
    if r.invariant != "CollectExact":
        raise lib.ToolError("BatchRunner keyed by txid only did not violate CollectExact in the model")
    return total


def nontrivial(c):
    e = c["exp"]
    return (not e["ok"]) or bool(e.get("recv")) or bool(e.get("spent"))


class BlockTally:
    """Accumulates what the scan_block replay covered, one batch of cases at a time."""

    def __init__(self):
        self.n = 0
        self.fam = {}
        self.classes = {}
        self.changes = 0
        self.internal = 0
        self.hdr = set()
        self.distinct = set()
        self.stats = {}
        self.excused = {}
        self.ex_ok = None
        self.ex_bad = None

    def add(self, name, cases, res, excused):
        self.n += len(cases)
        for c in cases:
            self.fam[c.get("fam", name)] = self.fam.get(c.get("fam", name), 0) + 1
            e = c["exp"]
            k = "accepted" if e["ok"] else e["err"]
            self.classes[k] = self.classes.get(k, 0) + 1
            if e["ok"]:
                self.changes += any(r["chg"] for r in e["recv"])
                self.internal += any(r["sc"] == "int" for r in e["recv"])
                if self.ex_ok is None and len(e["recv"]) >= 2 and e["spent"]:
                    self.ex_ok = c
            elif self.ex_bad is None and len(e["all"]) >= 2:
                self.ex_bad = c
            if c["block"].get("bad", "none") != "none":
                self.hdr.add(c["block"]["bad"])
            if nontrivial(c):
                self.distinct.add(hashlib.sha256(json.dumps([c["prior"], c["block"], c["keys"]], sort_keys=True).encode()).digest()[:12])
        for k, v in (res.get("stats") or {}).items():
            self.stats[k] = self.stats.get(k, 0) + v
        for k, v in excused.items():
            self.excused[k] = self.excused.get(k, 0) + v


def replay_blocks(ctx, bindir, tally, name, cases):
    t0 = time.time()
    res = run_block_mode(ctx, bindir, cases, name)
    lib.log("[replay] scan_block %s: %d cases in %.1fs, %s" % (name, len(cases), time.time() - t0, res.get("stats")))
    if res["cases"] != len(cases) and not any(m.get("kind") == "setup" for m in res["mismatches"]):
        raise lib.ToolError("block replay consumed %d of %d cases" % (res["cases"], len(cases)))
    judge_block(ctx, res)
    tally.add(name, cases, res, judge_header_panics(ctx, res, "block"))


def run(ctx):
    bindir = lib.cargo_build("h_wallet", ["c05_replay"])
    d = lib.stage_specs(ctx, AREA)
    for m in ("ScanBlock", "MC_ScanBlock", "Emit_ScanBlock", "Eval_ScanBlock", "BatchRunner", "Emit_BatchRunner"):
        lib.sany(os.path.join(d, m + ".tla"))
    rng = random.Random(ctx.seed * 7919 + 5)
    srng = random.Random(ctx.seed * 104729 + 17)

    # (2b) wallet ranges first (their TLC evaluation is quick); the subprocesses then run in the
    # background while TLC works
    scenarios = wallet_scenarios(ctx, rng)
    tlc_eval(ctx, d, scenarios, "wallet")
    check_generator(scenarios)
    pool = concurrent.futures.ThreadPoolExecutor(max_workers=len(THREADS) + 2)
    futs = {n: pool.submit(run_wallet_mode, ctx, bindir, scenarios, n, "wallet_t%d" % n) for n in THREADS}

    # (1) the specification alone (theorems, BatchRunner), next to the emission runs below
    mc_future = pool.submit(model_check, ctx, d)

    # (2c) schedules: family and completion orders from TLC, scaled and evaluated, then replayed in the background
    t0 = time.time()
    sfam, scases, s_ntlc, _ = sched_cases(ctx, d, srng)
    lib.log("[sched] family of %d configurations, %d cases (%d with TLC-enumerated orders), %d completion orders, prepared in %.1fs"
            % (len(sfam), len(scases), s_ntlc, sum(len(c["orders"]) for c in scases), time.time() - t0))
    sched_future = pool.submit(run_sched_parallel, ctx, bindir, scases, 4 if ctx.quick() else 6)

    # (2a) blocks: TLC-enumerated families, then TLC-evaluated seeded random big shapes
    tally = BlockTally()
    _, emit = families(ctx)
    batch, names = [], []
    for name, kw in emit:
        batch += emit_family(ctx, d, name, kw)
        names.append(name)
        if len(batch) >= 60000 or name == emit[-1][0]:
            replay_blocks(ctx, bindir, tally, "+".join(names), batch)
            batch, names = [], []
    rnd = [rand_block_case(rng) for _ in range(1500 if ctx.quick() else 8000)]
    rnd += header_block_cases(rng, 4 if ctx.quick() else 40)
    tlc_eval(ctx, d, rnd, "random")
    for c in rnd:
        c["fam"] = "random"
    replay_blocks(ctx, bindir, tally, "random", rnd)
    excused = {"scan_block": tally.excused}
    mc_future.result()

    wallet_stats = {}
    for n in THREADS:
        wr = futs[n].result()
        lib.log("[replay] scan_cached_blocks threads=%d: %s scenarios, stats %s" % (n, wr["scenarios"], wr.get("stats")))
        wallet_stats[str(n)] = {"scenarios": wr["scenarios"], "stats": wr.get("stats", {})}
        judge_wallet(ctx, wr, scenarios, n)
        excused["scan_cached_blocks threads=%d" % n] = judge_header_panics(ctx, wr, "wallet", scenarios, n)
        if not wr["mismatches"] and wr["scenarios"] != len(scenarios):
            raise lib.ToolError("wallet replay (threads=%d) ran %s of %d scenarios" % (n, wr["scenarios"], len(scenarios)))

    sres = sched_future.result()
    lib.log("[replay] schedules: %s cases, stats %s" % (sres["cases"], sres["stats"]))
    judge_sched(ctx, sres, scases)
    sched_summary = None
    if not sres["mismatches"] and not ctx.violations:
        sched_summary = sched_vacuity(ctx, sres, scases, s_ntlc)

    # vacuity guards: every error class, accepted blocks with receipts / spends / change / internal scope,
    # every header-level malformation and the padded ranges were replayed
    need = ["accepted", "BlockHeightDiscontinuity", "PrevHashMismatch", "TreeSizeUnknown", "TreeSizeInvalid", "TreeSizeMismatch",
            "EncodingInvalid", "MalformedHeader"]
    missing = [k for k in need if not tally.classes.get(k)]
    wkinds = {}
    for s in scenarios:
        wkinds[s["what"]] = wkinds.get(s["what"], 0) + 1
    hdr_missing = [k for k in HEADER_KINDS if k not in tally.hdr or not wkinds.get("corrupt:hdr:" + k)]
    if missing or hdr_missing or not tally.changes or not tally.internal or not wkinds.get("padded") or wkinds.get("bigtx", 0) < 9 or not wkinds.get("valid") \
            or tally.ex_ok is None or tally.ex_bad is None:
        raise lib.ToolError("vacuity: classes %s change=%d internal=%d header kinds %s wallet kinds %s"
                            % (tally.classes, tally.changes, tally.internal, sorted(tally.hdr), wkinds))

    # (5) height continuity at the ends of the height range: ScanBlock.tla's HeightErr is stated over the natural numbers
    # (the block connects iff its height is the prior block's + 1); TLC's integers are 32-bit, so the rule is instantiated
    # here for prior / block heights around 0 and around u32::MAX (empty blocks whose hash and tree sizes connect)
    hp_path = ctx.path("heights.json")
    lib.run_bin(os.path.join(bindir, "c05_replay"), ["heights", hp_path], timeout=300)
    with open(hp_path) as f:
        hpairs = json.load(f)
    if len(hpairs) < 30 or not any(r["prior"] == 4294967295 for r in hpairs) or not any(r["prior"] == 0 and r["block"] == 0 for r in hpairs):
        raise lib.ToolError("vacuity: boundary heights not exercised (%d pairs)" % len(hpairs))
    for r in hpairs:
        connects = r["block"] == r["prior"] + 1
        got = r["got"]
        ok = (got["k"] == "ok" and got.get("h") == r["block"]) if connects else (got["k"] == "err" and "BlockHeightDiscontinuity" in got.get("what", ""))
        if not ok:
            lib.violation(ctx, {"property": "C05", "kind": "boundary_height", "prior": r["prior"], "block": r["block"], "got": got},
                          "scan_block on an empty block of height %d after a prior block of height %d (hash and tree sizes connect): "
                          "the specification (HeightErr: connects iff height = prior + 1 over the naturals) expects %s, the code answered %s"
                          % (r["block"], r["prior"], "acceptance" if connects else "BlockHeightDiscontinuity", json.dumps(got)[:200]))
            break
    ctx.extra["boundary_height_pairs"] = len(hpairs)

    ctx.traces = tally.n + len(scenarios) * len(THREADS) + sres["stats"].get("captured_runs", 0) + sres["stats"].get("reference_runs", 0) + len(hpairs)
    ex = tally.ex_ok
    ctx.add_sample({"mode": "scan_block", "prior": ex["prior"], "block_txs": ex["block"]["txs"],
                    "predicted": {k: ex["exp"][k] for k in ("recv", "spent", "final", "wtx")}})
    ex = tally.ex_bad
    ctx.add_sample({"mode": "scan_block", "prior": ex["prior"], "block": {k: ex["block"][k] for k in ("h", "prev", "meta", "act", "bad")},
                    "predicted": ex["exp"]})
    ex = next(s for s in scenarios if s["what"] == "padded")
    ctx.add_sample({"mode": "scan_cached_blocks", "what": ex["what"], "note": ex["note"], "threads": THREADS,
                    "predicted_receipts": [r for b in ex["exp"]["res"] for r in b["recv"]][:6]})
    ctx.extra["block_replay"] = {"families": tally.fam, "expected_classes": tally.classes, "with_change": tally.changes,
                                 "with_internal_scope": tally.internal, "harness_stats": tally.stats}
    ctx.extra["header_panics_excused_as_known_findings"] = excused
    ctx.extra["wallet_replay"] = {"scenario_kinds": wkinds, "per_thread_count": wallet_stats}
    ctx.extra["schedule_replay"] = {"family_configurations": len(sfam), "cases": len(scases), "cases_with_tlc_enumerated_orders": s_ntlc,
                                    "summary": sched_summary, "harness_stats": sres["stats"],
                                    "per_case": [{"id": pc["id"], "tasks": pc["expected_tasks"], "orders": pc["orders"],
                                                  "drained": sorted({sum(x) for x in pc["drained"]})} for pc in sres["per_case"]]}
    ex = next((c for c in scases if c["conf"]["split"] and c["conf"]["multitx"]), scases[0])
    ctx.add_sample({"mode": "scan_cached_blocks, tasks captured and run in a chosen order", "threshold": ex["conf"]["thr"], "unit": ex["unit"],
                    "pools": ex["pools"], "calls": ex["conf"]["wl"], "tasks": ex["conf"]["tasks"], "orders": len(ex["orders"]),
                    "predicted_receipts": [r for b in ex["ranges"][-1]["exp"]["res"] for r in b["recv"]][:4]})
    q = ctx.quick()
    lib.mc_evidence(
        ctx,
        rule="every abstract block of the TLC-enumerated families (continuity/metadata lattice; per-pool shapes; cross-pool "
             "menu) and of the seeded big-shape sample is materialised with real note encryption and scanned by scan_block; "
             "every wallet range is scanned by scan_cached_blocks under each thread count; distinct_nontrivial = distinct "
             "(prior, block, keys) whose prediction is a rejection or holds a receipt or a spend",
        evaluations=ctx.traces, distinct_nontrivial=len(tally.distinct),
        extra={"exhaustive": True,
               "bounds": {"theorems": "one pool over {wallet, foreign} x {tracked, untracked}: %s; "
                                      "full alphabet <=%d txs x <=2 actions; cross-pool menu <=%d txs; continuity lattice"
                                      % (("<=3 txs x <=2 outputs x <=1 spend", 1, 1) if q else
                                         ("<=3 txs x <=3 outputs x <=1 spend and <=2 txs x <=3 outputs x <=2 spends"
                                          + (" and <=3 x <=3 x <=2" if os.environ.get("C05_FULL_BOUND") == "1" else ""), 2, 2)),
                          "replayed_families": "see block_replay.families; random sample: 3 pools x <=3 txs x <=3 outputs x <=2 spends",
                          "thread_counts": THREADS, "batch_threshold": 100}},
        assumptions=["note encryption / decryption itself (sapling-crypto, orchard, zcash_note_encryption) is the trusted base",
                     "task schedules: the hook scan::verif runs the batch tasks of a range one after the other on the scanning thread, "
                     "in every completion ORDER TLC enumerates for the sampled configurations (<= 4 tasks; generic orders beyond); "
                     "truly concurrent executions of the tasks are exercised by the thread-count sweep (1, 2, 4, 16 pool threads) only, "
                     "their interleavings are enumerated in BatchRunner.tla (model) only",
                     "error classes: the class reported must be one of the block's defects (any class for a header-level "
                     "malformation); which one of several defects is reported is informational",
                     "the async sync-decryptor path is not in the baseline build and is not exercised"])


def replay(ctx, path):
    bindir = lib.cargo_build("h_wallet", ["c05_replay"])
    with open(path) as f:
        rep = json.load(f)
    ctx.seed = rep.get("seed", ctx.seed)
    if rep["kind"] == "block":
        res = run_block_mode(ctx, bindir, [rep["case"]], "replay")
        judge_block(ctx, res)
        judge_header_panics(ctx, res, "block")
        if not res["mismatches"] and not ctx.violations:
            lib.log("replay: the block now agrees with the specification")
    elif rep["kind"] == "boundary_height":
        hp_path = ctx.path("heights.json")
        lib.run_bin(os.path.join(bindir, "c05_replay"), ["heights", hp_path], timeout=300)
        with open(hp_path) as f:
            got = next(r["got"] for r in json.load(f) if r["prior"] == rep["prior"] and r["block"] == rep["block"])
        connects = rep["block"] == rep["prior"] + 1
        ok = got["k"] == "ok" if connects else (got["k"] == "err" and "BlockHeightDiscontinuity" in got.get("what", ""))
        if ok:
            lib.log("replay: the pair now agrees with the specification")
        else:
            lib.violation(ctx, rep, "replayed boundary heights still disagree: %s" % json.dumps(got)[:200])
    elif rep["kind"] == "sched":
        res = run_sched_mode(ctx, bindir, rep["cases"], "replay")
        res["incomplete"] = False
        judge_sched(ctx, res, rep["cases"])
        if not res["mismatches"] and not ctx.violations:
            lib.log("replay: the schedule case now agrees with the specification")
    else:
        res = run_wallet_mode(ctx, bindir, rep["scenarios"], rep["threads"], "replay")
        judge_wallet(ctx, res, rep["scenarios"], rep["threads"])
        judge_header_panics(ctx, res, "wallet", rep["scenarios"], rep["threads"])
        if not res["mismatches"] and not ctx.violations:
            lib.log("replay: the scenarios now agree with the specification")


def selftest(ctx):
    """Binding demonstration (R): perturbed predictions must be reported by the harness."""
    bindir = lib.cargo_build("h_wallet", ["c05_replay"])
    d = lib.stage_specs(ctx, AREA)
    cases = emit_family(ctx, d, "X", dict(family="X", maxtx=1))
    base = next(c for c in cases if c["exp"]["ok"] and len(c["exp"]["recv"]) >= 2 and c["exp"]["spent"] and c["env"]["pk"] == "all")
    bad = next(c for c in cases if not c["exp"]["ok"]) if any(not c["exp"]["ok"] for c in cases) else None

    def perturbed(f):
        c = json.loads(json.dumps(base))
        f(c["exp"])
        return c
    muts = [
        ("position", lambda e: e["recv"][0].__setitem__("pos", e["recv"][0]["pos"] + 1)),
        ("account", lambda e: e["recv"][0].__setitem__("a", 3 - e["recv"][0]["a"])),
        ("scope", lambda e: e["recv"][0].__setitem__("sc", "int" if e["recv"][0]["sc"] == "ext" else "ext")),
        ("value", lambda e: e["recv"][0].__setitem__("v", e["recv"][0]["v"] + 1)),
        ("change", lambda e: e["recv"][0].__setitem__("chg", not e["recv"][0]["chg"])),
        ("drop receipt", lambda e: e["recv"].pop()),
        ("drop spend", lambda e: e["spent"].pop()),
        ("final size", lambda e: e["final"].__setitem__("S", e["final"]["S"] + 1)),
        ("retention", lambda e: [e["cms"][p][-1].__setitem__("ret", "E") for p in POOLS if e["cms"][p]]),
        ("unlinked", lambda e: e["unl"]["O"].__setitem__(0, [])),
        ("reject", lambda e: (e.clear(), e.update({"ok": False, "err": "PrevHashMismatch", "all": ["PrevHashMismatch"]}))),
    ]
    batch = [base] + [perturbed(f) for _, f in muts]
    if bad is None:
        cs = emit_family(ctx, d, "D", dict(family="D", maxtx=1))
        bad = next(c for c in cs if not c["exp"]["ok"] and c["exp"]["all"] == ["TreeSizeMismatch"])
    wrong = json.loads(json.dumps(bad))
    wrong["exp"] = {"ok": False, "err": "EncodingInvalid", "all": ["EncodingInvalid"]} if "EncodingInvalid" not in bad["exp"]["all"] \
        else {"ok": False, "err": "TreeSizeUnknown", "all": ["TreeSizeUnknown"]}
    batch.append(wrong)
    res = run_block_mode(ctx, bindir, batch, "selftest")
    flagged = {m["case"] for m in res["mismatches"]}
    if 0 in flagged:
        raise lib.ToolError("selftest: the unperturbed case is reported as a mismatch: %s" % res["mismatches"][0]["why"])
    for i, (name, _) in enumerate(muts, start=1):
        if i not in flagged:
            raise lib.ToolError("selftest: a perturbed %s was not reported" % name)
    if len(batch) - 1 not in flagged:
        raise lib.ToolError("selftest: a perturbed error class was not reported")
    lib.log("selftest ok (scan_block): %d perturbed predictions rejected, the unperturbed one accepted" % (len(muts) + 1))

    # wallet rows
    rng = random.Random(ctx.seed)
    g = WalletGen(rng)
    g.valid_range(2, rich=True, meta="ok")
    g.corrupt_range("prev", 2, 2)
    g.valid_range(1, rich=True)
    scen = g.scenarios
    tlc_eval(ctx, d, scen, "selftest_wallet")
    check_generator(scen)
    ok = run_wallet_mode(ctx, bindir, scen, 2, "selftest_w0")
    if ok["mismatches"]:
        raise lib.ToolError("selftest: unperturbed wallet scenarios mismatch: %s" % ok["mismatches"][0]["why"])
    s2 = json.loads(json.dumps(scen))
    tgt = next(b for s in s2 for b in s["exp"]["res"] if b["ok"] and b["recv"])
    tgt["recv"][0]["pos"] += 1
    r1 = run_wallet_mode(ctx, bindir, s2, 2, "selftest_w1")
    s3 = json.loads(json.dumps(scen))
    s3[1]["exp"] = s3[0]["exp"]      # claim the corrupt range is accepted
    r2 = run_wallet_mode(ctx, bindir, s3, 2, "selftest_w2")
    if not r1["mismatches"] or not r2["mismatches"]:
        raise lib.ToolError("selftest: a perturbed wallet prediction was not reported")
    # model side: the two safeguards of BatchRunner.tla are needed (checked inside model_check)
    lib.log("selftest ok (scan_cached_blocks): perturbed position and perturbed verdict rejected")

    # schedules: an unperturbed case passes under every order; one expected note position of the range under test
    # moved by one => reported; an order naming more tasks than exist / the vacuity guard on the drained count
    srng = random.Random(ctx.seed * 104729 + 17)
    fam = sched_family(ctx, d, "fam", shapes="small")
    chosen = sched_pick(srng, fam, [(3, 1), (2, 1)])
    sched_orders(ctx, d, chosen, "selftest")
    cases = [sched_case(ctx, srng, i, c, [{"k": "perm", "p": [x - 1 for x in o]} for o in c["orders"]]) for i, c in enumerate(chosen, start=1)]
    flat = [rg for case in cases for rg in case["ranges"]]
    tlc_eval(ctx, d, flat, "selftest_sched")
    check_generator(flat)
    sched_cross_check(cases)
    ok = run_sched_mode(ctx, bindir, cases, "selftest_s0")
    if ok["mismatches"] or ok["cases"] != len(cases):
        raise lib.ToolError("selftest: unperturbed schedule cases mismatch: %s" % (ok["mismatches"][:1],))
    if any({sum(x) for x in pc["drained"]} != {c["conf"]["n"]} for pc, c in zip(ok["per_case"], cases)) \
            or not ok["stats"].get("non_identity_orders_applied"):
        raise lib.ToolError("selftest: the hook did not drain the tasks the model predicts: %s" % ok["per_case"])
    c2 = json.loads(json.dumps(cases))
    tgt = next(b for b in c2[0]["ranges"][-1]["exp"]["res"] if b["recv"])
    tgt["recv"][-1]["pos"] += 1
    r1 = run_sched_mode(ctx, bindir, c2, "selftest_s1")
    if not any(m["case"] == c2[0]["id"] for m in r1["mismatches"]) or any(m["case"] == c2[1]["id"] for m in r1["mismatches"]):
        raise lib.ToolError("selftest: a perturbed note position of a schedule case was not reported (or the other case was)")
    # the model claiming one more task than the code makes must trip the vacuity guard
    c3 = json.loads(json.dumps(cases))
    c3[0]["conf"]["n"] += 1
    ok["incomplete"] = False
    try:
        sched_vacuity(ctx, ok, c3, len(c3))
    except lib.ToolError as e:
        if "drained" not in str(e):
            raise
    else:
        raise lib.ToolError("selftest: a wrong task count did not trip the schedule vacuity guard")
    lib.log("selftest ok (schedules): %d + %d completion orders pass unperturbed, a perturbed position is reported under the reference "
            "and every order, a wrong task count trips the vacuity guard" % (len(cases[0]["orders"]), len(cases[1]["orders"])))
    # the known-finding filter excuses exactly (kind, message fragment) of an open entry
    fnd = {"txid_len": {"id": "x", "match": {"corruption": "txid_len", "outcome": "panic", "panic_contains": "copy_from_slice"}}}
    if header_excuse(fnd, "txid_len", ["copy_from_slice: source slice length (31)"]) is None \
            or header_excuse(fnd, "txid_len", ["index out of bounds"]) is not None \
            or header_excuse(fnd, "hash_len", ["copy_from_slice: x"]) is not None \
            or header_excuse({}, "txid_len", ["copy_from_slice: x"]) is not None:
        raise lib.ToolError("selftest: the known-finding filter does not excuse exactly the listed (kind, message)")
    lib.log("selftest ok: a panic of another kind / with another message / with no open entry is not excused")
