"""C08M - development entry point for the multi-step part of C08 (checks/c08_multistep.py): `bin/check C08M`,
`bin/check C08M --selftest`, `bin/mutant-run <patch> C08M`.  The registered check is C08 (checks/c08.py calls
c08_multistep.run_part / selftest_part / replay_part); this module is not in MANIFEST.json and writes no evidence."""
import json

from . import c08_multistep, lib


def run(ctx):
    totals = c08_multistep.run_part(ctx)
    lib.log("multi-step part: states=%d transitions=%d traces=%d %s" % (ctx.states, ctx.transitions, ctx.traces, json.dumps(totals, sort_keys=True)))


def selftest(ctx):
    c08_multistep.selftest_part(ctx)


def replay(ctx, path):
    with open(path) as f:
        rep = json.load(f)
    c08_multistep.replay_part(ctx, rep)
