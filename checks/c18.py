"""C18 -- a committed pool migration advances safely and survives persistence.

spec/Migration/MigrationState.tla    the state, the planning kernel (DeadSet, NextStep ...), one
                                     operator per public mutator of MigrationState
spec/Migration/AdvanceMigration.tla  advance_migration's phases with the store's oracle as
                                     environment, and the property's clauses about one drive call
spec/Migration/MC_Migration.tla      the state machine: every order of life-cycle events and drive
                                     calls; step clauses (Forward, TerminalSticky, MinedClean,
                                     MarksBacked, BroadcastSafe, ProveSafe, RebuildSafe,
                                     NoSilentStrand, ...) as INVARIANT NoViolation; edge emission
spec/Migration/MigrationStore.tla    the store: Replace / Get (pending only) / history, <= 1
                                     pending migration per account

1. TLC, breadth first, two transactions, every dependency shape / kind / expiry combination of the
   configuration and every event order: the clauses hold in the model (a counterexample on the
   model alone is a tool error).
2. R (spec -> code): every edge TLC prints -- all edges leaving the shallow part of the
   breadth-first graph, and the edges of a seeded `-simulate` walk over three (thorough: four)
   transactions with resets to arbitrary consistent states -- is executed by c18_replay on the
   real MigrationState (public mutators, advance_migration over a scripted store answering what
   the edge's environment chose); state, step, observers are compared with the prediction, the
   property's clauses are evaluated directly on the real results, and the real state is saved and
   loaded through the memory store (every edge) and the SQLite store over a real wallet database
   (every k-th edge), plus states from the crate's own generators.
3. V (code -> spec), the store INSIDE a wallet: spec/Migration/WalletStore.tla (the persisted migrations of
   two accounts, the note reservations their never-broadcast rows hold, the chain the wallet has scanned;
   Persist / UpdateTx / StoreProved / TakeForBroadcast / Cancel / Rewind(settled height) / Scan / Block / Lock;
   RollbackLaw, HistoryLaw, OneNonTerminal, ReservationsLaw, OracleLaw) is model-checked in the small, and
   c18_store_driver runs seeded random histories of these events against the real PoolMigrations store of a
   real SQLite wallet on the harness chain (fabricated blocks mine the migrations' transaction ids; rewinds by
   truncate_to_height / truncate_to_chain_state / rewind_to_chain_state, with and without a different
   continuation); after EVERY event every record of both accounts is loaded back and logged, and
   Trace_WalletStore.tla validates every line.
"""
import json
import os

from . import lib

AREA = "Migration"
OPS = ["advance", "mark_broadcast", "mark_mined", "prove", "report", "sign", "truncate", "record",
       "supersede", "cancel", "recompute"]
STEPS = ["broadcast", "prove", "rebuild", "replan", "reevaluate", "waiting", "complete"]

BFS_SMALL = dict(N=2, HSet="{22}", SchedSet="{21}", ExpirySet="{0, 21}", BndSet="{10}", PctSet="{20}",
                 TolSet="{16}", CvSet="{1}", InitSt='{"S"}', KindSet='{"prep", "xfer"}',
                 AnsSet='{"sat", "spent"}', EstKs="{1, 3}", MinedSets='"some"')
BFS_MID = dict(BFS_SMALL, HSet="{21, 22}", ExpirySet="{0, 22}", EstKs="{1}")
BFS_BIG = dict(BFS_SMALL, HSet="{21, 22}", ExpirySet="{0, 22}", AnsSet='{"sat", "notyet", "spent"}')
BFS_SIGN = dict(BFS_SMALL, InitSt='{"A", "S"}', KindSet='{"xfer"}', ExpirySet="{0}", PctSet="{50}")
BFS_ONE = dict(BFS_SMALL, N=1, HSet="{21, 22}", ExpirySet="{0, 22}", InitSt='{"A", "S"}',
               AnsSet='{"sat", "notyet", "spent", "expired"}', EstKs="{1, 3}")
BFS_PROVE3 = dict(BFS_SMALL, N=3, HSet="{22}", ExpirySet="{0}", AnsSet='{"sat", "notyet"}', EstKs="{1}")
SIM = dict(N=3, HSet="{21, 22, 23, 24, 25}", SchedSet="{20, 21, 22, 23, 25}", ExpirySet="{0, 22, 24, 60, 61}",
           BndSet="{9, 10, 11, 12, 13, 15}", PctSet="{0, 20, 50, 100}", TolSet="{16, 33}", CvSet="{1, 2, 5}",
           InitSt='{"S"}', KindSet='{"prep", "xfer"}', AnsSet='{"sat"}', EstKs="{1}", MinedSets='"some"')


def write_cfg(path, consts, sim=False, emit=False, emit_level=0, reset_every=15):
    c = dict(consts)
    with open(path, "w") as f:
        f.write("SPECIFICATION Spec\nCONSTANTS\n")
        f.write("  AnchorDepth = 10\n  FarEst = 45\n")
        f.write("  SimMode = %s\n  Emit = %s\n  EmitLevel = %d\n  ResetEvery = %d\n"
                % ("TRUE" if sim else "FALSE", "TRUE" if emit else "FALSE", emit_level, reset_every))
        for k, v in c.items():
            f.write("  %s = %s\n" % (k, v))
        f.write("INVARIANTS NoViolation WellFormed\nCHECK_DEADLOCK FALSE\n")


def edges_of(res, path):
    """Writes the EDGE payloads of a TLC run as ndjson (one unescape, no second parse)."""
    pre = '<<"EDGE", '
    n = 0
    with open(path, "w") as o:
        for line in res.out.splitlines():
            if line.startswith(pre) and line.endswith(">>"):
                o.write(json.loads(line[len(pre):-2]) + "\n")
                n += 1
    return n


def replay_edges(ctx, bindir, path, sqlite_every=0, arb=0, timeout=1500):
    args = [path]
    if sqlite_every:
        args += ["--sqlite", str(sqlite_every)]
    if arb:
        args += ["--arb", str(arb)]
    p = lib.run_bin(os.path.join(bindir, "c18_replay"), args, env_extra={"VERIF_SEED": str(ctx.seed)},
                    timeout=timeout)
    res = json.loads(p.stdout.strip().splitlines()[-1])
    if "tool_error" in res:
        raise lib.ToolError(res["tool_error"])
    return res


def judge(ctx, res, what):
    for m in res["mismatches"][:3]:
        probs = m["problems"]
        lib.violation(ctx, {"property": "C18", "kind": "edge", "edge": m["edge"], "seed": ctx.seed, "from": what},
                      "migration edge %s on %s: %s"
                      % (json.dumps(m["edge"]["ev"]), json.dumps(m["edge"]["pre"]),
                         "; ".join("%s: %s" % (p["class"], p["detail"]) for p in probs[:4])))
    for b in res.get("arb_bad", [])[:2]:
        lib.violation(ctx, {"property": "C18", "kind": "arb", "arb_seed": b["arb_seed"], "arb_index": b["arb_index"]},
                      "generated migration state does not survive a save/load cycle: %s (%s)"
                      % (b["detail"], b["state"][:300]))


def add_counts(total, res):
    for k in ("by_op", "by_step"):
        for a, n in res[k].items():
            total[k][a] = total[k].get(a, 0) + n
    for k in ("edges", "sqlite_round_trips", "arb_states", "distinct_nontrivial"):
        total[k] += res[k]


# ------------------------------------------------------------------------------------------------
# part 3: the store inside a wallet database (trace validation)

STORE_MC = [("MC_WalletStore_history.cfg", True), ("MC_WalletStore_accounts.cfg", True), ("MC_WalletStore.cfg", False)]
STORE_ACTIONS = ["DoFresh", "DoMove", "DoUpdate", "DoProve", "DoTake", "DoCancel", "DoLock", "DoBlock",
                 "DoScan", "DoRewind"]   # (DoUpdateErr is a refusal: it changes nothing, TLC counts no state for it)


def store_model(ctx, d):
    """TLC on WalletStore.tla alone: every order of store events, scans and rewinds in the small; the laws
    (RollbackLaw, RefusedRewindLaw, HistoryLaw, ReleaseLaw, ScanLaw as action properties; OneNonTerminal,
    RidsUnique, ReservationsLaw, MinedBacked as invariants)."""
    for cfg, in_quick in STORE_MC:
        if ctx.quick() and not in_quick:
            continue
        r = lib.tlc(ctx, d, "MC_WalletStore", cfg, workers=8, timeout=1200, coverage=not ctx.quick())
        lib.account_tlc(ctx, r)
        if not ctx.quick():
            lib.require_coverage(r, STORE_ACTIONS + (["DoRewindRefused"] if "history" in cfg else []))
        elif r.distinct < 20000:
            raise lib.ToolError("vacuity: %s explored only %d states" % (cfg, r.distinct))


def store_trace(ctx, bindir, path, histories, events, seed, real=0):
    p = lib.run_bin(os.path.join(bindir, "c18_store_driver"), [path, str(histories), str(events), str(real)],
                    env_extra={"VERIF_SEED": str(seed)}, timeout=3000)
    return json.loads(p.stdout.strip().splitlines()[-1])


def store_verdict(ctx, d, path, what):
    """Validates the trace; on rejection reports the first line the specification does not allow."""
    ok, n, detail, r = lib.tlc_validate(ctx, d, "Trace_WalletStore", "Trace_WalletStore.cfg", path, timeout=2400,
                                        env_extra={"EXPLAIN": "0"})
    if ok:
        return True, n
    with open(path) as f:
        lines = f.readlines()
    rec = json.loads(lines[n - 1]) if 0 < n <= len(lines) else {}
    # the history the line belongs to, from its reset on (what led up to it)
    k0 = max([i for i in range(n) if json.loads(lines[i]).get("a") == "reset"] or [0])
    brief = [{k: v for k, v in json.loads(l).items() if k != "post"} for l in lines[k0:n]]
    # the specification's state next to the logged one, when it is the projection that disagrees
    explain = ""
    try:
        _, _, _, r2 = lib.tlc_validate(ctx, d, "Trace_WalletStore", "Trace_WalletStore.cfg", path, timeout=2400,
                                       env_extra={"EXPLAIN": "1"})
        for t in r2.tuples("EXPLAIN"):
            if t.startswith("%d," % n):
                explain = " | specification state: " + " ".join(t.split())[:1500]
                break
    except lib.ToolError:
        pass
    ev = {k: v for k, v in rec.items() if k != "post"}
    what = dict(what, index=n, event=ev, history=brief[-40:], logged=rec.get("post"))
    lib.violation(ctx, what,
                  "the real wallet's pool-migration store left the specification at trace line %d: event %s; loaded back: %s%s"
                  % (n, json.dumps(ev)[:700], json.dumps(rec.get("post"))[:1500], explain))
    return False, n


def store_part(ctx, bindir, d):
    store_model(ctx, d)
    # random histories over fabricated migrations + histories of a migration the engine itself plans, commits and
    # proves (real Halo 2 proofs, the broadcast seam's success path, the prover's own reservations)
    histories, events, real = (8, 80, 1) if ctx.quick() else (60, 150, 3)
    path = ctx.path("store_trace.ndjson")
    st = store_trace(ctx, bindir, path, histories, events, ctx.seed, real)
    lib.log("[store] %d lines; events %s; rewinds ok %d (un-mined a row: %d, spared mined rows: %d, refused: %d conflict / %d wallet, "
            "forked %d, below mined rows of policy-terminal history %d), Complete revoked %d; oracle answers %d (mined %d, "
            "withheld above the scanned region %d, %s); releases %d; real migrations completed %d (proofs %d, handed out for "
            "broadcast %d)"
            % (st["lines"], st["events"], st["rewinds_ok"], st["rewinds_demoting"], st["rewinds_sparing"],
               st["rewinds_refused_conflict"], st["rewinds_refused_wallet"], st["rewinds_forked"], st["rewinds_below_history"],
               st["uncompleted"], st["oracle_answers"], st["oracle_mined_some"], st["oracle_withheld"], st["oracle_sat"],
               st["releases"], st["real_completed"], st["real_proofs"], st["takes_ok"]))
    ok, n = store_verdict(ctx, d, path, {"property": "C18", "kind": "store_trace", "seed": ctx.seed, "histories": histories,
                                         "events": events, "real": real})
    if not ok:
        return
    if st["panics"]:
        raise lib.ToolError("store driver recorded %d panics that the trace accepted" % st["panics"])
    # vacuity guards
    # (the scripted first history alone reaches every category once or more, whatever the seed)
    f = 1 if ctx.quick() else 4
    need = {"rewinds_demoting": 3 * f, "rewinds_sparing": 2 * f, "oracle_answers": 300 * f, "oracle_mined_some": 15 * f,
            "releases": 1 * f, "rewinds_forked": 2 * f, "terminal_persists": 4 * f, "cancels_pending": 1 * f,
            "rewinds_below_history": 1 * f, "rewinds_refused_conflict": 1, "uncompleted": 1 * f, "real_completed": real,
            "real_proofs": 2 * real, "takes_ok": 2 * real}
    low = ["%s=%d<%d" % (k, st[k], v) for k, v in need.items() if st[k] < v]
    for e in ("persist", "update_tx", "store_proved", "take", "cancel", "rewind", "scan", "block", "lock", "oracle"):
        if st["events"].get(e, 0) < 3:
            low.append("event %s" % e)
    if st["accounts_used"] != 2:
        low.append("accounts_used=%d" % st["accounts_used"])
    if st["scan_errors"] * 3 > histories:
        low.append("scan_errors=%d" % st["scan_errors"])
    if low:
        raise lib.ToolError("vacuity (store trace): %s" % ", ".join(low))
    ctx.traces += n
    ctx.extra["store_trace"] = st
    with open(path) as fh:
        for k, line in enumerate(fh):
            e = json.loads(line)
            if e["a"] == "rewind" and e["res"] == "ok" and k % 7 == 0:
                ctx.add_sample({k2: v for k2, v in e.items() if k2 not in ("post", "err")}, cap=8)


def run(ctx):
    bindir = lib.cargo_build("h_wallet", ["c18_replay", "c18_store_driver"])
    d = lib.stage_specs(ctx, AREA)
    for m in ("MC_Migration.tla", "MigrationStore.tla", "MC_WalletStore.tla", "Trace_WalletStore.tla"):
        lib.sany(os.path.join(d, m))

    total = {"by_op": {}, "by_step": {}, "edges": 0, "sqlite_round_trips": 0, "arb_states": 0, "distinct_nontrivial": 0}

    # (0) the store model: <= 1 pending migration per account, Get o Replace = id, history retained
    rs = lib.tlc(ctx, d, "MigrationStore", "MigrationStore.cfg", workers=4, timeout=600)
    lib.require_coverage(rs, ["Replace", "Update", "Cancel", "Rollback"])
    lib.account_tlc(ctx, rs)

    # (3) the store inside a wallet database: model + trace validation of the real SQLite store
    store_part(ctx, bindir, d)
    if ctx.violations:
        return

    # (1)+(2a) breadth first over two transactions: invariants on the whole graph, and every edge
    # leaving a state at most `level` deep replayed on the real code
    runs = [("small", BFS_SMALL, 3), ("sign", BFS_SIGN, 3), ("one", BFS_ONE, 100)] if ctx.quick() else \
           [("small", BFS_SMALL, 4), ("sign", BFS_SIGN, 5), ("one", BFS_ONE, 100), ("prove3", BFS_PROVE3, 2)]
    for name, consts, level in runs:
        cfg = "Bfs_%s.cfg" % name
        write_cfg(os.path.join(d, cfg), consts, emit=True, emit_level=level)
        r = lib.tlc(ctx, d, "MC_Migration", cfg, workers=1, timeout=1500, coverage=False)
        lib.account_tlc(ctx, r)
        path = ctx.path("edges_bfs_%s.ndjson" % name)
        n = edges_of(r, path)
        if n == 0:
            raise lib.ToolError("no edges emitted by %s" % cfg)
        res = replay_edges(ctx, bindir, path, sqlite_every=40)
        if res["edges"] != n:
            raise lib.ToolError("replay consumed %d of %d edges" % (res["edges"], n))
        lib.log("[replay] bfs %s: %d edges, %d bad, steps %s" % (name, n, res["bad_edges"], res["by_step"]))
        judge(ctx, res, "bfs_" + name)
        add_counts(total, res)
    if not ctx.quick():
        for name, consts in (("mid", BFS_MID), ("big", BFS_BIG)):
            cfg = "Mc_%s.cfg" % name
            write_cfg(os.path.join(d, cfg), consts)
            r = lib.tlc(ctx, d, "MC_Migration", cfg, workers=8, timeout=3000, coverage=False)
            lib.account_tlc(ctx, r)

    # (2b) seeded simulation: three (thorough: also four) transactions, wide heights, every oracle
    # answer, resets to arbitrary consistent states
    sims = [(3, 30000, ctx.seed)] if ctx.quick() else \
           [(3, 80000, ctx.seed), (4, 80000, ctx.seed + 1000), (2, 40000, ctx.seed)]
    for (n_tx, depth, seed) in sims:
        cfg = "Sim_%d_%d.cfg" % (n_tx, seed)
        write_cfg(os.path.join(d, cfg), dict(SIM, N=n_tx), sim=True, emit=True, emit_level=10 ** 9)
        r = lib.tlc(ctx, d, "MC_Migration", cfg, workers=1, timeout=2400, simulate=1, depth=depth, seed=seed,
                    coverage=False)
        ctx.states += r.generated
        ctx.transitions += r.generated
        path = ctx.path("edges_sim_%d_%d.ndjson" % (n_tx, seed))
        n = edges_of(r, path)
        if n < depth // 2:
            raise lib.ToolError("simulation emitted only %d edges" % n)
        res = replay_edges(ctx, bindir, path, sqlite_every=10, arb=300 if ctx.quick() else 1000)
        if res["edges"] != n:
            raise lib.ToolError("replay consumed %d of %d edges" % (res["edges"], n))
        lib.log("[replay] sim N=%d seed=%d: %d edges, %d bad, steps %s, %d sqlite round trips, %d generated states"
                % (n_tx, seed, n, res["bad_edges"], res["by_step"], res["sqlite_round_trips"], res["arb_states"]))
        judge(ctx, res, "sim_%d_%d" % (n_tx, seed))
        add_counts(total, res)
        with open(path) as f:
            for k, line in enumerate(f):
                if k in (n // 3, n // 2):
                    e = json.loads(line)
                    ctx.add_sample({"pre": e["pre"], "ev": e["ev"], "ret": e["ret"]})

    # vacuity guards: every event kind and every kind of step was exercised on the real code
    missing = [o for o in OPS if total["by_op"].get(o, 0) == 0] + \
              ["step:" + s for s in STEPS if total["by_step"].get(s, 0) < 5]
    if missing:
        raise lib.ToolError("vacuity: never exercised: %s" % ", ".join(missing))

    ctx.traces = total["edges"]
    ctx.extra["events_replayed"] = total["by_op"]
    ctx.extra["steps_surfaced_by_real_code"] = total["by_step"]
    ctx.extra["sqlite_round_trips"] = total["sqlite_round_trips"]
    ctx.extra["generator_states_round_tripped"] = total["arb_states"]
    lib.mc_evidence(
        ctx,
        rule="each edge [pre-state, event, predicted post-state/step/observers] printed by TLC (all edges leaving "
             "the first levels of the breadth-first graph on 2 transactions; a seeded simulation walk with resets on "
             "3-4 transactions) is executed on the real MigrationState / advance_migration with a scripted store; "
             "distinct_nontrivial = distinct (pre, event, result) triples that change the state or are drive calls",
        evaluations=total["edges"], distinct_nontrivial=total["distinct_nontrivial"],
        extra={"exhaustive": False},
        assumptions=[
            "heights are mapped into one bucket of the anchor grid (base 1008020) so that the overdue shift's anchor "
            "redraw has no candidate and keeps the boundary; the redraw itself belongs to C17",
            "mark_broadcast / mark_mined / set_transaction_proved are driven under their documented contract "
            "(on a Proved / Broadcast / Signed row)",
            "Complete is revocable by a rollback that un-mines a row (documented); Advance.next (the advisory outlook) "
            "is not modelled beyond 'None after Complete/Replan/Reevaluate/Rebuild'",
            "in the drive-call model the store's satisfiability oracle and mined_height are the environment (scripted); the "
            "SQLite oracle's own answers are judged by the store trace (part 3) against the harness chain",
            "store trace: a mined migration transaction is a fabricated compact transaction carrying the row's transaction "
            "id, spending the row's input notes and paying the migrating account (so the wallet keeps a row for it); stored "
            "PCZTs are real PCZTs carrying only an Orchard anchor; the anchor judgment is held to soundness (it may conclude "
            "only what the chain confirms), not to completeness; for these the broadcast seam is driven on its refusals only "
            "(not proved / unknown row / bytes that do not extract) -- its success path is driven by the histories of a real "
            "migration (one 0.0152 ZEC note: one preparation, one transfer; planned, committed and proved by the engine over "
            "the wallet adapter on an 8-block anchor grid)",
            "store trace: the chain is replaced only at or above the frontier the last scan inserted (a rewind below it is "
            "the open C06 finding about stale frontiers, not this property's subject)",
        ])


def replay(ctx, path):
    bindir = lib.cargo_build("h_wallet", ["c18_replay"])
    with open(path) as f:
        rep = json.load(f)
    if rep.get("kind") == "store_trace":
        bindir = lib.cargo_build("h_wallet", ["c18_store_driver"])
        d = lib.stage_specs(ctx, AREA)
        path = ctx.path("store_trace.ndjson")
        store_trace(ctx, bindir, path, rep["histories"], rep["events"], rep["seed"], rep.get("real", 0))
        ok, n = store_verdict(ctx, d, path, {"property": "C18", "kind": "store_trace", "seed": rep["seed"],
                                             "histories": rep["histories"], "events": rep["events"], "real": rep.get("real", 0)})
        if ok:
            lib.log("replay: the store trace is now accepted (%d lines)" % n)
        return
    if rep.get("kind") == "arb":
        ep = ctx.path("empty.ndjson")
        open(ep, "w").close()
        old = ctx.seed
        ctx.seed = rep["arb_seed"]
        res = replay_edges(ctx, bindir, ep, arb=rep["arb_index"] + 1)
        ctx.seed = old
        res["arb_bad"] = [b for b in res["arb_bad"] if b["arb_index"] == rep["arb_index"]]
        judge(ctx, res, "replay")
        if not res["arb_bad"]:
            lib.log("replay: the generated state now survives the save/load cycle")
        return
    ep = ctx.path("replay_edge.ndjson")
    with open(ep, "w") as f:
        f.write(json.dumps(rep["edge"]) + "\n")
    ctx.seed = rep.get("seed", ctx.seed)
    res = replay_edges(ctx, bindir, ep, sqlite_every=1)
    judge(ctx, res, "replay")
    if not res["mismatches"]:
        lib.log("replay: edge now agrees with the specification")


def store_selftest(ctx, bindir, d):
    """Binding demonstration (V): corrupt one logged field of a fresh store trace -- a mined height, a status, an
    oracle answer, the settled height of a rewind -- or drop one event: TLC must reject at that line."""
    path = ctx.path("store_self.ndjson")
    store_trace(ctx, bindir, path, 4, 70, ctx.seed)
    ok, n, _, _ = lib.tlc_validate(ctx, d, "Trace_WalletStore", "Trace_WalletStore.cfg", path, env_extra={"EXPLAIN": "0"})
    if not ok:
        raise lib.ToolError("selftest: the unperturbed store trace is rejected at %d" % n)
    recs = [json.loads(l) for l in open(path)]

    def rows(e):
        for a in e["post"]["acct"]:
            for r in a["recs"]:
                for t in r["tx"]:
                    yield r, t

    def first(pred, start=20):
        for k in range(start, len(recs)):
            if pred(recs[k]):
                return k
        raise lib.ToolError("selftest: no suitable store event in the sample")

    cases = []
    k = first(lambda e: e["a"] == "rewind" and e["res"] == "ok" and any(t["st"] == "M" for _, t in rows(e)))
    e = json.loads(json.dumps(recs[k]))
    next(t for _, t in rows(e) if t["st"] == "M")["mh"] += 1
    cases.append(("mined height after a rewind", k, e))
    k = first(lambda e: e["a"] == "rewind" and e["res"] == "ok" and any(t["st"] == "B" for _, t in rows(e)))
    e = json.loads(json.dumps(recs[k]))
    t = next(t for _, t in rows(e) if t["st"] == "B")
    t["st"], t["mh"] = "M", e["to"] + 1
    cases.append(("a row left mined above the settled height", k, e))
    k = first(lambda e: e["a"] in ("persist", "cancel") and any(r["status"] == "cancelled" for r, _ in rows(e)))
    e = json.loads(json.dumps(recs[k]))
    next(r for r, _ in rows(e) if r["status"] == "cancelled")["status"] = "in_progress"
    cases.append(("status loaded back", k, e))
    k = first(lambda e: e["a"] == "oracle" and any(q["mh"] >= 0 for q in e["q"]))
    e = json.loads(json.dumps(recs[k]))
    next(q for q in e["q"] if q["mh"] >= 0)["mh"] = -1
    cases.append(("oracle: mined height withheld", k, e))
    k = first(lambda e: e["a"] == "oracle" and any(q["k"] == "sat" for q in e["q"]))
    e = json.loads(json.dumps(recs[k]))
    next(q for q in e["q"] if q["k"] == "sat")["k"] = "spent"
    cases.append(("oracle: satisfiability answer", k, e))
    k = first(lambda e: e["a"] in ("persist", "cancel") and any(a["locked"] for a in e["post"]["acct"]))
    e = json.loads(json.dumps(recs[k]))
    next(a for a in e["post"]["acct"] if a["locked"])["locked"].pop()
    cases.append(("reservation released early", k, e))
    for name, k, e in cases + [("dropped event", first(lambda e: e["a"] == "persist"), None)]:
        pp = ctx.path("store_perturbed.ndjson")
        with open(pp, "w") as f:
            for j, r in enumerate(recs):
                if j == k:
                    if e is None:
                        continue
                    r = e
                f.write(json.dumps(r) + "\n")
        ok, n, _, _ = lib.tlc_validate(ctx, d, "Trace_WalletStore", "Trace_WalletStore.cfg", pp, env_extra={"EXPLAIN": "0"})
        if ok or n != k + 1:
            raise lib.ToolError("selftest: store trace with %s at line %d: %s" % (name, k + 1, "accepted" if ok else "rejected at %d" % n))
        lib.log("selftest ok: store trace with %s rejected at line %d" % (name, n))


def selftest(ctx):
    """Binding demonstration (R): perturb one expected value of a fresh edge -- a row's state in the
    predicted post-state, the predicted step, an observer -- and require the harness to report each."""
    bindir = lib.cargo_build("h_wallet", ["c18_replay"])
    d = lib.stage_specs(ctx, AREA)
    cfg = "Self.cfg"
    write_cfg(os.path.join(d, cfg), dict(SIM, N=3), sim=True, emit=True, emit_level=10 ** 9)
    r = lib.tlc(ctx, d, "MC_Migration", cfg, workers=1, timeout=900, simulate=1, depth=4000, seed=ctx.seed, coverage=False)
    path = ctx.path("edges_self.ndjson")
    edges_of(r, path)
    edges = [json.loads(l) for l in open(path)]
    base = replay_edges(ctx, bindir, path)
    if base["bad_edges"]:
        raise lib.ToolError("selftest: unperturbed edges already disagree")

    def one(pred):
        for e in edges:
            if pred(e):
                return json.loads(json.dumps(e))
        raise lib.ToolError("selftest: no suitable edge in the sample")

    cases = []
    e = one(lambda e: e["ev"]["op"] == "advance" and e["ret"]["step"] == "broadcast")
    e["ret"]["step"] = "waiting"
    e["ret"]["ids"] = []
    cases.append(("predicted step", e))
    e = one(lambda e: e["ev"]["op"] == "mark_broadcast")
    e["post"]["tx"][e["ev"]["i"] - 1][2] = "P"
    cases.append(("row state in post", e))
    e = one(lambda e: e["ev"]["op"] == "truncate" and e["pre"] != e["post"])
    e["post"] = e["pre"]
    cases.append(("rollback ignored", e))
    e = one(lambda e: e["ev"]["op"] == "advance" and any(a[7] < 0 <= b[7] for a, b in zip(e["pre"]["tx"], e["post"]["tx"])))
    for a, row in zip(e["pre"]["tx"], e["post"]["tx"]):
        if a[7] < 0 <= row[7]:
            row[7] += 1
    cases.append(("mark stamp", e))
    e = one(lambda e: any(s[0] for s in e["obs"]["status"]))
    for s in e["obs"]["status"]:
        if s[0]:
            s[0] = False
    cases.append(("observer ready flag", e))
    e = one(lambda e: e["ev"]["op"] == "advance" and e["ret"]["dirty"])
    e["ret"]["dirty"] = False
    cases.append(("persist-before-surface flag", e))
    store_selftest(ctx, lib.cargo_build("h_wallet", ["c18_store_driver"]), d)
    for name, e in cases:
        ep = ctx.path("perturbed.ndjson")
        with open(ep, "w") as f:
            f.write(json.dumps(e) + "\n")
        res = replay_edges(ctx, bindir, ep, sqlite_every=1)
        if not res["mismatches"]:
            raise lib.ToolError("selftest: perturbed %s was not reported" % name)
        lib.log("selftest ok: perturbed %s rejected (%s)" % (name, res["mismatches"][0]["problems"][0]["detail"][:100]))
