"""C18 -- a committed pool migration advances safely and survives persistence.

spec/Migration/MigrationState.tla    the state, the planning kernel (DeadSet, NextStep ...), one
                                     operator per public mutator of MigrationState
spec/Migration/AdvanceMigration.tla  advance_migration's phases with the store's oracle as
                                     environment, and the property's clauses about one drive call
spec/Migration/MC_Migration.tla      the state machine: every order of life-cycle events and drive
                                     calls; step clauses (Forward, TerminalSticky, MinedClean,
                                     MarksBacked, BroadcastSafe, ProveSafe, RebuildSafe,
                                     NoSilentStrand, ...) as INVARIANT NoViolation; edge emission
spec/Migration/MigrationStore.tla    the store: Replace / Get (pending only) / history, <= 1
                                     pending migration per account

1. TLC, breadth first, two transactions, every dependency shape / kind / expiry combination of the
   configuration and every event order: the clauses hold in the model (a counterexample on the
   model alone is a tool error).
2. R (spec -> code): every edge TLC prints -- all edges leaving the shallow part of the
   breadth-first graph, and the edges of a seeded `-simulate` walk over three (thorough: four)
   transactions with resets to arbitrary consistent states -- is executed by c18_replay on the
   real MigrationState (public mutators, advance_migration over a scripted store answering what
   the edge's environment chose); state, step, observers are compared with the prediction, the
   property's clauses are evaluated directly on the real results, and the real state is saved and
   loaded through the memory store (every edge) and the SQLite store over a real wallet database
   (every k-th edge), plus states from the crate's own generators.
"""
import json
import os

from . import lib

AREA = "Migration"
OPS = ["advance", "mark_broadcast", "mark_mined", "prove", "report", "sign", "truncate", "record",
       "supersede", "cancel", "recompute"]
STEPS = ["broadcast", "prove", "rebuild", "replan", "reevaluate", "waiting", "complete"]

BFS_SMALL = dict(N=2, HSet="{22}", SchedSet="{21}", ExpirySet="{0, 21}", BndSet="{10}", PctSet="{20}",
                 TolSet="{16}", CvSet="{1}", InitSt='{"S"}', KindSet='{"prep", "xfer"}',
                 AnsSet='{"sat", "spent"}', EstKs="{1, 3}", MinedSets='"some"')
BFS_MID = dict(BFS_SMALL, HSet="{21, 22}", ExpirySet="{0, 22}", EstKs="{1}")
BFS_BIG = dict(BFS_SMALL, HSet="{21, 22}", ExpirySet="{0, 22}", AnsSet='{"sat", "notyet", "spent"}')
BFS_SIGN = dict(BFS_SMALL, InitSt='{"A", "S"}', KindSet='{"xfer"}', ExpirySet="{0}", PctSet="{50}")
BFS_ONE = dict(BFS_SMALL, N=1, HSet="{21, 22}", ExpirySet="{0, 22}", InitSt='{"A", "S"}',
               AnsSet='{"sat", "notyet", "spent", "expired"}', EstKs="{1, 3}")
BFS_PROVE3 = dict(BFS_SMALL, N=3, HSet="{22}", ExpirySet="{0}", AnsSet='{"sat", "notyet"}', EstKs="{1}")
SIM = dict(N=3, HSet="{21, 22, 23, 24, 25}", SchedSet="{20, 21, 22, 23, 25}", ExpirySet="{0, 22, 24, 60, 61}",
           BndSet="{9, 10, 11, 12, 13, 15}", PctSet="{0, 20, 50, 100}", TolSet="{16, 33}", CvSet="{1, 2, 5}",
           InitSt='{"S"}', KindSet='{"prep", "xfer"}', AnsSet='{"sat"}', EstKs="{1}", MinedSets='"some"')


def write_cfg(path, consts, sim=False, emit=False, emit_level=0, reset_every=15):
    c = dict(consts)
    with open(path, "w") as f:
        f.write("SPECIFICATION Spec\nCONSTANTS\n")
        f.write("  AnchorDepth = 10\n  FarEst = 45\n")
        f.write("  SimMode = %s\n  Emit = %s\n  EmitLevel = %d\n  ResetEvery = %d\n"
                % ("TRUE" if sim else "FALSE", "TRUE" if emit else "FALSE", emit_level, reset_every))
        for k, v in c.items():
            f.write("  %s = %s\n" % (k, v))
        f.write("INVARIANTS NoViolation WellFormed\nCHECK_DEADLOCK FALSE\n")


def edges_of(res, path):
    """Writes the EDGE payloads of a TLC run as ndjson (one unescape, no second parse)."""
    pre = '<<"EDGE", '
    n = 0
    with open(path, "w") as o:
        for line in res.out.splitlines():
            if line.startswith(pre) and line.endswith(">>"):
                o.write(json.loads(line[len(pre):-2]) + "\n")
                n += 1
    return n


def replay_edges(ctx, bindir, path, sqlite_every=0, arb=0, timeout=1500):
    args = [path]
    if sqlite_every:
        args += ["--sqlite", str(sqlite_every)]
    if arb:
        args += ["--arb", str(arb)]
    p = lib.run_bin(os.path.join(bindir, "c18_replay"), args, env_extra={"VERIF_SEED": str(ctx.seed)},
                    timeout=timeout)
    res = json.loads(p.stdout.strip().splitlines()[-1])
    if "tool_error" in res:
        raise lib.ToolError(res["tool_error"])
    return res


def judge(ctx, res, what):
    for m in res["mismatches"][:3]:
        probs = m["problems"]
        lib.violation(ctx, {"property": "C18", "kind": "edge", "edge": m["edge"], "seed": ctx.seed, "from": what},
                      "migration edge %s on %s: %s"
                      % (json.dumps(m["edge"]["ev"]), json.dumps(m["edge"]["pre"]),
                         "; ".join("%s: %s" % (p["class"], p["detail"]) for p in probs[:4])))
    for b in res.get("arb_bad", [])[:2]:
        lib.violation(ctx, {"property": "C18", "kind": "arb", "arb_seed": b["arb_seed"], "arb_index": b["arb_index"]},
                      "generated migration state does not survive a save/load cycle: %s (%s)"
                      % (b["detail"], b["state"][:300]))


def add_counts(total, res):
    for k in ("by_op", "by_step"):
        for a, n in res[k].items():
            total[k][a] = total[k].get(a, 0) + n
    for k in ("edges", "sqlite_round_trips", "arb_states", "distinct_nontrivial"):
        total[k] += res[k]


def run(ctx):
    bindir = lib.cargo_build("h_wallet", ["c18_replay"])
    d = lib.stage_specs(ctx, AREA)
    for m in ("MC_Migration.tla", "MigrationStore.tla"):
        lib.sany(os.path.join(d, m))

    total = {"by_op": {}, "by_step": {}, "edges": 0, "sqlite_round_trips": 0, "arb_states": 0, "distinct_nontrivial": 0}

    # (0) the store model: <= 1 pending migration per account, Get o Replace = id, history retained
    rs = lib.tlc(ctx, d, "MigrationStore", "MigrationStore.cfg", workers=4, timeout=600)
    lib.require_coverage(rs, ["Replace", "Update", "Cancel", "Rollback"])
    lib.account_tlc(ctx, rs)

    # (1)+(2a) breadth first over two transactions: invariants on the whole graph, and every edge
    # leaving a state at most `level` deep replayed on the real code
    runs = [("small", BFS_SMALL, 3), ("sign", BFS_SIGN, 3), ("one", BFS_ONE, 100)] if ctx.quick() else \
           [("small", BFS_SMALL, 4), ("sign", BFS_SIGN, 5), ("one", BFS_ONE, 100), ("prove3", BFS_PROVE3, 2)]
    for name, consts, level in runs:
        cfg = "Bfs_%s.cfg" % name
        write_cfg(os.path.join(d, cfg), consts, emit=True, emit_level=level)
        r = lib.tlc(ctx, d, "MC_Migration", cfg, workers=1, timeout=1500, coverage=False)
        lib.account_tlc(ctx, r)
        path = ctx.path("edges_bfs_%s.ndjson" % name)
        n = edges_of(r, path)
        if n == 0:
            raise lib.ToolError("no edges emitted by %s" % cfg)
        res = replay_edges(ctx, bindir, path, sqlite_every=40)
        if res["edges"] != n:
            raise lib.ToolError("replay consumed %d of %d edges" % (res["edges"], n))
        lib.log("[replay] bfs %s: %d edges, %d bad, steps %s" % (name, n, res["bad_edges"], res["by_step"]))
        judge(ctx, res, "bfs_" + name)
        add_counts(total, res)
    if not ctx.quick():
        for name, consts in (("mid", BFS_MID), ("big", BFS_BIG)):
            cfg = "Mc_%s.cfg" % name
            write_cfg(os.path.join(d, cfg), consts)
            r = lib.tlc(ctx, d, "MC_Migration", cfg, workers=8, timeout=3000, coverage=False)
            lib.account_tlc(ctx, r)

    # (2b) seeded simulation: three (thorough: also four) transactions, wide heights, every oracle
    # answer, resets to arbitrary consistent states
    sims = [(3, 30000, ctx.seed)] if ctx.quick() else \
           [(3, 80000, ctx.seed), (4, 80000, ctx.seed + 1000), (2, 40000, ctx.seed)]
    for (n_tx, depth, seed) in sims:
        cfg = "Sim_%d_%d.cfg" % (n_tx, seed)
        write_cfg(os.path.join(d, cfg), dict(SIM, N=n_tx), sim=True, emit=True, emit_level=10 ** 9)
        r = lib.tlc(ctx, d, "MC_Migration", cfg, workers=1, timeout=2400, simulate=1, depth=depth, seed=seed,
                    coverage=False)
        ctx.states += r.generated
        ctx.transitions += r.generated
        path = ctx.path("edges_sim_%d_%d.ndjson" % (n_tx, seed))
        n = edges_of(r, path)
        if n < depth // 2:
            raise lib.ToolError("simulation emitted only %d edges" % n)
        res = replay_edges(ctx, bindir, path, sqlite_every=10, arb=300 if ctx.quick() else 1000)
        if res["edges"] != n:
            raise lib.ToolError("replay consumed %d of %d edges" % (res["edges"], n))
        lib.log("[replay] sim N=%d seed=%d: %d edges, %d bad, steps %s, %d sqlite round trips, %d generated states"
                % (n_tx, seed, n, res["bad_edges"], res["by_step"], res["sqlite_round_trips"], res["arb_states"]))
        judge(ctx, res, "sim_%d_%d" % (n_tx, seed))
        add_counts(total, res)
        with open(path) as f:
            for k, line in enumerate(f):
                if k in (n // 3, n // 2):
                    e = json.loads(line)
                    ctx.add_sample({"pre": e["pre"], "ev": e["ev"], "ret": e["ret"]})

    # vacuity guards: every event kind and every kind of step was exercised on the real code
    missing = [o for o in OPS if total["by_op"].get(o, 0) == 0] + \
              ["step:" + s for s in STEPS if total["by_step"].get(s, 0) < 5]
    if missing:
        raise lib.ToolError("vacuity: never exercised: %s" % ", ".join(missing))

    ctx.traces = total["edges"]
    ctx.extra["events_replayed"] = total["by_op"]
    ctx.extra["steps_surfaced_by_real_code"] = total["by_step"]
    ctx.extra["sqlite_round_trips"] = total["sqlite_round_trips"]
    ctx.extra["generator_states_round_tripped"] = total["arb_states"]
    lib.mc_evidence(
        ctx,
        rule="each edge [pre-state, event, predicted post-state/step/observers] printed by TLC (all edges leaving "
             "the first levels of the breadth-first graph on 2 transactions; a seeded simulation walk with resets on "
             "3-4 transactions) is executed on the real MigrationState / advance_migration with a scripted store; "
             "distinct_nontrivial = distinct (pre, event, result) triples that change the state or are drive calls",
        evaluations=total["edges"], distinct_nontrivial=total["distinct_nontrivial"],
        extra={"exhaustive": False},
        assumptions=[
            "heights are mapped into one bucket of the anchor grid (base 1008020) so that the overdue shift's anchor "
            "redraw has no candidate and keeps the boundary; the redraw itself belongs to C17",
            "mark_broadcast / mark_mined / set_transaction_proved are driven under their documented contract "
            "(on a Proved / Broadcast / Signed row)",
            "Complete is revocable by a rollback that un-mines a row (documented); Advance.next (the advisory outlook) "
            "is not modelled beyond 'None after Complete/Replan/Reevaluate/Rebuild'",
            "the store's satisfiability oracle and mined_height are the environment (scripted); the SQLite oracle's "
            "own answers are not judged here",
        ])


def replay(ctx, path):
    bindir = lib.cargo_build("h_wallet", ["c18_replay"])
    with open(path) as f:
        rep = json.load(f)
    if rep.get("kind") == "arb":
        ep = ctx.path("empty.ndjson")
        open(ep, "w").close()
        old = ctx.seed
        ctx.seed = rep["arb_seed"]
        res = replay_edges(ctx, bindir, ep, arb=rep["arb_index"] + 1)
        ctx.seed = old
        res["arb_bad"] = [b for b in res["arb_bad"] if b["arb_index"] == rep["arb_index"]]
        judge(ctx, res, "replay")
        if not res["arb_bad"]:
            lib.log("replay: the generated state now survives the save/load cycle")
        return
    ep = ctx.path("replay_edge.ndjson")
    with open(ep, "w") as f:
        f.write(json.dumps(rep["edge"]) + "\n")
    ctx.seed = rep.get("seed", ctx.seed)
    res = replay_edges(ctx, bindir, ep, sqlite_every=1)
    judge(ctx, res, "replay")
    if not res["mismatches"]:
        lib.log("replay: edge now agrees with the specification")


def selftest(ctx):
    """Binding demonstration (R): perturb one expected value of a fresh edge -- a row's state in the
    predicted post-state, the predicted step, an observer -- and require the harness to report each."""
    bindir = lib.cargo_build("h_wallet", ["c18_replay"])
    d = lib.stage_specs(ctx, AREA)
    cfg = "Self.cfg"
    write_cfg(os.path.join(d, cfg), dict(SIM, N=3), sim=True, emit=True, emit_level=10 ** 9)
    r = lib.tlc(ctx, d, "MC_Migration", cfg, workers=1, timeout=900, simulate=1, depth=4000, seed=ctx.seed, coverage=False)
    path = ctx.path("edges_self.ndjson")
    edges_of(r, path)
    edges = [json.loads(l) for l in open(path)]
    base = replay_edges(ctx, bindir, path)
    if base["bad_edges"]:
        raise lib.ToolError("selftest: unperturbed edges already disagree")

    def one(pred):
        for e in edges:
            if pred(e):
                return json.loads(json.dumps(e))
        raise lib.ToolError("selftest: no suitable edge in the sample")

    cases = []
    e = one(lambda e: e["ev"]["op"] == "advance" and e["ret"]["step"] == "broadcast")
    e["ret"]["step"] = "waiting"
    e["ret"]["ids"] = []
    cases.append(("predicted step", e))
    e = one(lambda e: e["ev"]["op"] == "mark_broadcast")
    e["post"]["tx"][e["ev"]["i"] - 1][2] = "P"
    cases.append(("row state in post", e))
    e = one(lambda e: e["ev"]["op"] == "truncate" and e["pre"] != e["post"])
    e["post"] = e["pre"]
    cases.append(("rollback ignored", e))
    e = one(lambda e: e["ev"]["op"] == "advance" and any(a[7] < 0 <= b[7] for a, b in zip(e["pre"]["tx"], e["post"]["tx"])))
    for a, row in zip(e["pre"]["tx"], e["post"]["tx"]):
        if a[7] < 0 <= row[7]:
            row[7] += 1
    cases.append(("mark stamp", e))
    e = one(lambda e: any(s[0] for s in e["obs"]["status"]))
    for s in e["obs"]["status"]:
        if s[0]:
            s[0] = False
    cases.append(("observer ready flag", e))
    e = one(lambda e: e["ev"]["op"] == "advance" and e["ret"]["dirty"])
    e["ret"]["dirty"] = False
    cases.append(("persist-before-surface flag", e))
    for name, e in cases:
        ep = ctx.path("perturbed.ndjson")
        with open(ep, "w") as f:
            f.write(json.dumps(e) + "\n")
        res = replay_edges(ctx, bindir, ep, sqlite_every=1)
        if not res["mismatches"]:
            raise lib.ToolError("selftest: perturbed %s was not reported" % name)
        lib.log("selftest ok: perturbed %s rejected (%s)" % (name, res["mismatches"][0]["problems"][0]["detail"][:100]))
