"""C08, validators part — Step::from_parts / Proposal::{multi_step, single_step} and the protobuf decode path
(proto::proposal::Proposal::{from_standard_proposal, try_into_standard_proposal}) against the rule
spec/Wallet/ProposalValid.tla.

A selector that only ever produces valid proposals hides a weakened validator from every wallet-level flow,
so the validators are bound directly (spec -> code):

1. TLC evaluates the rule (ProposalValid.tla: payment-pool map, amounts present, references backwards and
   existing, no sum out of range, is_shielding shape, Orchard turnstile with Ironwood active, anchor for a
   shielded bundle, exact balance; across the list: each prior-step output and each chain output consumed at
   most once) on every case of the lattice of MC_ProposalValid.tla (about 52 000 step lists of length 1-3, every
   rule violated alone and together with others, three or four orders in which a built list is handed to
   multi_step) and checks its consequences on the model alone (value conservation of the whole proposal, the
   Orchard pool only drains, shielding shape, ...).  Every case is printed with the verdict: accepted, refused
   while building step k, refused by multi_step — and the set of error classes of the violated rules.
2. c08_validators materialises each case with real notes, addresses, requests and balances and runs it through
   the validators, through the harness's own protobuf encoding + try_into_standard_proposal, and (accepted
   cases) through from_standard_proposal -> bytes -> try_into_standard_proposal and a dozen protobuf-level
   corruptions.  Accept / reject must agree everywhere; the error class must belong to a violated rule (exact
   when one rule is violated); a panic is a disagreement.

The lattice unit is MAX_MONEY / M zatoshis; M (a divisor of MAX_MONEY), the network (main / test, the NU6.3
activation boundary of that network is the Ironwood switch), keys, txids, heights and the confirmations policy
follow VERIF_SEED.

Entry points for checks/c08.py:  run_part(ctx) -> dict,  selftest_part(ctx),  replay_part(ctx, rep).
"""
import json
import os
from concurrent.futures import ThreadPoolExecutor

from . import lib

AREA = "Wallet"
MODULE = "MC_ProposalValid"
INVARIANTS = "InvAgree InvConservation InvTurnstile InvShielding InvFirst InvRange InvCatalogue"
# divisors of MAX_MONEY = 3 * 7 * 2^14 * 5^14, all large enough that the small lattice amounts never overflow
MS = [21, 20, 25, 28, 30, 24, 35, 40, 42]
BUILD_CLASSES = ["BalanceInvalid", "PaymentPoolsMismatch", "PaymentAmountMissing", "ReferenceError", "Overflow",
                 "RequestTotalInvalid", "ShieldingInvalid", "OrchardPoolPayment", "OrchardPoolValueCreation",
                 "MissingShieldedAnchor", "BalanceError"]
LIST_CLASSES = ["ReferenceError", "StepDoubleSpend", "ChainDoubleSpend"]


def m_for(seed):
    return MS[int(seed) % len(MS)]


def write_cfg(path, m, emit):
    with open(path, "w") as f:
        f.write("SPECIFICATION Spec\nCONSTANTS\n  M = %d\n  Emit = %s\nINVARIANTS %s\nCHECK_DEADLOCK FALSE\n"
                % (m, "TRUE" if emit else "FALSE", INVARIANTS))


def emit_cases(ctx, d, m, name):
    """One TLC run: the consequences of the rule are checked on every case (a failure is a tool error, it
    concerns the model alone) and every case is printed with the rule's verdict."""
    cfg = "Emit_ProposalValid_%s.cfg" % name
    write_cfg(os.path.join(d, cfg), m, True)
    r = lib.tlc(ctx, d, MODULE, cfg, workers=8, timeout=900)
    lib.require_coverage(r, ["Eval"])
    cases = r.prints("CASE")
    if 2 * len(cases) != r.distinct:
        raise lib.ToolError("emitted %d cases but TLC found %d distinct states" % (len(cases), r.distinct))
    for i, c in enumerate(cases):
        c["idx"] = i
    path = ctx.path("c08v_cases_%s.ndjson" % name)
    with open(path, "w") as f:
        for c in cases:
            f.write(json.dumps(c) + "\n")
    return path, cases, r


def census(cases):
    """Vacuity guard: every rule must be the only violated rule of some case, and enough cases of every stage."""
    stages, alone = {}, {}
    for c in cases:
        e = c["exp"]
        stages[e["stage"]] = stages.get(e["stage"], 0) + 1
        if len(e["classes"]) == 1:
            k = (e["stage"], e["classes"][0])
            alone[k] = alone.get(k, 0) + 1
    missing = [("build", k) for k in BUILD_CLASSES if alone.get(("build", k), 0) < 5] + \
              [("multi", k) for k in LIST_CLASSES if alone.get(("multi", k), 0) < 5]
    if missing:
        raise lib.ToolError("vacuity: rules never violated alone in the lattice: %s" % missing)
    if stages.get("ok", 0) < 1000 or stages.get("multi", 0) < 500 or stages.get("build", 0) < 10000:
        raise lib.ToolError("vacuity: too few cases per stage: %s" % stages)
    return stages, {"%s:%s" % k: v for k, v in sorted(alone.items())}


def has_t_bin():
    p = os.path.join(lib.HARNESS, "h_wallet_t", "Cargo.toml")
    try:
        with open(p) as f:
            return "c08_validators_t" in f.read()
    except OSError:
        return False


def build(flavour):
    if flavour == "t":
        return os.path.join(lib.cargo_build("h_wallet_t", ["c08_validators_t"]), "c08_validators_t")
    return os.path.join(lib.cargo_build("h_wallet", ["c08_validators"]), "c08_validators")


def flavours():
    return ["plain", "t"] if has_t_bin() else ["plain"]


def replay_cases(exe, cases_path, m, seed):
    p = lib.run_bin(exe, [cases_path, str(m)], env_extra={"VERIF_SEED": str(seed)}, timeout=1500)
    return json.loads(p.stdout.strip().splitlines()[-1])


def describe(mm):
    c = mm["case"]["c"]
    return ("%s: the rule expects %s, the code gave %s; Ironwood %s, steps %s, handed to multi_step in order %s"
            % (mm["kind"], json.dumps(mm["expected"], sort_keys=True), json.dumps(mm["got"], sort_keys=True),
               "active" if c["iw"] else "inactive", json.dumps(c["steps"], sort_keys=True), c["pick"]))


def judge(ctx, res, flavour, m, seed, limit=3):
    for mm in res["mismatches"][:limit]:
        lib.violation(ctx, {"property": "C08", "part": "validators", "kind": mm["kind"], "flavour": flavour, "M": m,
                            "seed": int(seed), "record": mm["case"], "expected": mm["expected"], "got": mm["got"]},
                      "proposal validators (%s build) disagree with ProposalValid.tla — %s" % (flavour, describe(mm)))
    return res["n_mismatch"]


def run_part(ctx):
    d = lib.stage_specs(ctx, AREA)
    lib.sany(os.path.join(d, MODULE + ".tla"))
    pool = ThreadPoolExecutor(max_workers=2)
    # the harness builds (one cargo invocation per package, one after the other) run beside the first TLC run
    building = pool.submit(lambda: [(fl, build(fl)) for fl in flavours()])
    stats = {"runs": []}
    # thorough: two more lattice scalings / worlds
    plans = [(m_for(ctx.seed), ctx.seed)] if ctx.quick() else \
            [(m_for(ctx.seed + k), ctx.seed + 1000 * k) for k in range(3)]
    exes = None
    for (m, seed) in plans:
        path, cases, r = emit_cases(ctx, d, m, "m%d" % m)
        lib.account_tlc(ctx, r)
        stages, alone = census(cases)
        if exes is None:
            exes = building.result()
            stats["flavours"] = [fl for fl, _ in exes]
        futures = [(fl, pool.submit(replay_cases, exe, path, m, seed)) for fl, exe in exes]
        for fl, fut in futures:
            res = fut.result()
            if res["cases"] != len(cases):
                raise lib.ToolError("c08_validators consumed %d of %d cases" % (res["cases"], len(cases)))
            bad = judge(ctx, res, fl, m, seed)
            if not bad:
                if res["judged"] < 0.8 * len(cases) or res["accepted"] < 1000 or res["decode_cases"] < 10000 \
                        or res["roundtrips"] < 500 or res["corruptions"] < 5000 or res["single_step_calls"] < 10000:
                    raise lib.ToolError("vacuity: the replay judged too little: %s" % {k: v for k, v in res.items() if k != "mismatches"})
                if fl == "t" and (res["skipped_transparent_change"] or res["decode_skipped_transparent"]):
                    raise lib.ToolError("the transparent-inputs build skipped transparent cases")
            ctx.traces += res["judged"] + res["decode_cases"] + res["roundtrips"] + res["corruptions"]
            stats["runs"].append({k: v for k, v in res.items() if k != "mismatches"} | {"flavour": fl, "M": m, "seed": seed})
        stats["lattice"] = {"cases": len(cases), "stages": stages, "violated_alone": alone}
        ok = [c for c in cases if c["exp"]["stage"] == "ok" and len(c["c"]["steps"]) > 1]
        rej = [c for c in cases if c["exp"]["stage"] == "multi"]
        for c in (ok[len(ok) // 2:][:1] + rej[len(rej) // 2:][:1]):
            ctx.add_sample({"validators_case": c["c"], "rule_verdict": c["exp"]}, cap=8)
        if ctx.violations:
            break
    pool.shutdown()
    ctx.extra["validators"] = stats
    return stats


def _one(ctx, exe, rec, m, seed, name):
    p = ctx.path("c08v_%s.ndjson" % name)
    with open(p, "w") as f:
        f.write(json.dumps(rec) + "\n")
    return replay_cases(exe, p, m, seed)


def selftest_part(ctx):
    """Binding demonstration (R): perturb the expected verdict / the case and require the harness to object."""
    d = lib.stage_specs(ctx, AREA)
    exe = build("plain")
    m = m_for(ctx.seed)
    path, cases, r = emit_cases(ctx, d, m, "self")

    def first(pred):
        for c in cases:
            if pred(c):
                return json.loads(json.dumps(c))
        raise lib.ToolError("selftest: no suitable case")

    no_t = lambda c: all(ch["p"] != "T" for st in c["c"]["steps"] for ch in st["change"])
    ok1 = first(lambda c: c["exp"]["stage"] == "ok" and c["c"]["sl"] == "single" and c["c"]["steps"][0]["sin"] and no_t(c))
    bal = first(lambda c: c["exp"]["stage"] == "build" and c["exp"]["classes"] == ["BalanceError"] and no_t(c))
    dbl = first(lambda c: c["exp"]["stage"] == "multi" and c["exp"]["classes"] == ["ChainDoubleSpend"] and no_t(c))
    for name, rec in (("ok", ok1), ("bal", bal), ("dbl", dbl)):
        res = _one(ctx, exe, rec, m, ctx.seed, "self_" + name)
        if res["n_mismatch"] or res["judged"] != 1:
            raise lib.ToolError("selftest: the unperturbed case %s is not accepted by the harness: %s" % (name, res["mismatches"][:1]))
    perturbed = []
    x = json.loads(json.dumps(ok1)); x["exp"] = {"stage": "build", "at": 1, "classes": ["BalanceError"], "first": "BalanceError"}
    perturbed.append(("a valid case labelled invalid", x))
    x = json.loads(json.dumps(ok1)); x["c"]["steps"][0]["fee"] += 1
    perturbed.append(("an unbalanced case labelled valid", x))
    x = json.loads(json.dumps(bal)); x["exp"]["classes"] = ["ShieldingInvalid"]
    perturbed.append(("a wrong error class", x))
    x = json.loads(json.dumps(bal)); x["exp"] = {"stage": "ok", "at": 0, "classes": [], "first": ""}
    perturbed.append(("an invalid case labelled valid", x))
    x = json.loads(json.dumps(dbl)); x["exp"]["classes"] = ["StepDoubleSpend"]
    perturbed.append(("a wrong multi_step error class", x))
    x = json.loads(json.dumps(dbl)); x["exp"] = {"stage": "ok", "at": 0, "classes": [], "first": ""}
    perturbed.append(("a double spend labelled valid", x))
    for i, (what, rec) in enumerate(perturbed):
        res = _one(ctx, exe, rec, m, ctx.seed, "self_p%d" % i)
        if not res["n_mismatch"]:
            raise lib.ToolError("selftest: %s was not reported" % what)
    lib.log("selftest ok (validators): %d perturbed expectations reported, the unperturbed cases agree" % len(perturbed))


def replay_part(ctx, rep):
    fl = rep.get("flavour", "plain")
    if fl == "t" and not has_t_bin():
        raise lib.ToolError("replay needs the h_wallet_t binary c08_validators_t")
    exe = build(fl)
    res = _one(ctx, exe, rep["record"], rep["M"], rep["seed"], "replay")
    if judge(ctx, res, fl, rep["M"], rep["seed"], limit=1):
        return
    lib.log("replay: the validators now agree with the specification on this case")
