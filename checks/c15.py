"""C15 — scan-queue dominance rule and sync termination (ScanQueue.tla Layer A, SpanningTree.tla Layer B,
SyncLoop.tla, queue laws of Wallet/Trace_Wallet.tla).

1. TLC checks, for every insertion sequence within the bounds, that the transcribed data structure
   yields the canonical form of the pointwise dominance function (Refines), gap-freeness, canonical
   shape and stickiness of Scanned.
2. Every edge of that state graph is replayed on the real `SpanningTree` (spec -> code), comparing
   `into_vec()` with the Layer-A prediction, at two base heights (one just below u32::MAX).
3. TLC checks SyncLoop.tla: the documented sync client against the queue, with a bounded environment (new
   blocks, rewinds): every client step scans only unscanned blocks and at least one (safety), and under weak
   fairness of the client the loop ends with nothing suggested and everything scanned (liveness).
4. The real wallet: the sync client is played against `suggest_scan_ranges` of the real SQLite wallet on chains
   of 12-260 blocks with notes, partial earlier scans and environment interference; TLC validates the trace
   against Trace_Wallet.tla: after every wallet operation the `scan_queue` table is sorted, gap-free, merged,
   ends at the tip and carries Scanned exactly on the scanned heights; suggestions are exactly the entries of
   priority >= Historic in priority-then-height order; every client step makes progress; the loop terminates
   with everything scanned in no more steps than blocks.
"""
import json
import os

from . import lib
from . import c01

AREA = "ScanQueue"
ACTIONS = ["Insert"]


def write_cfg(path, maxh, maxlen, emit, props=True):
    with open(path, "w") as f:
        f.write("SPECIFICATION Spec\nCONSTANTS\n  MaxH = %d\n  MaxLen = %d\n  EmitDepth = %d\n" % (maxh, maxlen, emit))
        f.write("VIEW View\nINVARIANTS Refines GapFree CanonShape\n")
        if props:
            f.write("PROPERTY Sticky\n")
        f.write("CHECK_DEADLOCK FALSE\n")


def replay_edges(ctx, bindir, edges_path, base):
    p = lib.run_bin(os.path.join(bindir, "c15_replay"), [edges_path, str(base)], timeout=1800)
    return json.loads(p.stdout.strip().splitlines()[-1])


def emit_edges(ctx, d, maxh, maxlen, emit, name):
    cfg = "Emit_%s.cfg" % name
    write_cfg(os.path.join(d, cfg), maxh, maxlen, emit, props=False)
    r = lib.tlc(ctx, d, "ScanQueue", cfg, workers=1, timeout=1500, coverage=False)
    edges = r.prints("EDGE")
    path = ctx.path("edges_%s.ndjson" % name)
    with open(path, "w") as f:
        for e in edges:
            f.write(json.dumps(e) + "\n")
    return path, edges, r


def judge(ctx, res, edges_path, base):
    for m in res["mismatches"][:3]:
        lib.violation(ctx, {"property": "C15", "kind": "spanning_tree_edge", "base": base,
                            "edge": m["edge"], "got": m["got"]},
                      "SpanningTree disagrees with the dominance rule: insertions %s + %s expected %s got %s"
                      % (m["edge"]["pre"], m["edge"]["step"], m["edge"]["vec"], m["got"]))


def run(ctx):
    bindir = lib.cargo_build("h_wallet", ["c15_replay"])
    d = lib.stage_specs(ctx, AREA)
    lib.sany(os.path.join(d, "ScanQueue.tla"))

    # (1) model checking: Layer B refines Layer A, for all insertion sequences within the bounds
    if ctx.quick():
        bounds = [(3, 3)]
    else:
        bounds = [(3, 3), (4, 3), (5, 2)]
    for (maxh, maxlen) in bounds:
        cfg = "MC_%d_%d.cfg" % (maxh, maxlen)
        write_cfg(os.path.join(d, cfg), maxh, maxlen, 0)
        r = lib.tlc(ctx, d, "ScanQueue", cfg, workers=8, timeout=3000)
        lib.require_coverage(r, ACTIONS)
        lib.account_tlc(ctx, r)

    # (2) replay every edge on the real SpanningTree
    total_edges = 0
    distinct = 0
    shape_agree = shape_differs = panics_seen = 0
    emits = [(3, 3, 3, "h3")] if ctx.quick() else [(3, 3, 3, "h3"), (4, 3, 3, "h4"), (5, 2, 2, "h5")]
    for (maxh, maxlen, emit, name) in emits:
        path, edges, r = emit_edges(ctx, d, maxh, maxlen, emit, name)
        if not edges:
            raise lib.ToolError("no edges emitted")
        for base in (1000, 0, 4294967295 - maxh):
            res = replay_edges(ctx, bindir, path, base)
            if res["edges"] != len(edges):
                raise lib.ToolError("replay consumed %d of %d edges" % (res["edges"], len(edges)))
            judge(ctx, res, path, base)
            total_edges += res["edges"]
            shape_agree += res["shape_agree"]
            shape_differs += res["shape_differs"]
            panics_seen += res["panics_seen"]
            distinct = max(distinct, res["distinct_results"])
        ctx.add_sample({"pre": edges[len(edges) // 2]["pre"], "step": edges[len(edges) // 2]["step"],
                        "expected_vec": edges[len(edges) // 2]["vec"]})
        ctx.add_sample({"pre": edges[-1]["pre"], "step": edges[-1]["step"], "expected_vec": edges[-1]["vec"]})
    ctx.traces = total_edges

    # (3) the sync loop: safety and liveness on the model
    d2 = lib.stage_specs(ctx, AREA)
    cfg = "MC_SyncLoop_gen.cfg"
    with open(os.path.join(d2, cfg), "w") as f:
        f.write("SPECIFICATION Spec\nCONSTANTS\n  MaxTop = %d\n  EnvBudget = %d\nINVARIANTS StepBound NoneAboveTop\n"
                "PROPERTIES Progress Terminates\nCHECK_DEADLOCK FALSE\n" % ((5, 3) if ctx.quick() else (6, 3)))
    r = lib.tlc(ctx, d2, "SyncLoop", cfg, workers=8, timeout=3000)
    lib.require_coverage(r, ["UpdateTip", "Scan", "EnvBlock", "EnvRewind"])
    lib.account_tlc(ctx, r)

    # (4) the real wallet's queue and the real sync loop
    wbin = lib.cargo_build("h_wallet", ["c01_driver"])
    wd = ctx.path("wspec")
    os.makedirs(wd, exist_ok=True)
    for a in ("lib", "Wallet"):
        src = lib.spec_dir(a)
        for fn in os.listdir(src):
            if fn.endswith(".tla") or fn.endswith(".cfg"):
                import shutil
                shutil.copy(os.path.join(src, fn), os.path.join(wd, fn))
    plans = [("sync", ["sync-scenarios", "8" if ctx.quick() else "40"]), ("hist", ["8" if ctx.quick() else "40", "70"]),
             ("shards", ["shard-scenarios", "6" if ctx.quick() else "30"])]
    qstats = {"suggest": 0, "client_steps": 0, "syncdone": 0, "queue_states": 0}
    for i, (name, args) in enumerate(plans):
        path = ctx.path("trace_%s.ndjson" % name)
        lib.run_bin(os.path.join(wbin, "c01_driver"), [path] + args, env_extra={"VERIF_SEED": str(ctx.seed * 100 + i), "VERIF_SUGGEST": "1"}, timeout=3000)
        with open(path) as f:
            for line in f:
                rr = json.loads(line)
                if rr["a"] == "suggest":
                    qstats["suggest"] += 1
                    if len(ctx.samples) < 5 and rr["ranges"]:
                        ctx.add_sample({"suggested": rr["ranges"], "queue": rr["post"]["queue"]})
                elif rr["a"] == "scan" and rr.get("client"):
                    qstats["client_steps"] += 1
                elif rr["a"] == "syncdone":
                    qstats["syncdone"] += 1
                if (rr.get("post") or {}).get("chk"):
                    qstats["queue_states"] += 1
        acc, n, detail, _ = lib.tlc_validate(ctx, wd, "Trace_Wallet", "Trace_Wallet.cfg", path, timeout=3000,
                                             env_extra=c01.trace_env(ledger=True))
        if acc:
            ctx.traces += n
        else:
            with open(path) as f:
                lines = f.read().splitlines()
            start = max(k for k in range(n) if json.loads(lines[k])["a"] == "reset")
            lib.violation(ctx, {"property": "C15", "kind": "wallet_trace_rejected", "first_unmatched_event": n,
                                "event": json.loads(lines[n - 1]), "history": [json.loads(x) for x in lines[start:n]]},
                          "event %d of the recorded wallet history is not allowed by Trace_Wallet.tla (scan queue shape / "
                          "suggestion order / client progress / termination): %s" % (n, detail[:1200]))
            break
    if not ctx.violations and (qstats["syncdone"] < 4 or qstats["client_steps"] < 20):
        raise lib.ToolError("vacuity: sync loop not exercised: %s" % qstats)
    ctx.extra["wallet_queue_stats"] = qstats
    ctx.extra["layer_b_shape"] = {"agree": shape_agree, "differs": shape_differs,
                                  "note": "tree shape vs transcription; informational only, never a violation"}
    ctx.extra["panics_observed_after_empty_range"] = panics_seen
    lib.mc_evidence(
        ctx,
        rule="every edge (insertion sequence prefix + one insertion of any of the ranges x 7 priorities x "
             "force flag) of the TLC state graph of ScanQueue.tla within the bounds is replayed on the real "
             "SpanningTree at 3 base heights; distinct_nontrivial = distinct resulting queue vectors",
        evaluations=total_edges, distinct_nontrivial=distinct,
        extra={"exhaustive": True, "bounds": [list(b) for b in bounds]},
        assumptions=["insertions after an empty range may panic (split_at expect); such edges accept a panic or the "
                     "Layer-A result", "tree shape is not part of the property and is not judged"])


def replay(ctx, path):
    bindir = lib.cargo_build("h_wallet", ["c15_replay"])
    with open(path) as f:
        rep = json.load(f)
    if rep.get("kind") == "wallet_trace_rejected":
        wd = ctx.path("wspec")
        os.makedirs(wd, exist_ok=True)
        import shutil
        for a in ("lib", "Wallet"):
            src = lib.spec_dir(a)
            for fn in os.listdir(src):
                if fn.endswith(".tla") or fn.endswith(".cfg"):
                    shutil.copy(os.path.join(src, fn), os.path.join(wd, fn))
        tp = ctx.path("replay_trace.ndjson")
        with open(tp, "w") as f:
            for e in rep["history"]:
                f.write(json.dumps(e) + "\n")
        acc, n, detail, _ = lib.tlc_validate(ctx, wd, "Trace_Wallet", "Trace_Wallet.cfg", tp, env_extra=c01.trace_env(ledger=True))
        if acc:
            lib.log("replay: recorded history is accepted by the specification")
        else:
            lib.violation(ctx, rep, "replayed history still rejected at event %d: %s" % (n, detail[:800]))
        return
    ep = ctx.path("replay_edge.ndjson")
    with open(ep, "w") as f:
        f.write(json.dumps(rep["edge"]) + "\n")
    res = replay_edges(ctx, bindir, ep, rep.get("base", 1000))
    judge(ctx, res, ep, rep.get("base", 1000))
    if not res["mismatches"]:
        lib.log("replay: edge now agrees with the specification")


def selftest(ctx):
    """Binding demonstration: perturb one expected vector and require the harness to report it."""
    bindir = lib.cargo_build("h_wallet", ["c15_replay"])
    d = lib.stage_specs(ctx, AREA)
    path, edges, r = emit_edges(ctx, d, 3, 2, 2, "self")
    e = dict(edges[len(edges) // 2])
    e["vec"] = list(e["vec"]) + [[9, 10, 0]]
    ep = ctx.path("perturbed.ndjson")
    with open(ep, "w") as f:
        f.write(json.dumps(e) + "\n")
    res = replay_edges(ctx, bindir, ep, 1000)
    if not res["mismatches"]:
        raise lib.ToolError("selftest: perturbed expectation was not reported")
    lib.log("selftest ok: perturbed edge rejected")
