"""C15 — scan-queue dominance rule (ScanQueue.tla Layer A, SpanningTree.tla Layer B).

1. TLC checks, for every insertion sequence within the bounds, that the transcribed data structure
   yields the canonical form of the pointwise dominance function (Refines), gap-freeness, canonical
   shape and stickiness of Scanned.
2. Every edge of that state graph is replayed on the real `SpanningTree` (spec -> code), comparing
   `into_vec()` with the Layer-A prediction, at two base heights (one just below u32::MAX).
"""
import json
import os

from . import lib

AREA = "ScanQueue"
ACTIONS = ["Insert"]


def write_cfg(path, maxh, maxlen, emit, props=True):
    with open(path, "w") as f:
        f.write("SPECIFICATION Spec\nCONSTANTS\n  MaxH = %d\n  MaxLen = %d\n  EmitDepth = %d\n" % (maxh, maxlen, emit))
        f.write("VIEW View\nINVARIANTS Refines GapFree CanonShape\n")
        if props:
            f.write("PROPERTY Sticky\n")
        f.write("CHECK_DEADLOCK FALSE\n")


def replay_edges(ctx, bindir, edges_path, base):
    p = lib.run_bin(os.path.join(bindir, "c15_replay"), [edges_path, str(base)], timeout=1800)
    return json.loads(p.stdout.strip().splitlines()[-1])


def emit_edges(ctx, d, maxh, maxlen, emit, name):
    cfg = "Emit_%s.cfg" % name
    write_cfg(os.path.join(d, cfg), maxh, maxlen, emit, props=False)
    r = lib.tlc(ctx, d, "ScanQueue", cfg, workers=1, timeout=1500, coverage=False)
    edges = r.prints("EDGE")
    path = ctx.path("edges_%s.ndjson" % name)
    with open(path, "w") as f:
        for e in edges:
            f.write(json.dumps(e) + "\n")
    return path, edges, r


def judge(ctx, res, edges_path, base):
    for m in res["mismatches"][:3]:
        lib.violation(ctx, {"property": "C15", "kind": "spanning_tree_edge", "base": base,
                            "edge": m["edge"], "got": m["got"]},
                      "SpanningTree disagrees with the dominance rule: insertions %s + %s expected %s got %s"
                      % (m["edge"]["pre"], m["edge"]["step"], m["edge"]["vec"], m["got"]))


def run(ctx):
    bindir = lib.cargo_build("h_wallet", ["c15_replay"])
    d = lib.stage_specs(ctx, AREA)
    lib.sany(os.path.join(d, "ScanQueue.tla"))

    # (1) model checking: Layer B refines Layer A, for all insertion sequences within the bounds
    if ctx.quick():
        bounds = [(3, 3)]
    else:
        bounds = [(3, 3), (4, 3), (5, 2)]
    for (maxh, maxlen) in bounds:
        cfg = "MC_%d_%d.cfg" % (maxh, maxlen)
        write_cfg(os.path.join(d, cfg), maxh, maxlen, 0)
        r = lib.tlc(ctx, d, "ScanQueue", cfg, workers=8, timeout=3000)
        lib.require_coverage(r, ACTIONS)
        lib.account_tlc(ctx, r)

    # (2) replay every edge on the real SpanningTree
    total_edges = 0
    distinct = 0
    shape_agree = shape_differs = panics_seen = 0
    emits = [(3, 3, 3, "h3")] if ctx.quick() else [(3, 3, 3, "h3"), (4, 3, 3, "h4"), (5, 2, 2, "h5")]
    for (maxh, maxlen, emit, name) in emits:
        path, edges, r = emit_edges(ctx, d, maxh, maxlen, emit, name)
        if not edges:
            raise lib.ToolError("no edges emitted")
        for base in (1000, 0, 4294967295 - maxh):
            res = replay_edges(ctx, bindir, path, base)
            if res["edges"] != len(edges):
                raise lib.ToolError("replay consumed %d of %d edges" % (res["edges"], len(edges)))
            judge(ctx, res, path, base)
            total_edges += res["edges"]
            shape_agree += res["shape_agree"]
            shape_differs += res["shape_differs"]
            panics_seen += res["panics_seen"]
            distinct = max(distinct, res["distinct_results"])
        ctx.add_sample({"pre": edges[len(edges) // 2]["pre"], "step": edges[len(edges) // 2]["step"],
                        "expected_vec": edges[len(edges) // 2]["vec"]})
        ctx.add_sample({"pre": edges[-1]["pre"], "step": edges[-1]["step"], "expected_vec": edges[-1]["vec"]})
    ctx.traces = total_edges
    ctx.extra["layer_b_shape"] = {"agree": shape_agree, "differs": shape_differs,
                                  "note": "tree shape vs transcription; informational only, never a violation"}
    ctx.extra["panics_observed_after_empty_range"] = panics_seen
    lib.mc_evidence(
        ctx,
        rule="every edge (insertion sequence prefix + one insertion of any of the ranges x 7 priorities x "
             "force flag) of the TLC state graph of ScanQueue.tla within the bounds is replayed on the real "
             "SpanningTree at 3 base heights; distinct_nontrivial = distinct resulting queue vectors",
        evaluations=total_edges, distinct_nontrivial=distinct,
        extra={"exhaustive": True, "bounds": [list(b) for b in bounds]},
        assumptions=["insertions after an empty range may panic (split_at expect); such edges accept a panic or the "
                     "Layer-A result", "tree shape is not part of the property and is not judged"])


def replay(ctx, path):
    bindir = lib.cargo_build("h_wallet", ["c15_replay"])
    with open(path) as f:
        rep = json.load(f)
    ep = ctx.path("replay_edge.ndjson")
    with open(ep, "w") as f:
        f.write(json.dumps(rep["edge"]) + "\n")
    res = replay_edges(ctx, bindir, ep, rep.get("base", 1000))
    judge(ctx, res, ep, rep.get("base", 1000))
    if not res["mismatches"]:
        lib.log("replay: edge now agrees with the specification")


def selftest(ctx):
    """Binding demonstration: perturb one expected vector and require the harness to report it."""
    bindir = lib.cargo_build("h_wallet", ["c15_replay"])
    d = lib.stage_specs(ctx, AREA)
    path, edges, r = emit_edges(ctx, d, 3, 2, 2, "self")
    e = dict(edges[len(edges) // 2])
    e["vec"] = list(e["vec"]) + [[9, 10, 0]]
    ep = ctx.path("perturbed.ndjson")
    with open(ep, "w") as f:
        f.write(json.dumps(e) + "\n")
    res = replay_edges(ctx, bindir, ep, 1000)
    if not res["mismatches"]:
        raise lib.ToolError("selftest: perturbed expectation was not reported")
    lib.log("selftest ok: perturbed edge rejected")
