"""C15 — scan-queue dominance rule and sync termination (ScanQueue.tla Layer A, SpanningTree.tla Layer B,
SyncLoop.tla, queue laws of Wallet/Trace_Wallet.tla).

1. TLC checks, for every insertion sequence within the bounds, that the transcribed data structure
   yields the canonical form of the pointwise dominance function (Refines), gap-freeness, canonical
   shape and stickiness of Scanned.
2. Every edge of that state graph is replayed on the real `SpanningTree` (spec -> code), comparing
   `into_vec()` with the Layer-A prediction, at two base heights (one just below u32::MAX).
3. TLC checks SyncLoop.tla: the documented sync client against the queue, with a bounded environment (new
   blocks, rewinds): every client step scans only unscanned blocks and at least one (safety), and under weak
   fairness of the client the loop ends with nothing suggested and everything scanned (liveness).
4. The real wallet: the sync client is played against `suggest_scan_ranges` of the real SQLite wallet on chains
   of 12-260 blocks with notes, partial earlier scans and environment interference; TLC validates the trace
   against Trace_Wallet.tla: after every wallet operation the `scan_queue` table is sorted, gap-free, merged,
   ends at the tip and carries Scanned exactly on the scanned heights; suggestions are exactly the entries of
   priority >= Historic in priority-then-height order; every client step makes progress; the loop terminates
   with everything scanned in no more steps than blocks.
5. The wallet-level insertion sequence (WalletQueue.tla): which (range, priority) insertions update_chain_tip,
   scan_complete (Scanned + the FoundNote extension to the shards of the found notes, over EVERY pool) and rewinds
   generate.  TLC checks the small wallet MC_WalletQueue (the local replace_queue_entries equals the global fold of
   the dominance rule, the literal SpanningTree transcription agrees, FoundNote covers the union of the pools'
   extents, nothing between birthday and tip is lost); then every trace of step 4 -- extended by histories whose
   Sapling / Orchard / Ironwood shard boundaries differ -- is validated a second time against Trace_WalletQueue.tla:
   after every operation the whole `scan_queue` table, ranges AND priorities, must be the specification's.
"""
import re
import json
import os

from . import lib
from . import c01

AREA = "ScanQueue"
ACTIONS = ["Insert"]


def write_cfg(path, maxh, maxlen, emit, props=True):
    with open(path, "w") as f:
        f.write("SPECIFICATION Spec\nCONSTANTS\n  MaxH = %d\n  MaxLen = %d\n  EmitDepth = %d\n" % (maxh, maxlen, emit))
        f.write("VIEW View\nINVARIANTS Refines GapFree CanonShape\n")
        if props:
            f.write("PROPERTY Sticky\n")
        f.write("CHECK_DEADLOCK FALSE\n")


def replay_edges(ctx, bindir, edges_path, base):
    p = lib.run_bin(os.path.join(bindir, "c15_replay"), [edges_path, str(base)], timeout=1800)
    return json.loads(p.stdout.strip().splitlines()[-1])


def emit_edges(ctx, d, maxh, maxlen, emit, name):
    cfg = "Emit_%s.cfg" % name
    write_cfg(os.path.join(d, cfg), maxh, maxlen, emit, props=False)
    r = lib.tlc(ctx, d, "ScanQueue", cfg, workers=1, timeout=1500, coverage=False)
    edges = r.prints("EDGE")
    path = ctx.path("edges_%s.ndjson" % name)
    with open(path, "w") as f:
        for e in edges:
            f.write(json.dumps(e) + "\n")
    return path, edges, r


def judge(ctx, res, edges_path, base):
    for m in res["mismatches"][:3]:
        lib.violation(ctx, {"property": "C15", "kind": "spanning_tree_edge", "base": base,
                            "edge": m["edge"], "got": m["got"]},
                      "SpanningTree disagrees with the dominance rule: insertions %s + %s expected %s got %s"
                      % (m["edge"]["pre"], m["edge"]["step"], m["edge"]["vec"], m["got"]))


WQ_INVARIANTS = "FoldEq LayerB Contiguous ScannedExact NoneLost BelowBirthday NoOpenAdjacent ChainedIsUnion SameAsLayerA"


def write_wq_cfg(path, maxops, maxnotes, menu, hyg=False):
    with open(path, "w") as f:
        f.write("SPECIFICATION Spec\nCONSTANTS\n  HLo = 0\n  HHi = 13\n  PruningDepth = 4\n  VerifyLookahead = 2\n"
                "  ShardLeaves = 2\n  Birthday = 2\n  MaxTop = 11\n  MaxOps = %d\n  MaxNotes = %d\n  Menu = %d\n  Hyg = %s\n"
                "VIEW View\nINVARIANTS %s\nPROPERTIES ScanCovers TipMonotone PruneLaw RewindLaw\nCHECK_DEADLOCK FALSE\n"
                % (maxops, maxnotes, menu, "TRUE" if hyg else "FALSE", WQ_INVARIANTS))


def wq_stage(ctx):
    d = ctx.path("wqspec")
    os.makedirs(d, exist_ok=True)
    import shutil
    for a in ("lib", AREA):
        src = lib.spec_dir(a)
        for fn in os.listdir(src):
            if fn.endswith(".tla") or fn.endswith(".cfg"):
                shutil.copy(os.path.join(src, fn), os.path.join(d, fn))
    return d


def wq_validate(ctx, d, path, explain=False):
    return lib.tlc_validate(ctx, d, "Trace_WalletQueue", "Trace_WalletQueue.cfg", path, timeout=3000,
                            env_extra={"EXPLAIN": "1" if explain else "0"})


def wq_stats(res, st):
    """Vacuity statistics printed by Trace_WalletQueue.tla (see TTip / TScan there)."""
    for t in res.tuples("WQSTAT"):
        if t.startswith('"tip"'):
            kind = t.split(",")[1].strip().strip('"')
            st["tip_" + kind] = st.get("tip_" + kind, 0) + 1
            if "shard-above-scanned" in t:
                st["tip_shard_above_scanned"] = st.get("tip_shard_above_scanned", 0) + 1
        elif t.startswith('"prune"'):
            f = [x.strip().strip('"') for x in t.split(",")]
            st["prune_" + f[1]] = st.get("prune_" + f[1], 0) + 1
            for k in f[2:]:
                if k != "-":
                    st["prune_" + k] = st.get("prune_" + k, 0) + 1
        elif t.startswith('"rescan"'):
            st["rescan"] = st.get("rescan", 0) + 1
            if "over-scanned" in t:
                st["rescan_over_scanned"] = st.get("rescan_over_scanned", 0) + 1
        elif t.startswith('"rewind-below"'):
            st["rewind_below"] = st.get("rewind_below", 0) + 1
        elif t.startswith('"rewind"'):
            # (printed once per candidate settling height: counted once per event)
            f = [x.strip().strip('"') for x in t.split(",")]
            seen = st.setdefault("_rewind_events", set())
            if f[1] in seen:
                continue
            seen.add(f[1])
            for k in f[2:]:
                if k != "-":
                    st["rewind_" + k] = st.get("rewind_" + k, 0) + 1
        elif t.startswith('"apart"'):
            st["apart"] = st.get("apart", 0) + 1
        elif t.startswith('"scan"'):
            st["scan_multi_pool"] = st.get("scan_multi_pool", 0) + 1
            if "extents-differ" in t:
                st["scan_extents_differ"] = st.get("scan_extents_differ", 0) + 1
            for pool in re.findall(r"(\w) \|-> TRUE", t):
                st["scan_needs_" + pool] = st.get("scan_needs_" + pool, 0) + 1


def wq_reject(ctx, d, path, n, detail):
    """The first event whose logged scan_queue table is not the specification's: report it with the expected table."""
    with open(path) as f:
        lines = f.read().splitlines()
    start = max(k for k in range(n) if json.loads(lines[k])["a"] == "reset")
    hist = [json.loads(x) for x in lines[start:n]]
    expected = None
    try:
        hp = ctx.path("wq_rejected_history.ndjson")
        with open(hp, "w") as f:
            for e in hist:
                f.write(json.dumps(e) + "\n")
        _, _, _, r = wq_validate(ctx, d, hp, explain=True)
        for line in r.out.splitlines():
            if line.startswith('<<"WQEXPLAIN", '):
                m = re.match(r'<<"WQEXPLAIN", (\d+), (".*")>>$', line)
                if m:
                    expected = json.loads(json.loads(m.group(2)))
                    break
    except Exception:
        expected = None
    ev = json.loads(lines[n - 1])
    lib.violation(ctx, {"property": "C15", "kind": "wallet_queue_priorities", "first_unmatched_event": n,
                        "event": ev, "expected": expected, "history": hist},
                  "event %d (%s) of the recorded wallet history leaves a scan_queue table that is not the dominance rule "
                  "applied to the insertions the documented behaviour of that operation generates (WalletQueue.tla): "
                  "expected %s, wallet has %s [%s]"
                  % (n, ev.get("a"), (expected or {}).get("expected"), (ev.get("post") or {}).get("queue"),
                     json.dumps({k: v for k, v in ev.items() if k != "post"})[:400]))


def run(ctx):
    bindir = lib.cargo_build("h_wallet", ["c15_replay"])
    d = lib.stage_specs(ctx, AREA)
    lib.sany(os.path.join(d, "ScanQueue.tla"))

    # (1) model checking: Layer B refines Layer A, for all insertion sequences within the bounds
    if ctx.quick():
        bounds = [(3, 3)]
    else:
        bounds = [(3, 3), (4, 3), (5, 2)]
    for (maxh, maxlen) in bounds:
        cfg = "MC_%d_%d.cfg" % (maxh, maxlen)
        write_cfg(os.path.join(d, cfg), maxh, maxlen, 0)
        r = lib.tlc(ctx, d, "ScanQueue", cfg, workers=8, timeout=3000)
        lib.require_coverage(r, ACTIONS)
        lib.account_tlc(ctx, r)

    # (2) replay every edge on the real SpanningTree
    total_edges = 0
    distinct = 0
    shape_agree = shape_differs = panics_seen = 0
    emits = [(3, 3, 3, "h3")] if ctx.quick() else [(3, 3, 3, "h3"), (4, 3, 3, "h4"), (5, 2, 2, "h5")]
    for (maxh, maxlen, emit, name) in emits:
        path, edges, r = emit_edges(ctx, d, maxh, maxlen, emit, name)
        if not edges:
            raise lib.ToolError("no edges emitted")
        for base in (1000, 0, 4294967295 - maxh):
            res = replay_edges(ctx, bindir, path, base)
            if res["edges"] != len(edges):
                raise lib.ToolError("replay consumed %d of %d edges" % (res["edges"], len(edges)))
            judge(ctx, res, path, base)
            total_edges += res["edges"]
            shape_agree += res["shape_agree"]
            shape_differs += res["shape_differs"]
            panics_seen += res["panics_seen"]
            distinct = max(distinct, res["distinct_results"])
        ctx.add_sample({"pre": edges[len(edges) // 2]["pre"], "step": edges[len(edges) // 2]["step"],
                        "expected_vec": edges[len(edges) // 2]["vec"]})
        ctx.add_sample({"pre": edges[-1]["pre"], "step": edges[-1]["step"], "expected_vec": edges[-1]["vec"]})
    ctx.traces = total_edges

    # (3) the sync loop: safety and liveness on the model
    d2 = lib.stage_specs(ctx, AREA)
    cfg = "MC_SyncLoop_gen.cfg"
    with open(os.path.join(d2, cfg), "w") as f:
        f.write("SPECIFICATION Spec\nCONSTANTS\n  MaxTop = %d\n  EnvBudget = %d\nINVARIANTS StepBound NoneAboveTop\n"
                "PROPERTIES Progress Terminates\nCHECK_DEADLOCK FALSE\n" % ((5, 3) if ctx.quick() else (6, 3)))
    r = lib.tlc(ctx, d2, "SyncLoop", cfg, workers=8, timeout=3000)
    lib.require_coverage(r, ["UpdateTip", "Scan", "EnvBlock", "EnvRewind"])
    lib.account_tlc(ctx, r)

    # (5a) the wallet-level insertion sequence on the model: MC_WalletQueue
    wqd = wq_stage(ctx)
    lib.sany(os.path.join(wqd, "Trace_WalletQueue.tla"))
    wq_models = [(3, 1, 2, 30000, False), (3, 0, 0, 3000, True)] if ctx.quick() else [(3, 2, 2, 150000, False), (4, 2, 1, 60000, False), (3, 1, 2, 300000, True)]
    for (maxops, maxnotes, menu, floor, hyg) in wq_models:
        cfg = "MC_WQ_%d_%d_%d%s.cfg" % (maxops, maxnotes, menu, "_hyg" if hyg else "")
        write_wq_cfg(os.path.join(wqd, cfg), maxops, maxnotes, menu, hyg)
        r = lib.tlc(ctx, wqd, "MC_WalletQueue", cfg, workers=8, timeout=3000, coverage=False)
        if r.distinct < floor:
            raise lib.ToolError("vacuity: MC_WalletQueue explored only %d states (%s)" % (r.distinct, cfg))
        lib.account_tlc(ctx, r)

    # (4) the real wallet's queue and the real sync loop
    wbin = lib.cargo_build("h_wallet", ["c01_driver"])
    wd = ctx.path("wspec")
    os.makedirs(wd, exist_ok=True)
    for a in ("lib", "Wallet"):
        src = lib.spec_dir(a)
        for fn in os.listdir(src):
            if fn.endswith(".tla") or fn.endswith(".cfg"):
                import shutil
                shutil.copy(os.path.join(src, fn), os.path.join(wd, fn))
    plans = [("sync", ["sync-scenarios", "8" if ctx.quick() else "40"]), ("hist", ["8" if ctx.quick() else "40", "70"]),
             ("shards", ["shard-scenarios", "6" if ctx.quick() else "30", "pools", "12" if ctx.quick() else "48"])]
    qstats = {"suggest": 0, "client_steps": 0, "syncdone": 0, "queue_states": 0}
    wqstats = {}
    for i, (name, args) in enumerate(plans):
        path = ctx.path("trace_%s.ndjson" % name)
        lib.run_bin(os.path.join(wbin, "c01_driver"), [path] + args, env_extra={"VERIF_SEED": str(ctx.seed * 100 + i), "VERIF_SUGGEST": "1"}, timeout=3000)
        with open(path) as f:
            for line in f:
                rr = json.loads(line)
                if rr["a"] == "suggest":
                    qstats["suggest"] += 1
                    if len(ctx.samples) < 5 and rr["ranges"]:
                        ctx.add_sample({"suggested": rr["ranges"], "queue": rr["post"]["queue"]})
                elif rr["a"] == "scan" and rr.get("client"):
                    qstats["client_steps"] += 1
                elif rr["a"] == "syncdone":
                    qstats["syncdone"] += 1
                if (rr.get("post") or {}).get("chk"):
                    qstats["queue_states"] += 1
        acc, n, detail, _ = lib.tlc_validate(ctx, wd, "Trace_Wallet", "Trace_Wallet.cfg", path, timeout=3000,
                                             env_extra=c01.trace_env(ledger=True))
        if acc:
            ctx.traces += n
            # (5b) the same trace against the wallet-level insertion rules: ranges AND priorities of the whole table
            acc2, n2, detail2, r2 = wq_validate(ctx, wqd, path)
            wq_stats(r2, wqstats)
            if acc2:
                ctx.traces += n2
            else:
                wq_reject(ctx, wqd, path, n2, detail2)
                break
        else:
            with open(path) as f:
                lines = f.read().splitlines()
            start = max(k for k in range(n) if json.loads(lines[k])["a"] == "reset")
            lib.violation(ctx, {"property": "C15", "kind": "wallet_trace_rejected", "first_unmatched_event": n,
                                "event": json.loads(lines[n - 1]), "history": [json.loads(x) for x in lines[start:n]]},
                          "event %d of the recorded wallet history is not allowed by Trace_Wallet.tla (scan queue shape / "
                          "suggestion order / client progress / termination): %s" % (n, detail[:1200]))
            break
    # (6) queue hygiene: prune_scan_queue_below and queue_rescans interleaved with everything else, validated against
    # Trace_WalletQueue.tla only (whole table after every operation)
    if not ctx.violations:
        qpath = ctx.path("trace_queue_ops.ndjson")
        lib.run_bin(os.path.join(wbin, "c01_driver"), [qpath, "queue-ops", "8" if ctx.quick() else "48"],
                    env_extra={"VERIF_SEED": str(ctx.seed * 100 + 7), "VERIF_SUGGEST": "1"}, timeout=3000)
        acc3, n3, detail3, r3 = wq_validate(ctx, wqd, qpath)
        wq_stats(r3, wqstats)
        if acc3:
            ctx.traces += n3
        else:
            wq_reject(ctx, wqd, qpath, n3, detail3)
        if wqstats.get("apart", 0):
            open_ids = {f["id"]: f for f in lib.load_known_findings() if f.get("property") == "C15" and f.get("status") == "open"}
            kf = open_ids.get("C15-insertion-apart-from-queue-leaves-gap")
            if kf:
                lib.known_finding(ctx, "id=%s %s" % (kf["id"], kf["what"][:300]))
            elif not ctx.violations:
                with open(qpath) as f:
                    lines = f.read().splitlines()
                lib.violation(ctx, {"property": "C15", "kind": "wallet_queue_priorities", "first_unmatched_event": 0,
                                    "event": None, "expected": None, "history": [json.loads(x) for x in lines[:80]]},
                              "an insertion apart from the stored queue left the heights between unqueued (the table is not a "
                              "partition of an interval) and known_findings.json does not list that finding as open")
        if wqstats.get("rewind_below", 0):
            open_ids = {f["id"]: f for f in lib.load_known_findings() if f.get("property") == "C15" and f.get("status") == "open"}
            kf = open_ids.get("C15-rewind-above-every-checkpoint-drops-coverage")
            if kf:
                lib.known_finding(ctx, "id=%s %s" % (kf["id"], kf["what"][:300]))
            elif not ctx.violations:
                with open(qpath) as f:
                    lines = f.read().splitlines()
                start = max(k for k in range(len(lines)) if json.loads(lines[k])["a"] == "reset")
                lib.violation(ctx, {"property": "C15", "kind": "wallet_queue_priorities", "first_unmatched_event": 0,
                                    "event": None, "expected": None, "history": [json.loads(x) for x in lines[start:]]},
                              "rewind_to_chain_state settled below its target, dropped scanned blocks at or below the target and did "
                              "not queue them again (heights neither scanned nor queued), and known_findings.json does not list that "
                              "finding as open")
    if not ctx.violations and (qstats["syncdone"] < 4 or qstats["client_steps"] < 20):
        raise lib.ToolError("vacuity: sync loop not exercised: %s" % qstats)
    # what the wallet-level validation must have seen: batches that found notes in two pools with different shard
    # extents in which a pool's own extent decided the table (Sapling, Orchard; Ironwood on the thorough tier), tip
    # updates through the Verify, the ChainTip and the Historic rule, with and without shard metadata
    need = {"scan_extents_differ": 8, "scan_needs_S": 2, "scan_needs_O": 3, "tip_verify": 4, "tip_verify-empty": 1,
            "tip_chaintip": 10, "tip_historic": 10, "tip_historic+shard": 1, "tip_shard_above_scanned": 1,
            "prune_none": 3, "prune_some": 20, "prune_deleted": 5, "prune_demoted": 5, "prune_island": 1,
            "rescan": 10, "rescan_over_scanned": 3, "rewind_trunc": 3, "rewind_none": 2,
            "rewind_removed": 2, "rewind_kept": 1}
    if not ctx.quick():
        need.update({"scan_needs_I": 2, "scan_extents_differ": 30, "tip_shard_above_scanned": 3})
    if not ctx.violations:
        short = {k: (wqstats.get(k, 0), v) for k, v in need.items() if wqstats.get(k, 0) < v}
        if short:
            raise lib.ToolError("vacuity: wallet-level insertion rules not exercised (seen, needed): %s" % short)
    ctx.extra["wallet_queue_stats"] = qstats
    wqstats.pop("_rewind_events", None)
    ctx.extra["wallet_queue_priority_stats"] = wqstats
    ctx.extra["layer_b_shape"] = {"agree": shape_agree, "differs": shape_differs,
                                  "note": "tree shape vs transcription; informational only, never a violation"}
    ctx.extra["panics_observed_after_empty_range"] = panics_seen
    lib.mc_evidence(
        ctx,
        rule="every edge (insertion sequence prefix + one insertion of any of the ranges x 7 priorities x "
             "force flag) of the TLC state graph of ScanQueue.tla within the bounds is replayed on the real "
             "SpanningTree at 3 base heights; distinct_nontrivial = distinct resulting queue vectors",
        evaluations=total_edges, distinct_nontrivial=distinct,
        extra={"exhaustive": True, "bounds": [list(b) for b in bounds]},
        assumptions=["insertions after an empty range may panic (split_at expect); such edges accept a panic or the "
                     "Layer-A result", "tree shape is not part of the property and is not judged"])


def replay(ctx, path):
    bindir = lib.cargo_build("h_wallet", ["c15_replay"])
    with open(path) as f:
        rep = json.load(f)
    if rep.get("kind") == "wallet_trace_rejected":
        wd = ctx.path("wspec")
        os.makedirs(wd, exist_ok=True)
        import shutil
        for a in ("lib", "Wallet"):
            src = lib.spec_dir(a)
            for fn in os.listdir(src):
                if fn.endswith(".tla") or fn.endswith(".cfg"):
                    shutil.copy(os.path.join(src, fn), os.path.join(wd, fn))
        tp = ctx.path("replay_trace.ndjson")
        with open(tp, "w") as f:
            for e in rep["history"]:
                f.write(json.dumps(e) + "\n")
        acc, n, detail, _ = lib.tlc_validate(ctx, wd, "Trace_Wallet", "Trace_Wallet.cfg", tp, env_extra=c01.trace_env(ledger=True))
        if acc:
            lib.log("replay: recorded history is accepted by the specification")
        else:
            lib.violation(ctx, rep, "replayed history still rejected at event %d: %s" % (n, detail[:800]))
        return
    if rep.get("kind") == "wallet_queue_priorities":
        wqd = wq_stage(ctx)
        tp = ctx.path("replay_trace.ndjson")
        with open(tp, "w") as f:
            for e in rep["history"]:
                f.write(json.dumps(e) + "\n")
        acc, n, detail, _ = wq_validate(ctx, wqd, tp)
        if acc:
            lib.log("replay: recorded history is accepted by the wallet-level specification")
        else:
            wq_reject(ctx, wqd, tp, n, detail)
        return
    ep = ctx.path("replay_edge.ndjson")
    with open(ep, "w") as f:
        f.write(json.dumps(rep["edge"]) + "\n")
    res = replay_edges(ctx, bindir, ep, rep.get("base", 1000))
    judge(ctx, res, ep, rep.get("base", 1000))
    if not res["mismatches"]:
        lib.log("replay: edge now agrees with the specification")


def selftest(ctx):
    """Binding demonstration: perturb one expected vector and require the harness to report it."""
    bindir = lib.cargo_build("h_wallet", ["c15_replay"])
    d = lib.stage_specs(ctx, AREA)
    path, edges, r = emit_edges(ctx, d, 3, 2, 2, "self")
    e = dict(edges[len(edges) // 2])
    e["vec"] = list(e["vec"]) + [[9, 10, 0]]
    ep = ctx.path("perturbed.ndjson")
    with open(ep, "w") as f:
        f.write(json.dumps(e) + "\n")
    res = replay_edges(ctx, bindir, ep, 1000)
    if not res["mismatches"]:
        raise lib.ToolError("selftest: perturbed expectation was not reported")
    lib.log("selftest ok: perturbed edge rejected")
    # wallet level: one logged priority changed => Trace_WalletQueue rejects exactly that event; a changed shard end
    # height in a `roots` event => rejected there
    wbin = lib.cargo_build("h_wallet", ["c01_driver"])
    wqd = wq_stage(ctx)
    path = ctx.path("trace_self.ndjson")
    lib.run_bin(os.path.join(wbin, "c01_driver"), [path, "shard-scenarios", "0", "pools", "4"],
                env_extra={"VERIF_SEED": str(ctx.seed), "VERIF_SUGGEST": "1"}, timeout=3000)
    acc, n, _, _ = wq_validate(ctx, wqd, path)
    if not acc:
        raise lib.ToolError("selftest: fresh trace rejected at %d" % n)
    with open(path) as f:
        evs = [json.loads(x) for x in f.read().splitlines()]
    k = next(i for i, e in enumerate(evs) if e["a"] == "scan" and any(q[2] == 4 for q in e["post"]["queue"]))
    bad = json.loads(json.dumps(evs))
    for q in bad[k]["post"]["queue"]:
        if q[2] == 4:
            q[2] = 3
            break
    k2 = next(i for i, e in enumerate(evs) if e["a"] == "roots" and e["post"].get("chk"))
    bad2 = json.loads(json.dumps(evs))
    bad2[k2]["h"] += 1
    for (name, trace, want) in (("priority", bad, k + 1), ("root", bad2, k2 + 1)):
        bp = ctx.path("trace_self_%s.ndjson" % name)
        with open(bp, "w") as f:
            for e in trace:
                f.write(json.dumps(e) + "\n")
        acc, n, _, _ = wq_validate(ctx, wqd, bp)
        if acc or n != want:
            raise lib.ToolError("selftest: perturbed %s at event %d: accepted=%s first rejected=%s" % (name, want, acc, n))
    lib.log("selftest ok: perturbed priority / shard end rejected at their events")
