"""C19 — Equihash verification accepts exactly the valid solutions (spec/Equihash).

1. TLC, on the specification alone: the definition `Valid` and the transcription of `tree_validator`
   accept the same index lists (every table and every list for K=2, sampled tables for K=3), every
   solution has distinct indices in the one canonical order, the constructive (Wagner) characterisation
   is complete, wrong counts are rejected, the minimal encoding round-trips (MC_Equihash, MC_Encoding).
2. Code -> spec: `c19_driver` finds solutions for small parameter sets with its own BLAKE2b path and its
   own Wagner solver, mutates them (every bit of solution/input/nonce, sibling swaps, repeated indices,
   near-solutions that fail exactly one clause, wrong lengths, random strings), calls the real
   `equihash::is_valid_solution` under catch_unwind and logs each call with the independently computed
   rows; TLC (`Trace_Equihash`) evaluates `SolVerdict` on every record and requires verdict equality.
3. The (n,k) grid clause: every pair of the grid with the matching solution length and its neighbours:
   an error, never a panic. Panic classes listed in known_findings.json are reported as KNOWN-FINDING
   (and only those; any other panic stays in the trace and is rejected by TLC -> VIOLATION).
"""
import json
import os

from . import lib

AREA = "Equihash"
INVS = "Agree Shape Complete WrongCount NoRepeats"


# ------------------------------------------------------------------------------------------------
# TLC on the model alone

def write_mc_cfg(path, k, c, nidx, samples, all_lists, rand_lists):
    with open(path, "w") as f:
        f.write("SPECIFICATION Spec\nCONSTANTS\n  K = %d\n  C = %d\n  NIdx = %d\n  Samples = %d\n"
                "  AllLists = %s\n  RandLists = %d\nINVARIANTS %s\nCHECK_DEADLOCK FALSE\n"
                % (k, c, nidx, samples, "TRUE" if all_lists else "FALSE", rand_lists, INVS))


def model_runs(ctx, d):
    runs = [("MC_K2_all.cfg", (2, 1, 4, 0, True, 0))]
    if ctx.quick():
        runs.append(("MC_K3_sampled.cfg", (3, 1, 8, 150, False, 300)))
    else:
        runs.append(("MC_K2_n5_all.cfg", (2, 1, 5, 0, True, 0)))
        runs.append(("MC_K3_sampled.cfg", (3, 1, 8, 1500, False, 1000)))
        runs.append(("MC_K3_c2_sampled.cfg", (3, 2, 9, 600, False, 500)))
    tables_with_solutions = 0
    for cfg, args in runs:
        write_mc_cfg(os.path.join(d, cfg), *args)
        r = lib.tlc(ctx, d, "MC_Equihash", cfg, workers=8, timeout=1500, seed=ctx.seed, coverage=False)
        lib.account_tlc(ctx, r)
        nsol = len(r.tuples("NSOL"))
        if nsol == 0:
            raise lib.ToolError("vacuity: no table with a solution in %s" % cfg)
        tables_with_solutions += nsol
    with open(os.path.join(d, "MC_Encoding.cfg"), "w") as f:
        f.write("CONSTANTS\n  Big = %s\n  EncSamples = %d\n" % (("FALSE", 100) if ctx.quick() else ("TRUE", 400)))
    r = lib.tlc(ctx, d, "MC_Encoding", "MC_Encoding.cfg", workers=1, timeout=1500, seed=ctx.seed, coverage=False)
    ctx.extra["model_tables_with_solutions"] = tables_with_solutions


# ------------------------------------------------------------------------------------------------
# known findings (grid panics)

def matching_len(n, k):
    return ((1 << k) * (n // (k + 1) + 1)) // 8


def params_valid(n, k):
    # only used to *select* which listed finding a panic cell falls under, never to judge a verdict
    return n % 8 == 0 and k >= 3 and k < n and n % (k + 1) == 0


def finding_matches(m, n, k, length, msg):
    if m.get("record") != "grid" or m.get("verdict") != "panic":
        return False
    c = n // (k + 1)
    if "params_valid" in m and m["params_valid"] != params_valid(n, k):
        return False
    for key, val in (("n", n), ("k", k), ("c", c)):
        if key + "_min" in m and val < m[key + "_min"]:
            return False
        if key + "_max" in m and val > m[key + "_max"]:
            return False
    if m.get("length", "any") == "matching" and length != matching_len(n, k):
        return False
    if "expected_len_overflows_u64" in m and m["expected_len_overflows_u64"] != ((1 << k) * (c + 1) >= 1 << 64):
        return False
    if "panic_contains" in m and m["panic_contains"] not in msg:
        return False
    return True


def filter_known(ctx, src, dst):
    """Copies the grid trace, dropping panic cells that fall in a class listed (open) in
    known_findings.json; prints one KNOWN-FINDING line per class observed. Everything else - in
    particular any other panic - stays in the trace for TLC to judge. Returns stats."""
    findings = [f for f in lib.load_known_findings() if f.get("property") == "C19" and f.get("status") == "open"]
    hits = {}
    kept = dropped_cells = 0
    with open(src) as fi, open(dst, "w") as fo:
        for line in fi:
            if '"panic"' not in line:
                fo.write(line)
                kept += 1
                continue
            r = json.loads(line)
            if r.get("t") != "grid":
                fo.write(line)
                kept += 1
                continue
            msgs = r.get("msgs") or [""] * len(r["cells"])
            cells, keep_msgs = [], []
            for cell, msg in zip(r["cells"], msgs):
                f = None
                if cell[2] == "panic":
                    f = next((f for f in findings if finding_matches(f["match"], r["n"], r["k"], cell[0], msg)), None)
                if f is None:
                    cells.append(cell)
                    keep_msgs.append(msg)
                else:
                    dropped_cells += 1
                    h = hits.setdefault(f["id"], {"finding": f, "cells": 0, "example": [r["n"], r["k"], cell[0]]})
                    h["cells"] += 1
            r["cells"], r["msgs"] = cells, keep_msgs
            fo.write(json.dumps(r) + "\n")     # a record left without cells is trivially allowed
            kept += 1
    for fid in sorted(hits):
        h = hits[fid]
        lib.known_finding(ctx, "id=%s %s" % (fid, h["finding"]["what"]))
    ctx.extra["known_finding_cells"] = {fid: {"cells": h["cells"], "first": h["example"]} for fid, h in hits.items()}
    return kept, dropped_cells


# ------------------------------------------------------------------------------------------------
# trace validation and verdicts

def read_record(path, index1):
    with open(path) as f:
        for i, line in enumerate(f, 1):
            if i == index1:
                return json.loads(line)
    return None


def replay_objects(rec, grid_msg):
    """Replay objects (one call each) for a rejected record."""
    if rec["t"] == "sol":
        return [{"property": "C19", "kind": "sol", "cand": rec["kind"], "n": rec["n"], "k": rec["k"],
                 "input": rec["input"], "nonce": rec["nonce"], "solnhex": rec["solnhex"],
                 "observed": rec["verdict"], "panic_message": rec.get("msg", "")}]
    if rec["t"] == "grid":
        msgs = rec.get("msgs") or [""] * len(rec["cells"])
        out = []
        for cell, msg in zip(rec["cells"], msgs):
            if cell[2] != "err":
                out.append({"property": "C19", "kind": "grid", "n": rec["n"], "k": rec["k"], "len": cell[0],
                            "fill": cell[1], "input": rec.get("input", grid_msg[0]), "nonce": rec.get("nonce", grid_msg[1]),
                            "observed": cell[2], "panic_message": msg})
        return out[:2] or [{"property": "C19", "kind": "grid", "n": rec["n"], "k": rec["k"], "len": rec["cells"][0][0],
                            "fill": rec["cells"][0][1], "input": grid_msg[0], "nonce": grid_msg[1], "observed": "?"}]
    if rec["t"] == "sweep":
        fb = rec.get("first_bad") or {}
        return [{"property": "C19", "kind": "sol", "cand": "sweep", "n": rec["n"], "k": rec["k"],
                 "input": grid_msg[0], "nonce": grid_msg[1], "solnhex": fb.get("solnhex", ""),
                 "observed": fb.get("verdict", "?"), "panic_message": fb.get("msg", "")}]
    return []


def describe(rep):
    what = "is_valid_solution(n=%d, k=%d, input=%s, nonce=%s, " % (rep["n"], rep["k"], rep["input"][:24] + "..", rep["nonce"][:16] + "..")
    obs = rep.get("observed")
    if rep["kind"] == "grid":
        what += "soln = %d bytes of 0x%02x)" % (rep["len"], rep["fill"])
        exp = "an error (constant fill: all indices equal, or wrong length / invalid parameters)"
    else:
        what += "soln = %d bytes [%s])" % (len(rep["solnhex"]) // 2, rep.get("cand", ""))
        exp = {"ok": "a rejection: Equihash!SolVerdict = \"err\" (wrong length, or the decoded indices are not a valid solution "
                     "for the independently computed rows)",
               "err": "acceptance: Equihash!SolVerdict = \"ok\" (right length, distinct canonically ordered indices, all "
                      "collisions hold, total XOR zero)"}.get(obs, "an accept/reject verdict, never a panic")
    return "%s returned %s %s; the specification requires %s" % (what, obs, rep.get("panic_message", ""), exp)


CHUNK = 10000


def validate(ctx, d, trace, expect_records, grid_msg=("", ""), max_reports=3):
    """TLC validation of a trace in chunks of CHUNK records (bounded memory). Returns records accepted."""
    with open(trace) as f:
        total = sum(1 for _ in f)
    if total != expect_records:
        raise lib.ToolError("trace %s: %d records on disk, %d expected" % (trace, total, expect_records))
    if total <= CHUNK:
        return validate_chunk(ctx, d, trace, total, 0, grid_msg, max_reports)
    accepted = 0
    with open(trace) as f:
        part, base, idx = [], 0, 0
        for line in f:
            part.append(line)
            if len(part) == CHUNK:
                accepted += _validate_part(ctx, d, trace, part, base, idx, grid_msg, max_reports)
                base += len(part)
                idx += 1
                part = []
                if len(ctx.violations) >= 2 * max_reports:
                    return accepted
        if part:
            accepted += _validate_part(ctx, d, trace, part, base, idx, grid_msg, max_reports)
    return accepted


def _validate_part(ctx, d, trace, part, base, idx, grid_msg, max_reports):
    p = ctx.path("%s.part%d" % (os.path.basename(trace), idx))
    with open(p, "w") as f:
        f.writelines(part)
    n = validate_chunk(ctx, d, p, len(part), base, grid_msg, max_reports, shown=os.path.basename(trace))
    os.remove(p)
    return n


def validate_chunk(ctx, d, trace, expect_records, base, grid_msg=("", ""), max_reports=3, shown=None):
    """TLC validation of one trace file; every rejection is triaged (harness defect vs verdict
    disagreement) and reported; validation continues behind a rejected record."""
    accepted_total = 0
    offset = 0
    reports = 0
    cur = trace
    remaining = expect_records
    shown = shown or os.path.basename(trace)
    while True:
        ok, n, detail, res = lib.tlc_validate(ctx, d, "Trace_Equihash", "Trace_Equihash.cfg", cur, timeout=2400, xmx="8g")
        lib.account_tlc(ctx, res)
        if ok:
            if n != remaining:
                raise lib.ToolError("trace %s: %d records validated, %d expected" % (trace, n, remaining))
            return accepted_total + n
        if n < 1:
            raise lib.ToolError("trace validation gave no index: %s" % detail)
        rec = read_record(cur, n)
        if rec is None:
            raise lib.ToolError("rejected record %d not found in %s" % (n, cur))
        # well-formedness of the record alone: if that fails, the driver (not the code under test) is wrong
        one = ctx.path("rejected_%d.ndjson" % (base + offset + n))
        with open(one, "w") as f:
            f.write(json.dumps(rec) + "\n")
        okwf, _, _, _ = lib.tlc_validate(ctx, d, "Trace_Equihash", "Trace_Equihash.cfg", one, env_extra={"C19MODE": "wf"})
        if not okwf:
            raise lib.ToolError("driver logged an ill-formed record (index %d of %s): decoder/rows disagree with the "
                                "specification's encoding - harness defect, not a violation" % (base + offset + n, shown))
        for rep in replay_objects(rec, grid_msg):
            lib.violation(ctx, rep, "record %d of %s rejected by Trace_Equihash: %s" % (base + offset + n, shown, describe(rep)))
        reports += 1
        accepted_total += n - 1
        remaining -= n
        offset += n
        if reports >= max_reports or remaining <= 0:
            return accepted_total
        nxt = ctx.path("rest_%d.ndjson" % (base + offset))
        with open(cur) as fi, open(nxt, "w") as fo:
            for i, line in enumerate(fi, 1):
                if i > n:
                    fo.write(line)
        cur = nxt


def driver(ctx, bindir, args):
    p = lib.run_bin(os.path.join(bindir, "c19_driver"), args, env_extra={"VERIF_SEED": str(ctx.seed)}, timeout=2400)
    return json.loads(p.stdout.strip().splitlines()[-1])


REQUIRED_SETS = {(48, 5), (32, 3), (40, 4), (40, 3), (48, 3), (64, 3), (120, 7)}
REQUIRED_KINDS = ["solution", "flip_soln", "flip_input", "flip_nonce", "sibling_swap", "dup_one", "doubled_subtree",
                  "wagner_dup", "relaxed_collision", "near_root", "short_tree", "random", "truncated", "extended"]


def run(ctx):
    bindir = lib.cargo_build("h_core", ["c19_driver"])
    d = lib.stage_specs(ctx, AREA)
    for m in ("Equihash", "MC_Equihash", "MC_Encoding", "Trace_Equihash"):
        lib.sany(os.path.join(d, m + ".tla"))

    # (1) the specification alone
    model_runs(ctx, d)

    # (2) solver-found solutions and mutations, judged by the specification
    sols_trace = ctx.path("sols.ndjson")
    s = driver(ctx, bindir, ["sols", sols_trace, ctx.tier])
    lib.log("[driver] sols: %d records, %d accepted, %d rejected, %d panics; per set: %s"
            % (s["records"], s["accepted"], s["rejected"], s["panics"],
               ", ".join("(%d,%d):%d" % (x["n"], x["k"], x["solutions_found"]) for x in s["per_set"])))
    for x in s["per_set"]:
        if (x["n"], x["k"]) in REQUIRED_SETS and x["full_suites"] == 0 and not ((x["n"], x["k"]) == (120, 7) and x["light_suites"] > 0):
            raise lib.ToolError("vacuity: no solution found for (%d,%d) in %d instances" % (x["n"], x["k"], x["instances"]))
    for kind in REQUIRED_KINDS:
        if s["by_kind"].get(kind, [0, 0])[0] == 0:
            raise lib.ToolError("vacuity: no candidate of kind %s" % kind)
    n_ok = validate(ctx, d, sols_trace, s["records"])
    ctx.traces += n_ok

    # (3) the (n,k) grid and the invalid-parameter sweep
    grid_trace = ctx.path("grid.ndjson")
    nmax, kmax, cap = (600, 70, 23) if ctx.quick() else (1100, 70, 26)
    g = driver(ctx, bindir, ["grid", grid_trace, str(nmax), str(kmax), str(cap)])
    lib.log("[driver] grid 0..%d x 0..%d: %d calls, %d panics, %d accepted, %d pairs whose matching length exceeds 2^%d bytes"
            % (nmax, kmax, g["calls"], g["panics"], g["accepted"], g["matching_len_beyond_cap"], cap))
    filtered = ctx.path("grid_filtered.ndjson")
    kept, dropped = filter_known(ctx, grid_trace, filtered)
    if kept != g["records"]:
        raise lib.ToolError("grid trace has %d records, driver reported %d" % (kept, g["records"]))
    n_ok2 = validate(ctx, d, filtered, kept, grid_msg=(g["input"], g["nonce"]))
    ctx.traces += n_ok2

    # evidence
    nontrivial = 0
    with open(sols_trace) as f:
        seen = set()
        for i, line in enumerate(f):
            r = json.loads(line)
            if r["idx"]:
                key = (r["n"], r["k"], r["input"], r["nonce"], r["solnhex"])
                if key not in seen:
                    seen.add(key)
                    nontrivial += 1
            if r["kind"] in ("solution", "wagner_dup", "relaxed_collision", "sibling_swap") and len(ctx.samples) < 5 \
                    and not any(smp.get("kind") == r["kind"] for smp in ctx.samples):
                ctx.add_sample({"kind": r["kind"], "n": r["n"], "k": r["k"], "input": r["input"], "nonce": r["nonce"],
                                "soln": r["solnhex"], "idx": r["idx"], "verdict": r["verdict"]})
    with open(filtered) as f:
        for line in f:
            if line.startswith('{"cells"') or '"n":200,"k":9,' in line or '"k":9,"n":200' in line:
                r = json.loads(line)
                if r.get("t") == "grid" and r["n"] == 200 and r["k"] == 9:
                    ctx.add_sample({"grid_record": r})
                    break
    ctx.extra["driver_sols"] = {k: s[k] for k in ("records", "accepted", "rejected", "panics", "by_kind", "per_set")}
    ctx.extra["driver_grid"] = {k: g[k] for k in ("pairs", "calls", "panics", "accepted", "matching_len_beyond_cap", "sweeps", "cap_log2")}
    ctx.extra["grid_cells_dropped_as_known_findings"] = dropped
    lib.mc_evidence(
        ctx,
        rule="solutions of an independent Wagner solver (own BLAKE2b leaf rows) for %d small parameter sets, each with "
             "every single-bit flip of solution/input/nonce, sibling swaps at every node, repeated indices, near-solutions "
             "failing exactly one clause, wrong lengths and random strings; each call to equihash::is_valid_solution is "
             "logged and TLC requires verdict = Equihash!SolVerdict; plus every (n,k) in 0..%d x 0..%d with the matching "
             "length (<= 2^%d bytes) and neighbours, constant fills. distinct_nontrivial = distinct (n,k,input,nonce,solution) "
             "calls of the right length on valid parameters, i.e. decided by the tree definition ValidRows"
             % (len(s["per_set"]), nmax, kmax, cap),
        evaluations=s["records"] + g["calls"], distinct_nontrivial=nontrivial,
        extra={"exhaustive": False, "accepted_solutions": s["accepted"], "grid_pairs": g["pairs"]},
        assumptions=["leaf hashes: BLAKE2b (blake2b_simd) is trusted on both sides; the specification takes the rows as input",
                     "verdict agreement is checked on parameter sets with 8 <= n/(k+1) <= 20 and n <= 96; the real (200,9) "
                     "parameters only through the grid clause",
                     "grid: matching lengths above the cap are not allocated (only their wrong-length neighbours 0,1,2)",
                     "panics are observed under the harness profile (overflow checks and debug assertions on)"])


# ------------------------------------------------------------------------------------------------

def replay(ctx, path):
    bindir = lib.cargo_build("h_core", ["c19_driver"])
    d = lib.stage_specs(ctx, AREA)
    with open(path) as f:
        rep = json.load(f)
    out = ctx.path("replay.ndjson")
    r = driver(ctx, bindir, ["replay", path, out])
    filtered = ctx.path("replay_filtered.ndjson")
    kept, _ = filter_known(ctx, out, filtered)
    before = len(ctx.violations)
    validate(ctx, d, filtered, kept, grid_msg=(rep.get("input", ""), rep.get("nonce", "")))
    if len(ctx.violations) == before:
        lib.log("replay: the call now agrees with the specification")


def selftest(ctx):
    """Binding demonstration: corrupt one logged field of a fresh trace -> TLC must reject at that index."""
    bindir = lib.cargo_build("h_core", ["c19_driver"])
    d = lib.stage_specs(ctx, AREA)
    trace = ctx.path("self_sols.ndjson")
    s = driver(ctx, bindir, ["sols", trace, "quick"])
    with open(trace) as f:
        lines = f.read().splitlines()
    recs = [json.loads(l) for l in lines[:1500]]
    i_sol = next(i for i, r in enumerate(recs) if r["kind"] == "solution" and r["verdict"] == "ok")
    i_rej = next(i for i, r in enumerate(recs) if r["kind"] == "sibling_swap" and r["verdict"] == "err")
    i_len = next(i for i, r in enumerate(recs) if r["kind"] == "truncated" and r["verdict"] == "err")
    base = lines[:max(i_sol, i_rej, i_len) + 20]

    def expect_reject(name, index0, mutate, wf_defect=False):
        r = json.loads(base[index0])
        mutate(r)
        p = ctx.path("self_%s.ndjson" % name)
        with open(p, "w") as f:
            f.write("\n".join(base[:index0] + [json.dumps(r)] + base[index0 + 1:]) + "\n")
        ok, n, detail, res = lib.tlc_validate(ctx, d, "Trace_Equihash", "Trace_Equihash.cfg", p)
        if ok or n != index0 + 1:
            raise lib.ToolError("selftest %s: corruption at record %d not rejected there (ok=%s, n=%s)" % (name, index0 + 1, ok, n))
        lib.log("selftest ok: %s rejected at record %d" % (name, n))

    ok, n, _, _ = lib.tlc_validate(ctx, d, "Trace_Equihash", "Trace_Equihash.cfg", _write(ctx, "self_base.ndjson", base))
    if not ok or n != len(base):
        raise lib.ToolError("selftest: the uncorrupted prefix was not accepted")
    expect_reject("solution_logged_as_rejected", i_sol, lambda r: r.update(verdict="err"))
    expect_reject("solution_logged_as_panic", i_sol, lambda r: r.update(verdict="panic"))
    expect_reject("swap_logged_as_accepted", i_rej, lambda r: r.update(verdict="ok"))
    expect_reject("wrong_length_logged_as_accepted", i_len, lambda r: r.update(verdict="ok"))

    def flip_row(r):
        r["rows"][len(r["rows"]) // 2][1] ^= 1
    expect_reject("row_segment_changed_under_accepted", i_sol, flip_row)

    def flip_idx(r):
        r["idx"][1] ^= 1
    expect_reject("index_not_the_decoding", i_sol, flip_idx)
    # a dropped record is detected by the record count
    try:
        validate(ctx, d, _write(ctx, "self_dropped.ndjson", base[:-1]), len(base))
        raise lib.ToolError("selftest: dropped record not detected")
    except lib.ToolError as e:
        if "expected" not in str(e):
            raise
        lib.log("selftest ok: dropped record detected by count")
    # grid: a panic outside the listed classes, and a wrongly accepted cell, must be rejected
    g = [json.dumps({"t": "grid", "n": 200, "k": 9, "cells": [[1344, 0, "err"], [1345, 255, "err"]]}),
         json.dumps({"t": "grid", "n": 48, "k": 5, "cells": [[36, 0, "err"], [36, 255, "panic"]], "msgs": ["", "index out of bounds"]}),
         json.dumps({"t": "grid", "n": 8, "k": 3, "cells": [[3, 0, "panic"]], "msgs": ["assertion failed: bit_len >= 8"]}),
         json.dumps({"t": "grid", "n": 8, "k": 3, "cells": [[3, 0, "panic"]], "msgs": ["some other panic"]})]
    src = _write(ctx, "self_grid.ndjson", g)
    dst = ctx.path("self_grid_filtered.ndjson")
    known_before = list(ctx.known)
    filter_known(ctx, src, dst)
    ok, n, _, _ = lib.tlc_validate(ctx, d, "Trace_Equihash", "Trace_Equihash.cfg", dst)
    if ok or n != 2:
        raise lib.ToolError("selftest: unlisted panic in the grid not rejected at record 2 (ok=%s n=%s)" % (ok, n))
    with open(dst) as f:
        kept = f.read().splitlines()
    listed = any(f.get("id") == "C19-panic-collision-bits-lt-8" and f.get("status") == "open" for f in lib.load_known_findings())
    if listed and json.loads(kept[2])["cells"]:
        raise lib.ToolError("selftest: a listed panic class was not filtered")
    if not json.loads(kept[3])["cells"]:
        raise lib.ToolError("selftest: a panic with a different message was filtered as a known finding")
    ctx.known[:] = known_before
    lib.log("selftest ok: grid panic outside the listed classes rejected; different panic message not filtered")
    sw = [json.dumps({"t": "sweep", "n": 16, "k": 1, "len": 2, "tries": 400, "ok": 1, "err": 399, "panic": 0, "first_bad": {}})]
    ok, n, _, _ = lib.tlc_validate(ctx, d, "Trace_Equihash", "Trace_Equihash.cfg", _write(ctx, "self_sweep.ndjson", sw))
    if ok:
        raise lib.ToolError("selftest: accepted solution under invalid parameters not rejected")
    lib.log("selftest ok: acceptance under invalid parameters rejected")


def _write(ctx, name, lines):
    p = ctx.path(name)
    with open(p, "w") as f:
        f.write("\n".join(lines) + "\n")
    return p
